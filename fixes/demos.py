"""Demonstrations of the genuine defects found on the pinned tree (run against a checkout: cwd = repo root).

These are NOT checks (the checks are static); they only show, against the real code, that each finding the
static rules reported is a real failing input.  Usage:  cd <repo> && /venv/bin/python /verif/fixes/demos.py [name...]
Each demo prints ok/FAIL; exit status 1 if any failed.
"""
import signal
import subprocess
import sys
import warnings

sys.path.insert(0, '.')
warnings.simplefilter('ignore')


class Timeout(Exception):
    pass


def _alarm(signum, frame):
    raise Timeout()


signal.signal(signal.SIGALRM, _alarm)


def soup(markup, parser='html.parser'):
    from bs4 import BeautifulSoup
    return BeautifulSoup(markup, parser)


def ids(els):
    return [e.get('id') for e in els]


def d_c03_custom():
    import soupsieve as sv
    s = soup('<h1 id="a">x</h1><p id="b">y</p>')
    c = {':--header': 'h1'}
    assert ids(sv.select(':--header', s, custom=c)) == ['a']
    assert sv.select_one(':--header', s, custom=c).get('id') == 'a'
    assert ids(sv.iselect(':--header', s, custom=c)) == ['a']
    assert sv.match(':--header', s.h1, custom=c)
    assert ids(sv.filter(':--header', s, custom=c)) == ['a']
    assert sv.closest(':--header', s.h1, custom=c) is s.h1


def d_c16_import():
    for code in ('import bs4', 'from bs4 import BeautifulSoup', 'import soupsieve', 'import bs4, soupsieve',
                 'import soupsieve, bs4'):
        r = subprocess.run([sys.executable, '-c', code + '\nfrom bs4 import BeautifulSoup as B\n'
                            'import soupsieve as sv\n'
                            'assert len(B("<p><b>1</b></p>","html.parser").select("p:nth-child(1) b:root, b"))==1'],
                           capture_output=True, text=True)
        assert r.returncode == 0 and not r.stdout and not r.stderr, (code, r.stderr[-300:])


def d_c15_delattr():
    import soupsieve as sv
    c = sv.compile('p.zz15')
    try:
        del c.selectors
    except AttributeError:
        pass
    else:
        raise AssertionError('del succeeded')
    assert c.selectors is not None
    try:
        del c.selectors[0].tag
    except AttributeError:
        pass
    else:
        raise AssertionError('del on Selector succeeded')


def d_c20_pretty():
    import soupsieve as sv
    from soupsieve.pretty import pretty
    signal.alarm(5)
    try:
        for p in ('[a=b]', ':nth-child(-n+3)', 'a > b:is(c, d)'):
            out = pretty(sv.compile(p).selectors)
            assert ''.join(out.split()) == ''.join(str(sv.compile(p).selectors).split()), p
    finally:
        signal.alarm(0)


def d_c06_escapes():
    import soupsieve as sv
    for p in (r'\110000', r'\ffffff', ':-soup-contains("\\31/**/")', r'#\d800', '\\'):
        try:
            sv.compile(p)
        except sv.SelectorSyntaxError:
            pass
    s = soup('<p id="\ufffd">x</p>')
    assert ids(sv.select(r'#\110000', s)) == ['\ufffd']


def d_c06_bigint():
    import soupsieve as sv
    for p in (':nth-child(' + '1' * 5000 + 'n)', ':nth-child(n+' + '1' * 5000 + ')'):
        try:
            sv.compile(p)
        except sv.SelectorSyntaxError:
            pass
    s = soup('<input id="a" type="date" min="' + '1' * 5000 + '-01-01" value="2000-01-01">')
    sv.select(':in-range', s)
    sv.select(':out-of-range', s)


def d_c14_shared_state():
    # the two-step protocol match()/get_name() on the shared token object: another parser's match in between
    from soupsieve import css_parser as cp
    special = [t for t in cp.CSSParser.css_tokens if isinstance(t, cp.SpecialPseudoPattern)][0]
    m1 = special.match(':nth-child(2n+1)', 0, 0)
    name_alone = special.get_name() if not hasattr(special, 'get_name_for') else None
    m2 = special.match(':lang(en)', 0, 0)      # "other thread"
    assert m1 and m2
    # the name of m1 must still be recoverable as pseudo_nth_child
    import inspect
    src = inspect.getsource(cp.CSSParser.selector_iter)
    # behavioural probe: parse both patterns with an interleaving forced by a wrapper
    orig = cp.SpecialPseudoPattern.match
    calls = {'n': 0}

    def wrapped(self, selector, index, flags):
        r = orig(self, selector, index, flags)
        if r is not None and calls['n'] == 0:
            calls['n'] = 1
            orig(self, ':lang(en)', 0, 0)      # a second parser gets scheduled right after our match
        return r
    cp.SpecialPseudoPattern.match = wrapped
    try:
        cp._purge_cache()
        sel = cp.CSSParser(':nth-child(2n+1)').process_selectors()
        assert sel[0].nth and not sel[0].lang, sel
    finally:
        cp.SpecialPseudoPattern.match = orig
        cp._purge_cache()


def d_c08_range_type():
    import soupsieve as sv
    s = soup('<input id="a" max="5"><input id="b" type="week" min="0999-W01" value="0999-W02">'
             '<input id="c" type="week" min="10000-W01" value="10000-W02">')
    sv.select(':in-range', s)
    sv.select(':out-of-range', s)
    assert ids(sv.select(':in-range', s)) == ['b', 'c']


def d_c08_bytes():
    import soupsieve as sv
    s = soup('<p id="a">x</p>')
    s.p['data-x'] = b'\xff\xfe'
    sv.select('[data-x]', s)
    sv.select('[data-x="q"]', s)


def d_c18_week53():
    import soupsieve as sv
    # 2019 has 52 ISO weeks, 2020 has 53, 2015 has 53, 2016 has 52
    def inr(v):
        return bool(sv.select(':in-range', soup(f'<input type="week" min="{v}" value="9999-W01">')))
    assert not inr('2019-W53') and inr('2020-W53') and inr('2015-W53') and not inr('2016-W53')
    assert inr('0004-W53') and not inr('0005-W53') and inr('10000-W52')


def d_c18_value_shapes():
    import soupsieve as sv
    s = soup('<input id="a" type="number" min="5\n" value="1"><input id="b" type="number" min="1e1" value="5">'
             '<input id="c" type="time" min="10:00\n" value="09:00"><input id="d" type="date" max="2000-01-01\n" '
             'value="2001-01-01"><input id="e" type="number" max="2.5E-1" value="1">')
    assert ids(sv.select(':out-of-range', s)) == ['b', 'e'], ids(sv.select(':out-of-range', s))


def d_c04_lang_cache():
    import soupsieve as sv
    s = soup('<html><head></head><body><p id="a">1</p><p id="b">2</p></body></html>')
    got = ids(sv.select(':lang("")', s))
    each = [e.get('id') for e in s.find_all(True) if sv.match(':lang("")', e)]
    assert got == each, (got, each)


def d_c13_empty_lang():
    import soupsieve as sv
    s = soup('<div lang="en"><p id="a" lang=""><span id="b">x</span></p><span id="c">y</span></div>')
    assert ids(sv.select(':lang(en)', s)) == [None, 'c'], ids(sv.select(':lang(en)', s))
    assert ids(sv.select(':lang("")', s)) == ['a', 'b']


def d_c09_spacing():
    import soupsieve as sv
    s = soup('<a id="1"><b id="2">x</b></a><b id="3"></b>')
    assert ids(sv.select('a  > b', s)) == ['2']
    assert ids(sv.select('a \n\t> b', s)) == ['2']
    assert ids(sv.select('a /**/ > b', s)) == ['2']
    assert ids(sv.select(':is(a  , b)', s)) == ['1', '2', '3']
    assert ids(sv.select('a  ~ b', s)) == ['3']
    assert ids(sv.select('a  + b', s)) == ['3']
    assert ids(sv.select('a  , b', s)) == ['1', '2', '3']
    assert sv.compile('a  > b').selectors == sv.compile('a > b').selectors


def d_c09_comment_star():
    import soupsieve as sv
    s = soup('<p id="1" t="a"><i><b id="2">x</b></i></p><i id="i"></i>')
    assert ids(sv.select('p /* all */* > b /* end */', s)) == ['2']
    assert sv.compile('p /* all */* > b /* end */').selectors == sv.compile('p * > b').selectors
    assert sv.compile('p[t/**/*="a"] ~ #i /**/').selectors == sv.compile('p[t*="a"] ~ #i').selectors


def d_c09_contains_decode():
    import soupsieve as sv
    a = sv.compile(r':-soup-contains("a\"b")').selectors[0].contains[0].text
    assert a == ('a"b',), a
    b = sv.compile(r':-soup-contains("\5c 41")').selectors[0].contains[0].text
    assert b == ('\\41',), b
    c = sv.compile(r':-soup-contains("a\,b", c)').selectors[0].contains[0].text
    assert c == ('a,b', 'c'), c


def d_c09_values_hex_case():
    import soupsieve as sv
    a = sv.compile(r':lang(\C9 t)').selectors[0].lang[0].languages
    b = sv.compile(r':lang(\c9 t)').selectors[0].lang[0].languages
    assert a == b == ('\xc9t',), (a, b)
    c = sv.compile(r':-soup-contains(\C9 t)').selectors[0].contains[0].text
    assert c == ('\xc9t',), c


def d_c09_custom_key_case():
    import soupsieve as sv
    s = soup('<h1 id="a">x</h1>')
    assert ids(sv.compile(r':--\48 ead', custom={r':--\48 ead': 'h1'}).select(s)) == ['a']


def d_c01_doc_parent():
    import soupsieve as sv
    s = soup('<html id="h"><body id="b"><p id="p"></p></body></html>')
    assert ids(sv.select('* > html', s)) == []
    assert ids(sv.select(':not(p) > html', s)) == []
    assert ids(sv.select('* html', s)) == []
    assert ids(sv.select(':not(p) body', s)) == ['b']


def d_c01_empty_operand():
    import soupsieve as sv
    s = soup('<p id="a" title="x"></p><p id="b" title=""></p>')
    for op in ('^=', '$=', '*='):
        assert ids(sv.select(f'[title{op}""]', s)) == [], op
    assert ids(sv.select('[title=""]', s)) == ['b']


def d_c02_nth():
    import soupsieve as sv
    s = soup('<ul><li id="1"></li><li id="2"></li></ul>')
    assert ids(sv.select('li:nth-child(n+2)', s)) == ['2']
    assert ids(sv.select('li:nth-child(2n-2)', s)) == ['2']
    s = soup('<ul><li id="1"></li><li id="2"></li><li id="3"></li><li id="4"></li></ul>')
    assert ids(sv.select('li:nth-child(2n-2)', s)) == ['2', '4']
    assert ids(sv.select('li:nth-child(-n+4)', s)) == ['1', '2', '3', '4']
    assert ids(sv.select('li:nth-last-child(n+4)', s)) == ['1']
    assert ids(sv.select('li:nth-child(3n-3)', s)) == ['3']
    assert ids(sv.select('li:nth-child(0n+4)', s)) == ['4']


def d_c12_wild_attr():
    import soupsieve as sv
    x = soup('<svg xmlns="http://www.w3.org/2000/svg" xmlns:xlink="http://www.w3.org/1999/xlink">'
             '<a id="1" xlink:href="x"/><a id="2" href="y"/><a id="3"/></svg>', 'xml')
    ns = {'xlink': 'http://www.w3.org/1999/xlink'}
    assert ids(sv.select('[*|href]', x, namespaces=ns)) == ['1', '2']
    assert ids(sv.select('[*|href]', x)) == ['1', '2']
    assert ids(sv.select('[xlink|href]', x, namespaces=ns)) == ['1']
    assert ids(sv.select('[href]', x, namespaces=ns)) == ['2']
    assert ids(sv.select('[|href]', x, namespaces=ns)) == ['2']
    assert ids(sv.select('[nope|href]', x, namespaces=ns)) == []


def d_c10_escape_c1():
    import soupsieve as sv
    for ch in ('\x80', '\x9f', 'a\x85b', '-\x80'):
        s = soup('<p>x</p>')
        s.p['id'] = ch
        assert sv.select('#' + sv.escape(ch), s) == [s.p], repr(ch)


def d_c07_redos():
    import soupsieve as sv
    pats = ['[a="' + 'a' * 40, ':lang(' + 'aa,' * 25, '\\a' * 24, '[' + '\\a' * 22, ':lang("' + '\\\r' * 30,
            ':-soup-contains(' + 'a\\9 ' * 20, '#' + 'a' * 30 + '\\\n', '[a=' + '\\a ' * 24 + '"']
    import time
    for p in pats:
        signal.alarm(4)
        t = time.time()
        try:
            sv.compile(p)
        except (sv.SelectorSyntaxError, NotImplementedError):
            pass
        finally:
            signal.alarm(0)
        assert time.time() - t < 2, (p, time.time() - t)


def d_c19_mixed_contains():
    import bs4
    import soupsieve as sv
    """:-soup-contains and :-soup-contains-own in one compound selector shared one cached text (C19-R3 table)."""
    s = bs4.BeautifulSoup('<div><p>ab<span>cd</span></p></div>', 'html.parser')
    assert len(sv.select('p:-soup-contains("ab"):-soup-contains-own("ab")', s)) == 1
    assert len(sv.select('p:-soup-contains-own("ab"):-soup-contains("cd")', s)) == 1
    assert sv.select('p:-soup-contains-own("cd"):-soup-contains("cd")', s) == []


def d_c09_string_continuation_at_end():
    """A quoted value that ends in a line continuation is the value without it (C09-R6, decoder groups as prefix matches)."""
    import soupsieve as sv
    s = soup('<p id="a" title="abc">x</p><p id="b" title="abc\ufffd\n">y</p>')
    assert ids(sv.select('[title="abc\\\n"]', s)) == ['a']
    assert sv.compile('[title="abc\\\n"]').selectors == sv.compile('[title="abc"]').selectors


def d_c13_trailing_wildcard():
    """A language range ending in '-*' matches like the range without it (C13-R7, RFC 4647 table)."""
    import soupsieve as sv
    s = soup('<p id="a" lang="de-CH">x</p><p id="b" lang="de">y</p><p id="c" lang="en">z</p>')
    assert ids(sv.select(':lang("de-*")', s)) == ['a', 'b']
    assert ids(sv.select(':lang("de-*-*")', s)) == ['a', 'b']
    assert ids(sv.select(':lang("de-")', s)) == []


def d_c20_end_of_multiline_pattern():
    """An error at the very end of a multi-line pattern is reported on the last line (C20-R7 table)."""
    import soupsieve as sv
    try:
        sv.compile('div,\np:is(a')
    except sv.SelectorSyntaxError as e:
        assert (e.line, e.col) == (2, 7), (e.line, e.col)
        assert e.context.splitlines()[-1].strip() == '^' and e.context.splitlines()[-2].startswith('--> ')
    else:
        raise AssertionError('no error')


def d_c06_custom_escape_order():
    """The KeyError documented for names that differ only in case is not raised for a name spelled plainly and with an escape,
    whichever comes first (C06-R6 custom-map rows)."""
    import soupsieve as sv
    for cm in ({':--\\61': 'p', ':--a': 'div'}, {':--a': 'div', ':--\\61': 'p'}):
        sv.purge()
        sv.compile('p', custom=cm)
    sv.purge()
    try:
        sv.compile('p', custom={':--a': 'p', ':--A': 'div'})
    except KeyError:
        pass
    else:
        raise AssertionError('names that differ only in case must still be refused')


def d_c05_c12_dir_defined_lists():
    """A list that contains :dir() / :defined is the union of its alternatives, keeps the caller's prefix map, and its other
    alternatives still match in XML and across iframes (C05-R1 list facts, C12-R7 rows; the four recorded findings)."""
    import bs4
    import soupsieve as sv
    XH, SVG = 'http://www.w3.org/1999/xhtml', 'http://www.w3.org/2000/svg'
    soup = bs4.BeautifulSoup('<html><body><p id="p">x</p><svg><circle id="c"/></svg><div><iframe><html><body><p id="ip">y</p></body></html></iframe></div></body></html>', 'html5lib')
    ids = lambda s, d=soup, **kw: [e.get('id') for e in sv.select(s, d, **kw)]        # noqa: E731
    assert ids('svg|circle, p:dir(ltr)', namespaces={'svg': SVG}) == ['p', 'c'], ids('svg|circle, p:dir(ltr)', namespaces={'svg': SVG})
    assert ids('h|p:dir(ltr)', namespaces={'h': XH}) == ['p'], ids('h|p:dir(ltr)', namespaces={'h': XH})
    assert ids('html|p:defined', namespaces={'h': XH}) == [], 'an unmapped prefix matches nothing'
    xml = bs4.BeautifulSoup('<r><span id="s"/><p id="q"/></r>', 'xml')
    assert ids('span, p:dir(ltr)', xml) == ['s'] and ids('span, p:defined', xml) == ['s']
    assert ids('p:dir(ltr)', xml) == [] and ids(':defined', xml) == [] and ids('p:not(:defined)', xml) == ['q']
    hp = bs4.BeautifulSoup('<html><body><div><iframe><html><body><p id="ip">y</p></body></html></iframe></div><x id="x"></x></body></html>', 'html.parser')
    assert ids('div p, x:dir(ltr)', hp) == ids('div p', hp) + ['x'] == ['ip', 'x'], ids('div p, x:dir(ltr)', hp)


DEMOS = {k[2:]: v for k, v in list(globals().items()) if k.startswith('d_')}

if __name__ == '__main__':
    names = sys.argv[1:] or list(DEMOS)
    bad = 0
    for n in names:
        try:
            DEMOS[n]()
            print(f'ok   {n}')
        except Timeout:
            bad += 1
            print(f'FAIL {n}: timeout')
        except BaseException as e:  # noqa: BLE001
            bad += 1
            print(f'FAIL {n}: {type(e).__name__}: {str(e)[:200]}')
    sys.exit(1 if bad else 0)
