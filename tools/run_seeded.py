"""Run the checks against every seeded change (scratch copies outside /repo and /verif, removed afterwards).

usage: /venv/bin/python tools/run_seeded.py [--all-props] [ID-k ...]
Prints one line per seeded change: DETECTED / MISSED / ERROR and the findings' rule ids.
"""
import json
import os
import shutil
import subprocess
import sys
import tempfile
from concurrent.futures import ThreadPoolExecutor

PY = '/venv/bin/python'
SEEDED = '/verif/seeded'


def claimed():
    m = json.load(open('/verif/MANIFEST.json'))
    return [c['property_id'] for c in m['checks']]


def run_one(name, all_props, props_claimed):
    d = os.path.join(SEEDED, name)
    meta = json.load(open(os.path.join(d, 'meta.json'))) if os.path.isdir(d) else {}
    pid = meta['property']
    tmp = tempfile.mkdtemp(prefix='seed-', dir='/tmp')
    try:
        shutil.copytree('/repo/soupsieve', os.path.join(tmp, 'soupsieve'))
        os.symlink('/repo/docs', os.path.join(tmp, 'docs'))
        r = subprocess.run(['git', 'apply', '--unsafe-paths', f'--directory={tmp}', os.path.join(d, 'patch.diff')],
                           capture_output=True, text=True, cwd='/')
        if r.returncode:
            r = subprocess.run(['patch', '-p1', '-s', '-d', tmp, '-i', os.path.join(d, 'patch.diff')],
                               capture_output=True, text=True)
            if r.returncode:
                return name, pid, 'ERROR', 'patch does not apply: ' + (r.stdout + r.stderr)[-200:], {}
        res = {}
        props = props_claimed if all_props else ([pid] if pid in props_claimed else [])
        for p in props:
            r = subprocess.run([PY, '-m', 'sa.check', p, '--root', tmp, '--no-evidence', '--json'],
                               capture_output=True, text=True, cwd='/verif')
            js = [l for l in r.stdout.splitlines() if l.startswith('JSON ')]
            if r.returncode == 2 or not js:
                res[p] = ('ERROR', [l for l in r.stdout.splitlines() if 'ANALYSIS-ERROR' in l][:1] or [r.stderr[-200:]])
            else:
                j = json.loads(js[0][5:])
                res[p] = ('DETECTED' if j['new'] else 'silent', sorted({f['rule'] for f in j['new']}))
        own = res.get(pid)
        if own is None:
            status = 'UNCLAIMED'
        elif own[0] == 'DETECTED':
            status = 'DETECTED'
        elif own[0] == 'ERROR':
            status = 'ERROR'
        else:
            status = 'MISSED'
        others = {p: v for p, v in res.items() if p != pid and v[0] != 'silent'}
        return name, pid, status, (own[1] if own else ''), others
    finally:
        shutil.rmtree(tmp, ignore_errors=True)


def main():
    args = sys.argv[1:]
    all_props = '--all-props' in args
    names = [a for a in args if not a.startswith('--')] or sorted(n for n in os.listdir(SEEDED) if os.path.isdir(os.path.join(SEEDED, n)))
    pc = claimed()
    tally = {}
    with ThreadPoolExecutor(12) as ex:
        for name, pid, status, info, others in ex.map(lambda n: run_one(n, all_props, pc), names):
            tally[status] = tally.get(status, 0) + 1
            extra = f'  also: {others}' if others else ''
            print(f'{status:9s} {name:10s} {info}{extra}', flush=True)
    print(tally)


if __name__ == '__main__':
    main()
