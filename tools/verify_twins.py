"""Confirm behaviour-preserving refactorings (twins): each must apply to /repo HEAD and keep the unedited test-suite green.
Kept twins are copied to /verif/twins/<NAME><TAG>-<k>/ (patch regenerated against HEAD).
usage: /venv/bin/python tools/verify_twins.py /tmp/seeded_out/twins2 [TAG]"""
import json
import os
import shutil
import subprocess
import sys
from concurrent.futures import ThreadPoolExecutor

PY = '/venv/bin/python'
OUT = '/verif/twins'


def sh(cmd, cwd=None, timeout=900):
    r = subprocess.run(cmd, cwd=cwd, shell=True, capture_output=True, text=True, timeout=timeout)
    return r.returncode, r.stdout + r.stderr


def verify(src, name, k, tag):
    d = os.path.join(src, name, k)
    patch = os.path.join(d, 'patch.diff')
    if not os.path.exists(patch):
        return name, k, False, 'no patch'
    wt = f'/tmp/vt/{name}-{k}'
    sh(f'git -C /repo worktree remove --force {wt}')
    shutil.rmtree(wt, ignore_errors=True)
    rc, out = sh(f'git -C /repo worktree add -q --detach {wt} HEAD')
    if rc:
        return name, k, False, out[-200:]
    try:
        rc, out = sh(f'git apply {patch}', cwd=wt)
        if rc:
            return name, k, False, 'patch does not apply: ' + out[-200:]
        rc, out = sh(f'{PY} -m pytest -q -p no:cacheprovider -x', cwd=wt)
        tail = out.strip().splitlines()[-1] if out.strip() else ''
        if rc or '381 passed' not in tail or 'warning' in tail or 'error' in tail:
            return name, k, False, 'tests: ' + tail
        _, newpatch = sh('git diff', cwd=wt)
        dst = os.path.join(OUT, f'{name}{tag}-{k}')
        os.makedirs(dst, exist_ok=True)
        open(os.path.join(dst, 'patch.diff'), 'w').write(newpatch)
        meta = {}
        mp = os.path.join(d, 'meta.json')
        if os.path.exists(mp):
            try:
                meta = json.load(open(mp))
            except Exception:  # noqa: BLE001
                meta = {'raw': open(mp).read()}
        meta['confirmed'] = {'base_commit': sh('git -C /repo rev-parse --short HEAD')[1].strip(), 'tests_with_change': tail}
        json.dump(meta, open(os.path.join(dst, 'meta.json'), 'w'), indent=1)
        return name, k, True, tail
    finally:
        sh(f'git -C /repo worktree remove --force {wt}')
        shutil.rmtree(wt, ignore_errors=True)


def main():
    src = sys.argv[1]
    tag = sys.argv[2] if len(sys.argv) > 2 else 'b'
    names = sys.argv[3:] or sorted(x for x in os.listdir(src) if os.path.isdir(os.path.join(src, x)))
    jobs = [(n, k) for n in names for k in sorted(os.listdir(os.path.join(src, n))) if os.path.isdir(os.path.join(src, n, k))]
    os.makedirs('/tmp/vt', exist_ok=True)
    with ThreadPoolExecutor(6) as ex:
        for n, k, ok, msg in ex.map(lambda j: verify(src, j[0], j[1], tag), jobs):
            print(('KEEP ' if ok else 'DROP ') + f'{n}-{k}: {msg}')


if __name__ == '__main__':
    main()
