"""Confirm seeded changes independently: apply each to a scratch worktree of /repo HEAD, run the unedited
test-suite (must stay green), run the demonstration (must fail), undo, run it again (must pass).
Kept mutants are copied to /verif/seeded/<ID>-<k>/ with what was run recorded in meta.json.

usage: /venv/bin/python tools/verify_seeded.py /tmp/seeded_out [ID ...]
"""
import json
import os
import shutil
import subprocess
import sys
from concurrent.futures import ThreadPoolExecutor

PY = '/venv/bin/python'
OUT = '/verif/seeded'


def sh(cmd, cwd=None, timeout=600, env=None):
    try:
        r = subprocess.run(cmd, cwd=cwd, shell=isinstance(cmd, str), capture_output=True, text=True, timeout=timeout,
                           env=env)
        return r.returncode, (r.stdout + r.stderr)
    except subprocess.TimeoutExpired:
        return 124, 'timeout'


def verify(src_dir, pid, k):
    d = os.path.join(src_dir, pid, k)
    patch = os.path.join(d, 'patch.diff')
    demo = os.path.join(d, 'demo.py')
    if not (os.path.exists(patch) and os.path.exists(demo)):
        return pid, k, False, 'missing files'
    wt = f'/tmp/vs/{pid}-{k}'
    sh(f'git -C /repo worktree remove --force {wt}')
    shutil.rmtree(wt, ignore_errors=True)
    rc, out = sh(f'git -C /repo worktree add -q --detach {wt} HEAD')
    if rc:
        return pid, k, False, 'worktree: ' + out[-200:]
    rec = {}
    try:
        rc, out = sh(f'git apply {patch}', cwd=wt)
        if rc:
            rc, out = sh(f'git apply -3 {patch}', cwd=wt)
            if rc:
                return pid, k, False, 'patch does not apply: ' + out[-300:]
            rec['applied_with'] = 'git apply -3'
            sh('git reset -q', cwd=wt)
        env = dict(os.environ, PYTHONDONTWRITEBYTECODE='1')
        rc, out = sh(f'{PY} -m pytest -q -p no:cacheprovider -x', cwd=wt, env=env)
        tail = out.strip().splitlines()[-1] if out.strip() else ''
        rec['tests_with_change'] = tail
        if rc or '381 passed' not in tail or 'warning' in tail or 'error' in tail:
            return pid, k, False, 'tests: ' + tail
        rc_m, out_m = sh(f'{PY} {demo}', cwd=wt, timeout=300, env=env)
        rec['demo_with_change_exit'] = rc_m
        rec['demo_with_change_tail'] = out_m.strip()[-300:]
        # regenerate the patch against current HEAD so that it applies cleanly with plain `git apply`
        _, newpatch = sh('git diff', cwd=wt)
        sh('git checkout -q -- .', cwd=wt)
        rc_c, out_c = sh(f'{PY} {demo}', cwd=wt, timeout=300, env=env)
        rec['demo_clean_exit'] = rc_c
        if rc_m == 0:
            return pid, k, False, 'demo passes with the change'
        if rc_c != 0:
            return pid, k, False, 'demo fails on the clean tree: ' + out_c[-300:]
        dst = os.path.join(OUT, f'{pid}-{os.environ.get("SEED_TAG", "")}{k}')
        os.makedirs(dst, exist_ok=True)
        with open(os.path.join(dst, 'patch.diff'), 'w') as fh:
            fh.write(newpatch)
        shutil.copy(demo, os.path.join(dst, 'demo.py'))
        meta = {}
        mp = os.path.join(d, 'meta.json')
        if os.path.exists(mp):
            try:
                meta = json.load(open(mp))
            except Exception:  # noqa: BLE001
                meta = {'raw': open(mp).read()}
        head = sh('git -C /repo rev-parse --short HEAD')[1].strip()
        meta['property'] = pid
        meta['confirmed'] = {
            'base_commit': head,
            'ran': [f'git apply patch.diff (scratch worktree of /repo {head})',
                    f'{PY} -m pytest -q -p no:cacheprovider -x  -> {tail}',
                    f'{PY} demo.py  -> exit {rc_m} with the change',
                    f'git checkout -- . ; {PY} demo.py -> exit {rc_c} without it'],
            **rec,
        }
        with open(os.path.join(dst, 'meta.json'), 'w') as fh:
            json.dump(meta, fh, indent=1)
        return pid, k, True, tail
    finally:
        sh(f'git -C /repo worktree remove --force {wt}')
        shutil.rmtree(wt, ignore_errors=True)


def main():
    src = sys.argv[1]
    ids = sys.argv[2:] or sorted(x for x in os.listdir(src) if x.startswith('C') and os.path.isdir(os.path.join(src, x)))
    jobs = []
    for pid in ids:
        for k in sorted(os.listdir(os.path.join(src, pid))):
            if os.path.isdir(os.path.join(src, pid, k)):
                jobs.append((pid, k))
    os.makedirs('/tmp/vs', exist_ok=True)
    with ThreadPoolExecutor(8) as ex:
        for pid, k, ok, msg in ex.map(lambda j: verify(src, *j), jobs):
            print(('KEEP ' if ok else 'DROP ') + f'{pid}-{k}: {msg}')


if __name__ == '__main__':
    main()
