"""Run every claimed check against behaviour-preserving refactorings (twins): any finding or ANALYSIS-ERROR is a false alarm.
usage: /venv/bin/python tools/run_twins.py <twins-dir> [name/k ...]"""
import json
import os
import shutil
import subprocess
import sys
import tempfile
from concurrent.futures import ThreadPoolExecutor

PY = '/venv/bin/python'


def claimed():
    ps = [c["property_id"] for c in json.load(open("/verif/MANIFEST.json"))["checks"]]
    only = os.environ.get("TWIN_PROPS")
    return [p for p in ps if not only or p in only.split(",")]


def one(base, rel, props):
    d = os.path.join(base, rel)
    tmp = tempfile.mkdtemp(prefix='twin-', dir='/tmp')
    out = []
    try:
        shutil.copytree('/repo/soupsieve', os.path.join(tmp, 'soupsieve'))
        os.symlink('/repo/docs', os.path.join(tmp, 'docs'))
        r = subprocess.run(['git', 'apply', '--unsafe-paths', f'--directory={tmp}', os.path.join(d, 'patch.diff')],
                           capture_output=True, text=True, cwd='/')
        if r.returncode:
            return rel, [('PATCH', 'does not apply: ' + r.stderr[-150:])]
        for p in props:
            r = subprocess.run([PY, '-m', 'sa.check', p, '--root', tmp, '--no-evidence', '--json'],
                               capture_output=True, text=True, cwd='/verif')
            js = [l for l in r.stdout.splitlines() if l.startswith('JSON ')]
            if r.returncode == 2 or not js:
                out.append((p, 'ANALYSIS-ERROR ' + ' '.join(l for l in r.stdout.splitlines() if 'ANALYSIS-ERROR' in l)[:300]))
            else:
                j = json.loads(js[0][5:])
                for f in j['new']:
                    out.append((p, f"{f['rule']} {f['key'][:70]} :: {f['message'][:160]}"))
        return rel, out
    finally:
        shutil.rmtree(tmp, ignore_errors=True)


def main():
    base = sys.argv[1]
    rels = sys.argv[2:]
    if not rels:
        for n in sorted(os.listdir(base)):
            if os.path.exists(os.path.join(base, n, 'patch.diff')):
                rels.append(n)
                continue
            if not os.path.isdir(os.path.join(base, n)):
                continue
            for k in sorted(os.listdir(os.path.join(base, n))):
                if os.path.exists(os.path.join(base, n, k, 'patch.diff')):
                    rels.append(f'{n}/{k}')
    props = claimed()
    bad = 0
    with ThreadPoolExecutor(int(os.environ.get("TWIN_THREADS", "6"))) as ex:
        for rel, out in ex.map(lambda r: one(base, r, props), rels):
            if out:
                bad += 1
                print(f'FALSE-ALARM {rel}')
                for p, msg in out:
                    print(f'     {p}: {msg}')
            else:
                print(f'silent      {rel}')
    print(f'{bad} of {len(rels)} twins raised an alarm')


if __name__ == '__main__':
    main()
