"""Re-confirm the kept seeded changes against the current /repo HEAD (after fix commits moved it).
usage: /venv/bin/python tools/reverify_seeded.py [ID-k ...]"""
import json
import os
import shutil
import subprocess
import sys
from concurrent.futures import ThreadPoolExecutor

PY = '/venv/bin/python'
SEEDED = '/verif/seeded'


def sh(cmd, cwd=None, timeout=600):
    try:
        r = subprocess.run(cmd, cwd=cwd, shell=True, capture_output=True, text=True, timeout=timeout,
                           env=dict(os.environ, PYTHONDONTWRITEBYTECODE='1'))
        return r.returncode, r.stdout + r.stderr
    except subprocess.TimeoutExpired:
        return 124, 'timeout'


def one(name):
    d = os.path.join(SEEDED, name)
    wt = f'/tmp/vs/{name}'
    sh(f'git -C /repo worktree remove --force {wt}')
    shutil.rmtree(wt, ignore_errors=True)
    os.makedirs('/tmp/vs', exist_ok=True)
    rc, out = sh(f'git -C /repo worktree add -q --detach {wt} HEAD')
    if rc:
        return name, False, out[-200:]
    try:
        rc, out = sh(f'git apply {d}/patch.diff', cwd=wt)
        if rc:
            return name, False, 'patch does not apply: ' + out[-200:]
        rc, out = sh(f'{PY} -m pytest -q -p no:cacheprovider -x', cwd=wt)
        tail = out.strip().splitlines()[-1] if out.strip() else ''
        if rc or '381 passed' not in tail:
            return name, False, 'tests: ' + tail
        rc_m, _ = sh(f'{PY} {d}/demo.py', cwd=wt, timeout=300)
        sh('git checkout -q -- .', cwd=wt)
        rc_c, o = sh(f'{PY} {d}/demo.py', cwd=wt, timeout=300)
        if rc_m == 0:
            return name, False, 'demo passes with the change'
        if rc_c != 0:
            return name, False, 'demo fails on the clean tree: ' + o[-200:]
        mp = os.path.join(d, 'meta.json')
        meta = json.load(open(mp))
        head = sh('git -C /repo rev-parse --short HEAD')[1].strip()
        meta.setdefault('confirmed', {})['reconfirmed_at'] = head
        json.dump(meta, open(mp, 'w'), indent=1)
        return name, True, tail
    finally:
        sh(f'git -C /repo worktree remove --force {wt}')
        shutil.rmtree(wt, ignore_errors=True)


if __name__ == '__main__':
    names = sys.argv[1:] or sorted(os.listdir(SEEDED))
    with ThreadPoolExecutor(8) as ex:
        for name, ok, msg in ex.map(one, names):
            print(('OK   ' if ok else 'FAIL ') + f'{name}: {msg}', flush=True)
