"""Regenerate stored patches (seeded changes and twins) against /repo HEAD so that plain `git apply` accepts them.
A patch that needs a 3-way merge or fuzz is applied that way once, the resulting diff replaces the stored one.
usage: /venv/bin/python tools/refresh_patches.py"""
import os
import subprocess
import sys

VERIF = os.path.dirname(os.path.dirname(os.path.abspath(__file__)))
WT = '/tmp/refresh-wt'


def sh(cmd, cwd=None):
    r = subprocess.run(cmd, shell=True, cwd=cwd, capture_output=True, text=True)
    return r.returncode, r.stdout + r.stderr


sh(f'git -C /repo worktree remove --force {WT}')
rc, out = sh(f'git -C /repo worktree add -q --detach {WT} HEAD')
if rc:
    sys.exit(out)
changed = failed = 0
try:
    for kind in ('seeded', 'twins'):
        base = os.path.join(VERIF, kind)
        for name in sorted(os.listdir(base)):
            p = os.path.join(base, name, 'patch.diff')
            if not os.path.exists(p):
                continue
            sh('git checkout -q -f HEAD -- . ; git reset -q --hard HEAD ; git clean -fdq', cwd=WT)
            rc, _ = sh(f'git apply --check {p}', cwd=WT)
            if rc == 0:
                continue
            rc, out = sh(f'git apply --3way {p}', cwd=WT)
            if rc or '<<<<<<<' in sh('git diff', cwd=WT)[1]:
                rc2, out2 = sh(f'git checkout -q -f HEAD -- . ; git reset -q --hard HEAD ; patch -p1 -F3 < {p}', cwd=WT)
                if rc2:
                    failed += 1
                    print('FAILED', kind, name, out[-200:], out2[-200:])
                    continue
            sh('git reset -q', cwd=WT)
            _, diff = sh('git diff', cwd=WT)
            if diff.strip():
                open(p, 'w').write(diff)
                changed += 1
                print('refreshed', kind, name)
finally:
    sh(f'git -C /repo worktree remove --force {WT}')
print(f'{changed} refreshed, {failed} failed')
