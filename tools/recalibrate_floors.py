"""Rewrite the `floor=` of every rule to a third of the instance count confirmed on /repo's current tree (at least 1).

A floor only has to catch a rule that has gone blind (its anchors matched nothing); it must not fire on a refactoring
that moves or merges a few instances.  Usage: /venv/bin/python tools/recalibrate_floors.py [--dry]
"""
import json
import os
import re
import subprocess
import sys
from concurrent.futures import ThreadPoolExecutor

VERIF = os.path.dirname(os.path.dirname(os.path.abspath(__file__)))
dry = '--dry' in sys.argv


def counts(pid):
    r = subprocess.run([sys.executable, '-m', 'sa.check', pid, '--no-evidence', '--json'], capture_output=True, text=True,
                       cwd=VERIF, env=dict(os.environ, SA_NOFLOOR='1'))
    js = [l for l in r.stdout.splitlines() if l.startswith('JSON ')]
    if not js:
        raise SystemExit(f'{pid}: no JSON line\n{r.stdout[-400:]}')
    return json.loads(js[0][5:])['rules']


# census rules whose instance count is a number of call sites that a helper function can legitimately collapse
FIXED = {'C06-R3': 2, 'C16-R3': 3, 'C19-R4': 1, 'C09-R4': 8, 'C08-R3': 1, 'C06-R2': 2, 'C06-R1': 3}
pids = [f'C{i:02d}' for i in range(1, 21)]
with ThreadPoolExecutor(8) as ex:
    allc = dict(zip(pids, ex.map(counts, pids)))
for pid in pids:
    p = os.path.join(VERIF, 'sa', 'props', pid.lower() + '.py')
    s = open(p).read()
    for rid, n in allc[pid].items():
        # small census rules (a few dozen sites) lose a large share of their sites to one helper extraction: a sixth is enough there
        new = FIXED.get(rid, max(1, n // 4) if n >= 40 else max(1, n // 6))
        pat = re.compile(r"(report\.rule\(\s*'" + re.escape(rid) + r"'.*?floor=)(\d+)", re.S)
        m = pat.search(s)
        if not m:
            print(f'{rid}: no floor= found (count {n})')
            continue
        if int(m.group(2)) != new:
            print(f'{rid}: floor {m.group(2)} -> {new} (count {n})')
            s = s[:m.start(2)] + str(new) + s[m.end(2):]
    if not dry:
        open(p, 'w').write(s)
