"""E6: static types from mypy used as a library (facts for the rules, never a verdict by themselves)."""
from __future__ import annotations

import ast
import os
import sys

from .core import AnalysisError

SKIP = {'node', 'info', 'defn', 'type', 'unanalyzed_type', 'analyzed', 'impl', 'original_def', 'var', 'func_def',
        'type_annotation', 'unanalyzed_items', 'fullname', 'name'}


class TypeFacts:
    def __init__(self, root: str):
        try:
            from mypy import build, nodes, types as mt
            from mypy.find_sources import create_source_list
            from mypy.options import Options
        except ImportError as e:  # pragma: no cover
            raise AnalysisError(f'mypy is not importable in this interpreter: {e}')
        self.nodes = nodes
        self.mt = mt
        cwd = os.getcwd()
        os.chdir(root)
        try:
            opts = Options()
            opts.preserve_asts = True
            opts.export_types = True
            opts.incremental = False
            opts.cache_dir = os.devnull
            opts.follow_imports = 'normal'
            srcs = create_source_list(['soupsieve'], opts)
            old_out, old_err = sys.stdout, sys.stderr
            try:
                res = build.build(srcs, opts)
            finally:
                sys.stdout, sys.stderr = old_out, old_err
        finally:
            os.chdir(cwd)
        self.res = res
        self.errors = list(res.errors)
        self.types = res.types
        self.index: dict[str, dict[tuple, object]] = {}
        self.mnodes: dict[str, list] = {}
        for full, st in res.graph.items():
            if not (full == 'soupsieve' or full.startswith('soupsieve.')):
                continue
            short = '__init__' if full == 'soupsieve' else full.split('.', 1)[1]
            out: list = []
            seen: set[int] = set()
            for d in st.tree.defs:
                self._walk(d, seen, out)
            self.mnodes[short] = out
            idx = {}
            for n in out:
                if isinstance(n, nodes.Expression):
                    t = self.types.get(n)
                    if t is None:
                        continue
                    key = (n.line, n.column, getattr(n, 'end_line', None), getattr(n, 'end_column', None))
                    idx.setdefault(key, t)
            self.index[short] = idx
        if 'css_match' not in self.index:
            raise AnalysisError('mypy did not analyse soupsieve.css_match')

    def _kids(self, t):
        ma = getattr(t, '__match_args__', None)
        return ma if isinstance(ma, tuple) else [x for x in dir(t) if not x.startswith('_')]

    def _walk(self, n, seen, out):
        stack = [n]
        nodes = self.nodes
        while stack:
            n = stack.pop()
            if id(n) in seen:
                continue
            seen.add(id(n))
            out.append(n)
            for name in self._kids(type(n)):
                if name in SKIP:
                    continue
                try:
                    v = getattr(n, name)
                except Exception:  # noqa: BLE001
                    continue
                st = [v]
                while st:
                    x = st.pop()
                    if isinstance(x, nodes.Node):
                        stack.append(x)
                    elif isinstance(x, (list, tuple)):
                        st.extend(x)

    # ---- queries ----------------------------------------------------------------------------------
    def type_of(self, module: str, node: ast.AST):
        """mypy type of an `ast` expression node (matched by source span), or None."""
        idx = self.index.get(module, {})
        key = (node.lineno, node.col_offset, getattr(node, 'end_lineno', None), getattr(node, 'end_col_offset', None))
        return idx.get(key)

    def proper(self, t):
        return self.mt.get_proper_type(t) if t is not None else None

    def items(self, t):
        """Flatten unions into proper member types."""
        t = self.proper(t)
        if t is None:
            return []
        if isinstance(t, self.mt.UnionType):
            out = []
            for i in t.items:
                out.extend(self.items(i))
            return out
        return [t]

    def may_be_none(self, t) -> bool:
        return any(isinstance(i, self.mt.NoneType) for i in self.items(t))

    def is_any(self, t) -> bool:
        return any(isinstance(i, self.mt.AnyType) for i in self.items(t))

    def instance_names(self, t) -> list[str]:
        out = []
        for i in self.items(t):
            if isinstance(i, self.mt.Instance):
                out.append(i.type.fullname)
            elif isinstance(i, self.mt.NoneType):
                out.append('None')
            elif isinstance(i, self.mt.AnyType):
                out.append('Any')
            elif isinstance(i, self.mt.TupleType):
                out.append('tuple')
            elif isinstance(i, self.mt.CallableType):
                out.append('callable')
            else:
                out.append(type(i).__name__)
        return out

    def mro_names(self, t) -> set[str]:
        out = set()
        for i in self.items(t):
            if isinstance(i, self.mt.Instance):
                out.update(b.fullname for b in i.type.mro)
        return out

    def is_bs4(self, t) -> bool:
        return any(n.startswith('bs4.') for n in self.mro_names(t))

    def is_pattern(self, t) -> bool:
        return 're.Pattern' in self.mro_names(t)

    def show(self, t) -> str:
        return str(t) if t is not None else '?'
