"""A small backtracking matcher over `re._parser` trees (leftmost, first-alternative-first, greedy/lazy repeats - the
semantics of sre) for the analyser's own use.

The checks never hand a soupsieve pattern to CPython's `re`.  Where a decision table has to follow a function that applies one
of the package's regexes to a short abstract string (the wildcard normalisation of :lang() ranges, the line splitter of the error
context), the application is answered by this module, which reads the same parse tree the automata of `sa.rx` are built from.
Supported: literals, classes, `.`, branches, groups (capturing / non-capturing, named), greedy and lazy repeats, `^ $ \\A \\Z`,
look-ahead, fixed-width look-behind, IGNORECASE (ASCII), DOTALL.  Anything else raises `Unsupported`.
"""
from __future__ import annotations

import re
import re._constants as sc
import re._parser as sp


class Unsupported(Exception):
    pass


class BudgetExceeded(Unsupported):
    """One application of a regex needed more steps than BUDGET."""


STEPS = [0]          # matcher steps since the counter was last reset (all patterns)
BUDGET = [200000]    # steps allowed for one application of one pattern


class Match:
    def __init__(self, string, pos, end, groups, groupdict, ngroups=None):
        self.string = string
        self._ngroups = ngroups
        self.lastindex = groups.get('last') if isinstance(groups, dict) else None
        self.lastgroup = next((k for k, v in groupdict.items() if v == self.lastindex), None) if self.lastindex else None
        self.pos, self.endpos = 0, len(string)
        groups = {k: v for k, v in groups.items() if k != 'last'} if isinstance(groups, dict) else groups
        self._span = (pos, end)
        self._groups = groups          # index -> (start, end) | None
        self._groupdict = groupdict    # name -> index

    def _idx(self, g):
        if isinstance(g, str):
            if g not in self._groupdict:
                raise IndexError('no such group')
            return self._groupdict[g]
        return g

    def span(self, g=0):
        g = self._idx(g)
        if g == 0:
            return self._span
        s = self._groups.get(g)
        return s if s is not None else (-1, -1)

    def start(self, g=0):
        return self.span(g)[0]

    def end(self, g=0):
        return self.span(g)[1]

    def group(self, *gs):
        def one(g):
            a, b = self.span(g)
            return None if a < 0 else self.string[a:b]
        if not gs:
            gs = (0,)
        return one(gs[0]) if len(gs) == 1 else tuple(one(g) for g in gs)

    def groups(self, default=None):
        n = self._ngroups if self._ngroups is not None else max(list(self._groups) + list(self._groupdict.values()) + [0])
        return tuple(self.group(i) if self.group(i) is not None else default for i in range(1, n + 1))

    def groupdict(self, default=None):
        return {k: (self.group(v) if self.group(v) is not None else default) for k, v in self._groupdict.items()}

    def __bool__(self):
        return True

    def __repr__(self):
        return f'<Match span={self._span} match={self.group(0)!r}>'


def _fold(c):
    return c.lower() if 'A' <= c <= 'Z' else c


class Pattern:
    def __init__(self, pattern: str, flags: int = 0):
        self.pattern = pattern
        self.tree = sp.parse(pattern, flags)
        self.flags = self.tree.state.flags
        self.groupdict = dict(self.tree.state.groupdict)
        self.ngroups = self.tree.state.groups - 1
        if self.flags & re.M:
            raise Unsupported('MULTILINE')
        self.budget = 0

    # ---- single items ------------------------------------------------------------------------------------------------
    def _in(self, items, ch, flags):
        neg = False
        hit = False
        cands = [ch]
        if flags & re.I:
            cands = list({ch, ch.lower(), ch.upper()})
        for op, av in items:
            if op is sc.NEGATE:
                neg = True
            elif op is sc.LITERAL:
                hit = hit or any(ord(c) == av for c in cands)
            elif op is sc.RANGE:
                hit = hit or any(av[0] <= ord(c) <= av[1] for c in cands)
            elif op is sc.CATEGORY:
                hit = hit or self._cat(av, ch)
            else:
                raise Unsupported(f'class item {op}')
        return hit != neg

    @staticmethod
    def _cat(cat, ch):
        if cat is sc.CATEGORY_DIGIT:
            return ch.isdigit()
        if cat is sc.CATEGORY_NOT_DIGIT:
            return not ch.isdigit()
        if cat is sc.CATEGORY_SPACE:
            return ch.isspace()
        if cat is sc.CATEGORY_NOT_SPACE:
            return not ch.isspace()
        if cat is sc.CATEGORY_WORD:
            return ch.isalnum() or ch == '_'
        if cat is sc.CATEGORY_NOT_WORD:
            return not (ch.isalnum() or ch == '_')
        raise Unsupported(f'category {cat}')

    # ---- matcher: continuation passing; k(pos, groups) -> result | None ---------------------------------------------------
    def _m(self, seq, i, s, pos, groups, flags, k):
        self.budget += 1
        STEPS[0] += 1
        if self.budget > BUDGET[0]:
            raise BudgetExceeded('match budget exceeded')
        if i == len(seq):
            return k(pos, groups)
        op, av = seq[i]

        def nxt(p, g):
            return self._m(seq, i + 1, s, p, g, flags, k)
        if op is sc.LITERAL:
            if pos < len(s) and (ord(s[pos]) == av or (flags & re.I and _fold(s[pos]) == _fold(chr(av)))):
                return nxt(pos + 1, groups)
            return None
        if op is sc.NOT_LITERAL:
            if pos < len(s) and not (ord(s[pos]) == av or (flags & re.I and _fold(s[pos]) == _fold(chr(av)))):
                return nxt(pos + 1, groups)
            return None
        if op is sc.ANY:
            if pos < len(s) and (flags & re.S or s[pos] != '\n'):
                return nxt(pos + 1, groups)
            return None
        if op is sc.IN:
            if pos < len(s) and self._in(av, s[pos], flags):
                return nxt(pos + 1, groups)
            return None
        if op is sc.BRANCH:
            for alt in av[1]:
                r = self._m(list(alt), 0, s, pos, groups, flags, nxt)
                if r is not None:
                    return r
            return None
        if op is sc.SUBPATTERN:
            gid, add, dele, sub = av
            fl = (flags | add) & ~dele

            def close(p, g, _gid=gid, _start=pos):
                if _gid is not None:
                    g = dict(g)
                    g[_gid] = (_start, p)
                    g['last'] = _gid           # sre's lastindex: the group whose closing parenthesis was passed last
                return nxt(p, g)
            return self._m(list(sub), 0, s, pos, groups, fl, close)
        if op in (sc.MAX_REPEAT, sc.MIN_REPEAT):
            lo, hi, sub = av
            sub = list(sub)
            greedy = op is sc.MAX_REPEAT

            def rep(count, p, g):
                def more():
                    if hi is not sc.MAXREPEAT and count >= hi:
                        return None

                    def after(p2, g2):
                        if p2 == p and count >= lo:
                            return None         # an empty iteration makes no progress
                        return rep(count + 1, p2, g2)
                    return self._m(sub, 0, s, p, g, flags, after)
                if count < lo:
                    return more()
                if greedy:
                    r = more()
                    return r if r is not None else nxt(p, g)
                r = nxt(p, g)
                return r if r is not None else more()
            return rep(0, pos, groups)
        if op is sc.AT:
            if av in (sc.AT_BEGINNING, sc.AT_BEGINNING_STRING):
                return nxt(pos, groups) if pos == 0 else None
            if av is sc.AT_END:
                ok = pos == len(s) or (pos == len(s) - 1 and s[pos] == '\n')
                return nxt(pos, groups) if ok else None
            if av is sc.AT_END_STRING:
                return nxt(pos, groups) if pos == len(s) else None
            raise Unsupported(f'anchor {av}')
        if op in (sc.ASSERT, sc.ASSERT_NOT):
            direction, sub = av
            sub = list(sub)
            if direction > 0:
                r = self._m(sub, 0, s, pos, groups, flags, lambda p, g: (p, g))
            else:
                lo, hi = sp.SubPattern(self.tree.state, sub).getwidth()
                if lo != hi:
                    raise Unsupported('variable-width look-behind')
                r = None
                if pos - lo >= 0:
                    r = self._m(sub, 0, s, pos - lo, groups, flags, lambda p, g: (p, g) if p == pos else None)
            if (r is not None) == (op is sc.ASSERT):
                return nxt(pos, r[1] if (r is not None and op is sc.ASSERT) else groups)
            return None
        if op is sc.GROUPREF:
            sp_ = groups.get(av)
            if sp_ is None:
                return None
            txt = s[sp_[0]:sp_[1]]
            if s.startswith(txt, pos):
                return nxt(pos + len(txt), groups)
            return None
        raise Unsupported(f'regex construct {op}')

    # ---- API -----------------------------------------------------------------------------------------------------------------
    def _at(self, s, pos, full=False, nonempty=False):
        self.budget = 0
        r = self._m(list(self.tree), 0, s, pos, {}, self.flags,
                    lambda p, g: (p, g) if ((not full or p == len(s)) and (not nonempty or p > pos)) else None)
        if r is None:
            return None
        return Match(s, pos, r[0], r[1], self.groupdict, self.ngroups)

    def match(self, s, pos=0, *a):
        return self._at(s, pos)

    def fullmatch(self, s, pos=0, *a):
        return self._at(s, pos, True)

    def search(self, s, pos=0, *a):
        for p in range(pos, len(s) + 1):
            m = self._at(s, p)
            if m is not None:
                return m
        return None

    def finditer(self, s, pos=0, *a):
        """As CPython >= 3.7: the search resumes where the last match ended; directly after an empty match the next match at
        that position must be non-empty."""
        out = []
        start, must_advance = pos, False
        while start <= len(s):
            m = None
            for p in range(start, len(s) + 1):
                m = self._at(s, p, nonempty=(must_advance and p == start))
                if m is not None:
                    break
            if m is None:
                break
            out.append(m)
            must_advance = m.end() == m.start()
            start = m.end()
        return out

    def findall(self, s, pos=0, *a):
        """As re: the list of group 0 (no group), the one group, or tuples of groups, of every match."""
        out = []
        for m in self.finditer(s, pos):
            if self.ngroups == 0:
                out.append(m.group(0))
            elif self.ngroups == 1:
                out.append(m.group(1) or '')
            else:
                out.append(tuple(g or '' for g in m.groups()))
        return out

    def split(self, s, maxsplit=0):
        if self.ngroups:
            raise Unsupported('split with groups')
        out, last, n = [], 0, 0
        for m in self.finditer(s):
            if m.end() == m.start() and (m.start() == 0 or m.start() == len(s)) and False:
                continue
            out.append(s[last:m.start()])
            last = m.end()
            n += 1
            if maxsplit and n >= maxsplit:
                break
        out.append(s[last:])
        return out

    def sub(self, repl, s, count=0):
        out = []
        last = 0
        n = 0
        for m in self.finditer(s):
            if m.start() < last:
                continue
            out.append(s[last:m.start()])
            out.append(repl(m) if callable(repl) else repl)
            last = m.end()
            n += 1
            if count and n >= count:
                break
        out.append(s[last:])
        return ''.join(out)
