"""Claims per property (imported by sa.registry). Each claim names the decided clauses only."""
from .claimapi import claim, decline  # noqa: F401

claim(
    'C07',
    'Decided (sufficient under the backtracking model of sre): every regular expression of the package - 59 '
    'compiled patterns and pattern templates folded from the sources, in every flags variant - is free of '
    'exponential ambiguity (automata-theoretic EDA criterion with exact look-ahead/look-behind handling), every '
    'token pattern consumes at least one character and the tokenizer loop advances on every path, no regex '
    'application escapes the inventory, and custom-selector expansion is memoised. This quantifies over ALL input '
    'strings, which no test or timing sample can. Not decided: wall-clock constants and the polynomial degree.',
    'Static only: the regex sources are parsed with re._parser, never compiled or run.',
    'regex ambiguity analysis (EDA via pair-graph SCC over look-ahead-exact eps-NFA) + scanner-loop path rule',
)
