"""Claims per property (imported by sa.registry). Each claim names the decided clauses only.

Vocabulary used below:
  "decision table"  = the function is interpreted from its AST (sa.interp: a partial evaluator, nothing of soupsieve is
                      imported or run by CPython) on every case of a finite abstract input domain, collaborators replaced by
                      recording stand-ins, and the resulting table is compared with the table the property prescribes;
  "bounded table"   = the same on a finite family of small abstract bs4 trees / index ranges chosen to exercise every branch:
                      a failing row is a genuine counterexample, a clean table is NOT a proof for all sizes;
  "language query"  = inclusion / equivalence / ambiguity decided on automata built from the regex sources (re._parser).
"""
from .claimapi import claim, decline  # noqa: F401

PE = 'partial evaluation of the AST over finite abstract inputs (decision tables)'

claim(
    'C01',
    'Decided (necessary conditions): (R1) no value obtained from get_parent() reaches match_selectors without a dominating '
    '"not is_doc" test; (R2/R6) every pattern parse_attribute_selector compiles - per operator x case flag x attribute kind x value '
    'spelling (quoted, unquoted, hex-escaped, a string that is empty only after decoding) - is, with re.match semantics, language-equal '
    'to the operator definition, and ^= $= *= ~= with an empty operand have the empty language; (R3) token names = dispatch keys, '
    'every regex group a handler reads exists, every simple pseudo-class name binds the definition / flag / An+B record it names; '
    '(R4) the rel_type strings the parser stores = the REL_* constants the matcher branches on; (R5) decision tables of '
    'match_selectors and its helpers: every IR field and flag is consulted, conjunctively, lists are disjunctions, :not negates, '
    'SelectorNull is skipped; same-type-for-of-type, :root (document shapes with text / CDATA / comments around the root) and '
    ':scope / :root identity among look-alike elements; (R7) a comma resets all per-alternative parser state and every simple '
    'selector alone counts as a selector; (R8) class splitting and :empty use exactly the CSS white-space set. Not decided: '
    'soundness/completeness of the combinator walks over all trees x selectors.',
    '',
    'taint/dominance rule + table agreement + regex language equality + ' + PE,
)

claim(
    'C02',
    'Decided: (R1) the interval beliefs about the candidate index in match_nth agree, and a bounded table of match_nth itself '
    '(|a| <= 3, |b| <= 4, constant indices, from the end, of-type, "of S", three sibling lists of mixed node kinds: 1968 cases) equals '
    'the definition of An+B; (R2) the token grammar NTH, the splitter RE_NTH and the nth token groups are language-equivalent (full '
    'match, comments included); (R3) every An+B spelling class, even/odd and the six keyword pseudo-classes build exactly the record '
    'they denote; (R4) the same-type predicate is name (document-normalised) AND namespace, every SelectorNth field is read, the '
    'siblings counted are the children of the real parent (no iframe restriction), the implicit "of S" is *|*, and get_children / '
    'get_tag_children enumerate from `start` in the requested direction. Not decided: the index arithmetic for all integers and '
    'sibling counts (the bounded table exercises every branch but is not a proof).',
    'The bounded table is labelled as such in the evidence.',
    'AST consistency rule over linear bound forms + regex language equivalence + ' + PE + ' + bounded tables on abstract trees',
)

claim(
    'C03',
    'Decided: (R1, exact) each of the six module-level wrappers passes pattern, namespaces, flags, custom and **kwargs to compile() '
    'in the right slot - also when the pattern argument is an already compiled selector - and returns the same-named method applied '
    'to the call target (+ limit); (R2) every verdict of CSSMatch.select/closest/filter is CSSMatch.match, select = list(iselect), '
    'select_one = select(limit=1); CSSMatch.select(limit) yields the first `limit` matches in document order for every match vector '
    'over four candidates (all of them for limit < 1); get_descendants equals the document-order definition on eight abstract trees '
    '(iframes in every position, several top-level nodes) for every start node, tags and no_iframe; (R3) CSSMatch.match cannot be '
    'true for the document object or a non-Tag, the target is validated with TypeError, :scope/:root designate one node by identity; '
    '(R4) decision table of the SoupSieve methods with a recording matcher: one fresh matcher per call target and per item of an '
    'iterable, scoped on it, limit forwarded; closest() walks every ancestor, across iframe elements. Not decided: document order / '
    'absence of duplicates on arbitrary trees.',
    '',
    PE + ' with recording stand-ins + three-valued path evaluation of guard necessity + bounded tables on abstract trees',
)

claim(
    'C04',
    'Decided: (R1, sufficient under the trusted base that bs4 read accessors are pure) every expression whose mypy type is a bs4 page '
    'element is only ever read (no store/del/augmented assignment through it, no method outside a list of read accessors, no escape '
    'into a foreign callable), and no matcher function stores into / calls a mutator on one of its parameters or an alias of one '
    '(attribute value lists are typed Any); (R2) decision table of the SoupSieve methods: a fresh matcher per call target and per '
    'item, never shared or stored; nothing reachable from the matching API rebinds globals; (R3) the memo tables are fresh per-matcher '
    'lists keyed by identity, appended only under the key the lookup compares; with ONE matcher, the language found (content-language '
    'memo, two documents) and the default button found (three forms, two with identical markup, six visiting orders) equal what a '
    'fresh matcher finds; (R4) match_selectors restores the prefix map and the iframe restriction on every path (64-case table) and '
    'the save/restore path rule holds. Not decided: equality of answers across two runs on arbitrary trees.',
    '',
    'effect analysis over mypy types + argument-mutation rule + ' + PE + ' + save/restore path rule',
)

claim(
    'C05',
    'Decided (necessary conditions): (R1) the facts frozen into a SelectorList may be defined from the list\'s own parse flags only - '
    'the two places where an alternative (:dir(), :defined) turns its whole enclosing list HTML-only are genuine defects recorded as '
    'known findings; (R2) the alternative loop is an OR of ANDs xor is_not; (R3) 64-case table of match_selectors over (HTML-only '
    'list, HTML document, negated, element in the HTML namespace, compound passes, iframe restriction before): the gate depends on '
    'list and document only, the checks see the right context, the context is restored; the lang and default-button memos are '
    'transparent within one matcher; (R4) :not/:has/:is/:where/:matches are parsed with exactly NOT / RELATIVE / FORGIVE / FORGIVE / '
    'no flag on top of PSEUDO|OPEN, the nested list is appended once and its HTML-only marker does not spread to the enclosing list; '
    '(R5) a comma resets every piece of per-alternative parser state, the implied universal selector is added exactly to top-level '
    'compounds, and each of twelve simple selectors alone is a selector. Not decided: the laws as set equalities over all documents.',
    '',
    'flag-scope rule + loop-shape rule + ' + PE,
)

claim(
    'C06',
    'Decided (sufficient modulo the catalogue of partial operations and the trusted base): over the functions reachable from compile() '
    'in the type-resolved call graph, every explicit raise that can propagate to compile() (factory-built exceptions resolved through '
    'mypy types) is SelectorSyntaxError, NotImplementedError, or a documented exception; every int/float/chr/datetime/decode/next/'
    're.compile/str.format/constant-table-subscript site and every possibly-unbound local is discharged by a handler, by inclusion of '
    'the feeding regex group in the conversion\'s domain (incl. the 4300-digit limit), by an interval argument, by a membership guard, '
    'or by the escaping discipline of pattern templates; custom-selector recursion is cut and every CSSParser(...) construction '
    'receives a value whose static type is str only; the arguments of the memoised compiler are hashable for every combination of '
    'None / empty / non-empty maps. Not decided: exceptions from operations outside the catalogue, recursion depth, '
    'warnings-as-errors.',
    '',
    'exception-escape analysis over a type-resolved call graph with language/interval discharges + ' + PE,
)

claim(
    'C07',
    'Decided (sufficient under the backtracking model of sre): every regular expression of the package - compiled patterns and '
    'pattern templates folded from the sources, in every flags variant - is free of exponential ambiguity (EDA criterion with exact '
    'look-ahead/look-behind handling); every token pattern consumes at least one character; the tokenizer attempts matches at '
    'strictly increasing positions whatever token kind matches (interpreted with abstract matchers) and the structural path rule '
    'agrees; no regex application escapes the inventory; custom-selector expansion is memoised; freezing a combinator chain costs '
    'polynomially many evaluation steps in its length (measured on chains of 4..16 compounds). Not decided: wall-clock constants, '
    'the polynomial degree, algorithmic cost outside the regexes, the token loop and freeze().',
    'Static only: the regex sources are parsed with re._parser, never compiled or run.',
    'regex ambiguity analysis (EDA via pair-graph SCC over look-ahead-exact eps-NFA) + scanner progress by ' + PE,
)

claim(
    'C08',
    'Decided (sufficient modulo the catalogue and the trusted base): over the functions reachable from the six matching entry points '
    'the only explicit raise that can escape is the documented TypeError of assert_valid_input; every partial operation is discharged; '
    'every util.lower() call receives a value whose type excludes None; values from get_parent() are not dereferenced while possibly '
    'None; every ancestor/sibling walk advances on every path back to its head; (R6) every attribute value handed to a comparison is '
    'the normalised one; (R7) the decision tables of match_lang, match_dir, match_root, get_descendants, get_children run without '
    'raising on abstract trees whose elements carry list-valued (multi-valued) attributes, with util.lower modelled as str-only. '
    'Not decided: termination of the arithmetic loops of match_nth; exceptions from operations outside the catalogue.',
    '',
    'exception-escape analysis + nullable-argument type rule + walk-progress path rule + ' + PE,
)

claim(
    'C09',
    'Decided (necessary conditions): (R1) the alternatives of the combinator token are mutually exclusive (exact look-ahead); (R2) '
    'every unanchored regex search over raw selector text stays inside white space, and one token surrounded by any CSS white-space '
    'character or comment tokenises to that token alone; (R3) on every def-use path from a match group to the IR css_unescape is '
    'applied exactly once, quotes / prefixes are removed by position before the decode, nothing content-dependent (strip, replace) '
    'touches the text; (R4) every comparison of matched text with a letter-bearing constant or key sees text lower-cased after its '
    'last decode (also through helper parameters); (R5) the :lang()/:-soup-contains() grammars agree, their value lists are tiled by '
    'RE_VALUES, NTH and its splitter RE_NTH are the same language; (R6) NEWLINE, WS, COMMENTS, CSS_ESCAPES, IDENTIFIER, VALUE and the '
    'two escape decoders equal their CSS Syntax 3 definitions, group by group with the prefix-match semantics of .sub(). Not decided: '
    'equality of compiled structures for all respellings at all positions.',
    'Reference grammars are transcribed from CSS Syntax 3 in the rule pack.',
    'regex language queries + string-provenance dataflow over the handlers + ' + PE,
)

claim(
    'C10',
    'Decided for every non-empty Unicode string (sufficient under the automata model): escape() is a per-character transducer whose '
    'table (position class x code-point interval -> output template) is obtained twice - symbolically from its if/elif chain, and by '
    'interpreting it on representatives of every interval delimited by the integer constants of the module plus every code point below '
    'U+0100 - and both agree; the regular image language is included in IDENTIFIER; every template class decodes back to its '
    'character against the decoder\'s own tables; escape() performs only total operations and escape("") is ""; the pattern text is '
    'handed from compile() through the cache and CSSParser to the tokenizer unmodified (NUL -> U+FFFD only), with and without DEBUG; '
    'an escaped identifier reaches the IR through one decode and position-based unquoting only. Not decided: that the selected '
    'elements are those carrying that id/class/attribute (C01).',
    'A shape the symbolic extractor does not know falls back to the interpreted table; if neither applies: ANALYSIS-ERROR.',
    'symbolic transducer extraction cross-checked by ' + PE + ' + regular-language inclusion',
)

claim(
    'C11',
    'Decided: (R1) decision tables of match_tagname/get_tag, match_attribute_name and get_attribute_by_name over document kind (HTML, '
    'XML, XHTML) x selector spelling x document spelling x prefix forms equal the case rules; (R2) for every operator x case flag x '
    'attribute kind the compiled flags are IGNORECASE exactly for the i flag or an unflagged type attribute, DOTALL always, with a '
    'case-sensitive twin exactly for an unflagged type attribute, which the matcher selects iff the document is XML; (R3) an HTML-only '
    'list is evaluated iff the document is HTML and each pseudo-class the documentation marks HTML-only is bound to a definition '
    'compiled with FLG_HTML or sets the marker; (R4) util.lower maps exactly A-Z. Not decided: document-type detection from a tree.',
    '',
    PE + ' + reachability on the path walker',
)

claim(
    'C12',
    'Decided: (R1) the decision table of match_attribute_name for [a], [|a], [*|a], [p|a], [q|a] over elements with up to two '
    'attributes of seven kinds in HTML-with-namespaces, XML and XHTML equals the property\'s table, and the value returned is the '
    'normalised one; (R3) likewise match_tag / match_namespace for E, |E, *|E, p|E, q|E and the universal selector x default entry x '
    'four element namespaces; (R2) Tag.prefix is read only for :defined; (R4) the implied universal selector is added exactly to '
    'top-level compounds; (R5) the prefix map is an immutable copy; (R6) the caller\'s prefix map is in force for every list except '
    'inside HTML-only definitions and is restored on every path. The functions touch their inputs only through ==, is None, '
    'truthiness and dict lookup, so the abstract cases are exhaustive for R3 and exhaustive up to two attributes for R1. Not decided: '
    'whole-document behaviour (C01).',
    '',
    PE + ' + attribute-access census over mypy types',
)

claim(
    'C13',
    'Decided: (R1) the variable the ancestor walk fills has a None sentinel and is never tested by truthiness; (R2) the <meta> memo '
    'is transparent within one matcher across two documents; (R3) every tree walk of match_lang passes no_iframe = "the document is '
    'HTML"; (R4) the :lang() value list is tiled by RE_VALUES and decoded once; (R5) lang vs xml:lang is chosen per ancestor; (R6) '
    'decision tables: the language found for an element (nearest lang attribute incl. the empty one, else the first meta carrying '
    'both http-equiv=content-language and a non-empty content, in any attribute order and letter case, with list-valued attributes '
    'around) and the logic of a compound (every :lang() must match, each through at least one range); (R7, bounded) '
    'extended_language_filter - its wildcard normalisation regex followed with the analyser\'s own matcher over the regex source - '
    'agrees with RFC 4647 extended filtering on all 7743 (range, tag) pairs over ranges of up to three and tags of up to three '
    '(thorough: four) subtags from small alphabets incl. wildcards, singletons, the empty range / tag and case variants. Not '
    'decided: the filter on subtag sequences of arbitrary length.',
    'The trailing "-*" defect named in the property text was found by R7 and repaired (08e3efc).',
    'sentinel-consistency rule over mypy types + ' + PE + ' + string provenance + bounded table with a regex matcher over re._parser trees',
)

claim(
    'C14',
    'Decided by a confinement analysis (sufficient under the trusted base that functools.lru_cache and compiled re.Pattern objects '
    'are thread-safe): objects retained by module- or class-level bindings are never written by any method other than __init__; no '
    'function rebinds a global, stores into or calls a mutator on a module-/class-level object (also when reached through self.<attr> '
    'for a container created in the class body), or has a mutable default; parser and matcher objects are constructed per call and '
    'never published; every memoised function returns an immutable value and reads no variable module state. This covers all '
    'schedules at once because it shows the absence of shared writes.',
    'Immutability of the css_types value classes is C15.',
    'shared-state confinement / escape analysis over the AST and class hierarchy',
)

claim(
    'C15',
    'Decided: (R1) the mutation surface is closed (__setattr__/__delattr__ raise, no overrides, maps copy their input); (R2) for each '
    'value class an object built through the real constructor holds every argument in the same-named slot, the pickle/copy reducer '
    'rebuilds an equal object with an equal hash, changing any single field makes objects unequal, strangers compare unequal, every '
    'class is registered; (R3) contents are frozen; the map hash is the same for every order of the entries, for pairs and dict, for '
    'pairs with repeated keys and the equal dict, and differs for unequal maps; (R4) compile() hands exactly its four inputs to the '
    'bounded lru_cache for every combination of None / empty / non-empty maps and flags, compile(compiled, extra) raises ValueError, '
    'purge clears the cache, and the compiled object keeps the pattern text it was given. Not decided: LRU contents over call '
    'histories.',
    '',
    'AST table-agreement rules + ' + PE + ' (constructors, equality, reducer, map hash with injective stand-ins for hash/type)',
)

claim(
    'C16',
    'Decided (sufficient for the stated failure mode, under the premise read from the installed bs4 sources): no import-time code of '
    'the package - module/class level statements, base lists, decorators, defaults, annotations evaluated at import, and every '
    'function reachable from them - evaluates a bs4 name that is not yet bound at that moment; module-level imports inside the '
    'package are acyclic; the same code reaches no print/warn/warnings-filter or other process-wide effect outside a debug guard; '
    'every name in __all__ is bound. Not decided: equality of select() results between import orders.',
    'The safe-name sets are recomputed from the installed bs4 on every run.',
    'import-time reachability over a type-resolved call graph + bs4 import-chain analysis',
)

claim(
    'C17',
    'Decided: (R1) the partition laws hold by construction of the definitions (paired definitions share their control lists, '
    'complements are :not of the other, :link and :any-link have one effect, :checked heads :default); (R2) every walk of the state '
    'matchers respects the iframe boundary and none anchors on the global root, get_descendants equals its definition on eight '
    'abstract trees; (R3) the memo tables are identity-keyed and the default button of each form is found correctly whatever was '
    'asked before (three forms, two identical, six orders); (R4) 896-case table of match_range over all orders/None-ness of (min, max, '
    'value) x type x query; (R5) on a finite universe of abstract form trees the definitions agree with predicates transcribed from '
    'the HTML Standard; (R6) 450-case table of match_dir/find_bidi (element kind x dir x text x parent direction) and the content '
    'rule of :placeholder-shown equal the HTML Standard. Not decided: each pseudo-class on all documents (form owner attribute, radio '
    'groups across arbitrary trees).',
    '',
    'definition-agreement rules over the selector constants + effect rules + ' + PE + ' + independent selector evaluator',
)

claim(
    'C18',
    'Decided: (R1) each value-shape regex accepts only valid HTML date/month/week/time/local-date-time/number strings and all of them '
    'within the implemented subset (the gap - seconds, space separator - is a recorded known finding); (R2) bounds and month lengths '
    'agree with the proleptic Gregorian calendar on every month x (year mod 400); (R3) calendar calls only receive years proven inside '
    '1..9999; (R4) the range-typed input list agrees between definition, parser and comparison; (R5) match_range is correct for every '
    'relative order and None-ness of (min, max, value) per type incl. wrapped time ranges; (R6) every string a shape regex accepts '
    'lies inside the domain of the int()/float() it is handed to (so no accepted value is lost in a swallowed ValueError); (R7) all '
    'parsed values of one type have one arity, whichever optional groups took part. Not decided: numeric conversion results; ISO week counts only for the years R9 '
    'enumerates (bounded).',
    '',
    'regex language inclusion vs HTML grammars + finite-domain abstract evaluation + ' + PE,
)

claim(
    'C19',
    'Decided: (R1) is_special_string covers every PreformattedString subclass of the installed bs4 and no plain-text subclass, '
    'content = navigable AND NOT special; (R2) every text reader consults the classification; get_text / get_own_text over [text, '
    'comment, tag, text, CDATA, text] return the content strings only, joined vs per node, from descendants vs children, flag '
    'forwarded, without touching bs4\'s own text API; get_descendants equals its definition on eight abstract trees; (R3) decision '
    'table of match_contains (any-of within a list, conjunction of several pseudo-classes, joined vs per-node search, mixed '
    'own/descendant, no_iframe = document is HTML) and transparency of any text memo across look-alike elements; (R4) a needle '
    'undergoes only [1:-1] and one css_unescape; (R5) :empty uses the complement of the CSS white-space class and looks at the '
    'element\'s own children. Not decided: substring results over all trees.',
    '',
    'class-hierarchy exhaustiveness vs bs4 sources + ' + PE + ' + string provenance + bounded tables on abstract trees',
)

claim(
    'C20',
    'Decided: (R1, sufficient for termination) both scanners attempt matches at strictly increasing positions for every token kind and '
    'for "no token", their regexes are non-nullable and free of exponential ambiguity; (R2) the pretty-printer emits the matched text '
    'of every token kind once and copies unmatched characters; (R3) every SelectorSyntaxError raised inside CSSParser carries '
    'self.pattern and the position its message names, never a position taken from a group that may not have taken part; (R4) '
    'statements under the debug flag only print and DEBUG does not change how the top-level list is handed to the parser; (R5) the '
    'error constructor derives line/column/context exactly when pattern and index are given (None-ness, not truthiness) and the '
    'message carries them; (R6) lines are delimited by LF, CR, CRLF only; (R7, bounded) get_pattern_context - its line splitter '
    'followed with the analyser\'s own matcher - gives line = 1 + line breaks before the offset, column = offset within the line + 1 '
    'and a caret under that column for every offset 0..len of nine short patterns covering LF, CR, CRLF, leading / trailing / '
    'double breaks and the empty pattern. Not decided: equality of pretty() output with repr; get_pattern_context on arbitrary '
    'patterns (the table is bounded).',
    '',
    'scanner progress by ' + PE + ' + regex ambiguity analysis + raise-site agreement + debug effect rule',
)


# ---- addenda: tables over concrete selector texts / the whole API, run by interpretation (sa.e2e) ------------------------------
# "pipeline table" = the package's own tokenizer, parser and matcher are run by the analyser's evaluator on concrete selector texts
# and small abstract bs4 trees (the package's regexes applied by the analyser's own matcher over their parse trees); results are
# compared with each other (metamorphic relations) or with expectations written out from the specification.  These tables are
# BOUNDED: a failing row is a genuine counterexample (text, tree, result), a clean table is not a proof.
from .claimapi import PROPS  # noqa: E402

_ADDENDA = {
    'C01': '(R9, pipeline table) 43 selectors of a pool select, on an HTML reference tree, exactly the elements the Selectors '
           'specification designates (expectations written out by hand); (R1) the relations table covers a detached fragment, (R3) every '
           'token kind of the tokenizer has a handler that records or refuses it and reads only groups its pattern defines. (R9 also) on a tree of look-alike elements 48 selectors give the same answer when every element carries a unique attribute no selector reads, and when the comments, empty comments and empty strings between the elements are taken out; (R5) the class / id conjunction for every list of up to three names, repeated names included. (R9 also) a compound of two simple selectors of different families selects the intersection, in both orders (28 selectors, every second pair).',
    'C02': '(R5, pipeline table) 35 An+B forms x six pseudo-class variants (incl. "of S") through parser and matcher equal the formula; '
           '(R1) the bounded table includes an element without a parent. (R5) pairs of An+B in one compound (intersection), one list (union) and under :not() (difference), with different "of S" clauses. (R5 also) the same "of S" spelled with an explicit universal selector (*.k, *|*.k, *|*:is(.k) ...). (R5 also) the element children of the document object (several top-level elements, XML and HTML) are counted like any siblings, from both ends.',
    'C03': '(R5, pipeline table) select / iselect / select_one / limit / filter(tag) / filter(iterable) / closest / scoped select agree with '
           'match() element by element for a pool of selectors on HTML and XML flavours of a reference tree; (R2) closest(), filter() (also '
           'from the document object) and the descendant walk of select() as tables, and match_selectors leaves the matcher state as it was. (R6) results do not depend on the element a call starts from (SVG / MathML subtrees); (R7) 23 selector shapes give the same answer with :scope, with & and with the #id of the call target in its place, through select / select_one / match / closest / filter for several call targets and the document. (R5 also) select() equals the per-element answers of match() on a form tree and on a document with several top-level elements; (R7) the document as call target against the #id of the root element, with a nested document in the tree. (R5 also) filter(tag) on iframe / form / root elements equals the children match() accepts; (R7 also) custom selectors whose definitions use :scope, with and without limit.',
    'C04': '(R5, pipeline table) one compiled selector object gives the same answers before and after other queries and equals a fresh '
           'compile; (R4) match_selectors restores namespaces / iframe_restrict for plain and nested HTML-only lists. (R5 also) the one-call table (select() against fresh per-element match() on a form tree with a language pragma after another meta, radio groups, a textarea holding an iframe; a multi-rooted document) and the look-alike table. (R5 also) trees with dir=auto under foreign elements, three interleaved radio groups (names differing in case), controls inside and outside an iframe; a list selects the union of its alternatives asked in queries of their own.',
    'C05': '(R1) the list-level facts of `a, a<E>` for every simple selector E depend only on the parse flags (two recorded findings: '
           ':defined and :dir()); (R2) every list of one to three passing / failing / un-matchable alternatives, plain and negated; (R6, '
           'texts compiled by interpretation) `A, B`, :is(A, B), :where(A, B), :not(A, B) compile to the concatenation of their '
           'alternatives, for every separator spelling; (R7, pipeline table) union / complement / intersection laws on HTML and XML trees. (R7 also) the same laws one level down - :is(X:is(A)), :where(...), :not(X:is(A), b), "of X:is(A)" - and for lists of up to nine alternatives (type selectors under a default namespace, classes, ids, mixed) bare, inside :is(), *|*:not() and "of S". (R7 also) the laws with 26 state / text pseudo-classes and id selectors as operands on a form tree (html.parser-like and XHTML flavours). (R7 also) four levels of nested :is() / :where() / :not() change nothing.',
    'C06': '(R6, texts compiled by interpretation) every sequence of up to two (thorough: three) fragments of a 57-fragment alphabet and '
           '~110 hand-picked malformed texts and custom maps compile or raise SelectorSyntaxError / NotImplementedError; (R7) no parser-side '
           'regex is exponentially ambiguous. (R2) standard-library functions that raise on part of their domain (unicodedata.name without default, itertools.islice with a possibly negative bound, json / codecs / math ...) and str.encode without an error handler are partial operations like int() / chr(); so is print() of pattern text that is not escaped (!r / !a / repr / ascii) - UnicodeEncodeError on a lone surrogate. (R3) a custom-selector cycle whose interpreted call depth passes 400 frames at >= 30 frames per nesting level of the input counts as RecursionError, not as an unevaluable row.',
    'C08': '(R8, pipeline table) no entry point raises on a tree of unusual but legal content in several flavours; (R9) no navigation helper is '
           'part of a call cycle; (R10) the tuples match_range orders with < / > hold, by inferred type, numbers only in every position '
           '(a None or str member raises TypeError once the members before it compare equal). (R8 also) detached fragments: a legend with a control, a disabled fieldset, a lone radio button, a list item with dir=auto.',
    'C09': '(R7, texts compiled by interpretation) 23 selector templates with every white-space / comment spelling of every slot, and 39 '
           'classes of escape / quoting / letter-case respellings (hex escapes at the boundaries of the code space included) compile to '
           'the structure of the canonical spelling.',
    'C10': '(R7, texts compiled by interpretation) escape(s) read back as #id, .class, type selector and attribute value is s, for 46 '
           'hostile characters in seven positions; (R8, pipeline table) the selectors built with escape() select exactly the carriers of '
           's on HTML (class lists) and XML (class strings) trees. (R8 also) decoys whose value is the needle plus one white-space character before or after it are not selected. (R8 also) XML and XHTML elements that carry ID / CLASS / DATA next to or instead of the lower-case attribute.',
    'C11': '(R5, pipeline table) 26 name / value case variants on four document flavours (html.parser, html5lib-like, XHTML, XML), and '
           'HTML-only pseudo-classes on XHTML elements embedded in a non-XHTML XML document from every entry point. (R5 also) 16 HTML-only pseudo-classes in 17 positions of a compound / list select nothing on two XML documents that are not XHTML. (R5 also) the type of an element for :nth-of-type() and friends (<DIV> and <div> are one type in HTML trees only); filter() over detached items of an HTML and an XML document in every order.',
    'C12': '(R7, pipeline table) type and attribute selectors with prefixes on a tree of mixed namespaces under two prefix maps (34 rows). (R7 also) positions of :nth-child() count siblings of every namespace under a default namespace; a default namespace that is not XHTML leaves the built-in definitions of the HTML pseudo-classes alone. (R7 also) a namespaced attribute stored under a key without prefix; the unmapped prefix xml matches nothing.',
    'C13': '(R8, pipeline table) :lang() on XHTML (LANG next to lang), XML (xml:lang) and HTML with the content-language pragma. (R8 also) an element spelled IFRAME in an XML-parsed XHTML tree is no document boundary. (R7 also) subtags that no registry knows (longer than eight characters, other characters, empty) are skipped like any other; (R8 also) a nested document has no share in the pragma of the outer one; another meta may precede the pragma.',
    'C15': '(R5, texts compiled by interpretation) what a pattern compiles to under a custom map does not depend on maps compiled earlier '
           'in the same process; compile(compiled) returns its argument. (R6) every memoising function reachable from compile() that holds compiled structure is bounded and cleared by purge(); (R7, texts compiled by interpretation) 63 patterns compile to the same structure whatever was compiled before them in the same process (four orders), module-level state of the interpreted package carried along. (R7 also) a namespaces / custom dict changed in place between two calls is read again; (R2 also) a class that defines its own __reduce__ is interpreted on an instance of every subclass and must rebuild that subclass.',
    'C16': '(R5) every positional argument of every self.api.<function>(...) call in the installed bs4/css.py (limit, flags, the prefix map) reaches the '
           'parameter of the same name of soupsieve.<function>: Beautiful Soup and soupsieve give one meaning to limit= and flags=; (R6) no '
           'import-time code operates on a docstring, which is None under python -OO. (R7) no comparison of text with bytes anywhere in the package, by inferred types (a BytesWarning under python -b while the package is imported).',
    'C17': '(R7, pipeline table) :dir() below dir=auto with invalid dir values, radio groups in nested forms, :default, :placeholder-shown. (R7 also) a disabled fieldset of the outer document does not disable controls of a document nested in it, at any depth. (R6 also) values and text of white space only.',
    'C18': '(R4/R6/R7) which input types parse_value understands, which conversion every regex group goes through and that parsed tuples '
           'hold numbers of one arity are observed by interpreting parse_value, wherever the code sits. (R9) Inputs.parse_value("week", ...) by interpretation for weeks 00, 01, 26, 52, 53, 54 of every year of a 400-year cycle and boundary years: no valid week string is rejected, weeks 0 and 54 never accepted; the over-acceptance of week 53 for the years whose 31 December lies in week 1 is a recorded finding (the existing tests pin it). (R6 also) parse_value("number" / "range") by interpretation on 29 valid number strings at the edges of the float range (overflow, underflow, signed zero, 400 digits) and 18 invalid ones. (R4 also) a value its shape regex accepts and its validators pass is parsed whatever its length (types whose shapes have no longest member).',
    'C19': '(R6, pipeline table) :-soup-contains / -own / :empty on a tree with split text, comments, CDATA, a processing instruction, an '
           'iframe and elements without text nodes (empty needle included). (R6 also) every second substring (length <= 6) of a text split over five nodes of three depths, negatives, and lists of needles of different lengths; an element named iframe in a foreign namespace is no boundary.',
    'C20': '(R8, texts compiled by interpretation) the offset of every SelectorSyntaxError raised for ~170 malformed texts and custom '
           'definitions lies inside the pattern the error shows. (R7 also) East Asian wide, full-width, combining and astral characters before the offset: the caret is under the reported column, counted in characters.',
}
for _pid, _txt in _ADDENDA.items():
    if PROPS.get(_pid, {}).get('claimed'):
        PROPS[_pid]['text'] = PROPS[_pid]['text'].rstrip() + ' Bounded additions: ' + _txt
        if 'interpretation' not in PROPS[_pid]['technique']:
            PROPS[_pid]['technique'] += ' + interpretation of tokenizer/parser/matcher on concrete texts and abstract trees (bounded tables)'
