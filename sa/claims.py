"""Claims per property (imported by sa.registry). Each claim names the decided clauses only."""
from .registry import claim, decline  # noqa: F401
