"""Claims per property (imported by sa.registry). Each claim names the decided clauses only."""
from .claimapi import claim, decline  # noqa: F401

claim(
    'C07',
    'Decided (sufficient under the backtracking model of sre): every regular expression of the package - 59 '
    'compiled patterns and pattern templates folded from the sources, in every flags variant - is free of '
    'exponential ambiguity (automata-theoretic EDA criterion with exact look-ahead/look-behind handling), every '
    'token pattern consumes at least one character and the tokenizer loop advances on every path, no regex '
    'application escapes the inventory, and custom-selector expansion is memoised. This quantifies over ALL input '
    'strings, which no test or timing sample can. Not decided: wall-clock constants and the polynomial degree.',
    'Static only: the regex sources are parsed with re._parser, never compiled or run.',
    'regex ambiguity analysis (EDA via pair-graph SCC over look-ahead-exact eps-NFA) + scanner-loop path rule',
)

claim(
    'C02',
    'Decided (necessary conditions, by structural rules): the interval beliefs about the candidate index in '
    'match_nth agree (all lower bounds equal, all upper bounds equal, as linear forms over len(parent)); the token '
    'grammar NTH, the splitter RE_NTH and the nth token groups are language-equivalent; the keyword pseudo-classes '
    'and even/odd build exactly the An+B records they name; the -of-type sibling predicate is name AND namespace '
    'equality and every SelectorNth field is read by the matcher. Not decided: the An+B arithmetic over all '
    'integers and sibling sequences (needs a loop-invariant proof, another technique family).',
    'Breaking any decided clause breaks the stated behaviour; holding them does not prove it.',
    'AST consistency rule over linear bound forms + regex language equivalence + table agreement',
)

claim(
    'C09',
    'Decided (necessary conditions): the two alternatives of the combinator token cannot both match at one position '
    '(exact look-ahead semantics); every unanchored regex search over raw selector text stays inside whitespace; on '
    'every def-use path from a match group to the IR css_unescape is applied exactly once; every comparison of '
    'matched text with a letter-bearing constant or table key sees text lower-cased after its last decode; the '
    ':lang()/:-soup-contains() token grammars agree and their value lists are tiled by RE_VALUES; NEWLINE, WS, '
    'COMMENTS, CSS_ESCAPES, IDENTIFIER, VALUE and the two escape decoders are language-equivalent to their CSS '
    'Syntax 3 definitions. Not decided: equality of compiled structures for all respellings at all positions.',
    'Reference grammars are transcribed from CSS Syntax 3 in the rule pack.',
    'regex language queries (exclusivity, inclusion, equivalence) + string-provenance dataflow over the handlers',
)

claim(
    'C10',
    'Decided for every non-empty Unicode string (sufficient under the automata model): escape() is extracted as a '
    'per-character transducer (position class x code-point interval set -> output template); the regular image '
    'language is proved included in IDENTIFIER; every template class decodes back to its character against the '
    "decoder's own tables (hex escapes vs the set of code points css_unescape replaces, backslash escapes vs hex "
    'digits/newlines, literals vs backslash, NUL -> U+FFFD); escape() performs only total operations; and the '
    'pattern text is handed from compile() to the tokenizer unmodified. Not decided: that the selected elements are '
    'those carrying that id/class/attribute (C01); the empty string.',
    'A construct outside the table vocabulary (e.g. a regex fast path inside escape()) is an ANALYSIS-ERROR, not a pass.',
    'symbolic transducer extraction + regular-language inclusion',
)

claim(
    'C18',
    'Decided: (R1) each value-shape regex, with the semantics of the call that applies it, accepts only valid HTML '
    'date/month/week/time/local-date-time/number strings and all of them within the implemented subset (the gap to '
    'the full grammar - seconds, space separator - is a recorded known finding); (R2) the validators\' bounds and the '
    'days-per-month code agree with the proleptic Gregorian calendar on every month x (year mod 400); (R3) calendar '
    'library calls only receive years proven inside 1..9999 by interval arithmetic; (R4) the range-typed input list '
    'agrees between the :in-range definition, parse_value and match_range; (R5) the decision part of match_range is '
    'correct for every relative order and None-ness of (min, max, value) for every type, incl. wrapped time ranges. '
    'Not decided: ISO week counts (the defect is pinned by the existing tests) and numeric conversion results.',
    'R2 and R5 evaluate the AST over an exhaustive finite abstract domain after checking syntactically that the '
    'abstraction applies (year only under % k, k | 400; values only compared).',
    'regex language inclusion vs HTML grammars + finite-domain abstract evaluation of the validators',
)

claim(
    'C03',
    'Decided: (R1, exact) each of the six module-level wrappers passes pattern, namespaces, flags, custom and '
    '**kwargs to compile() in the right slot and returns the same-named method applied to the call target (+ limit); '
    '(R2) the top-level selector list is evaluated only inside CSSMatch.match, every verdict of CSSMatch.select/'
    'closest/filter is CSSMatch.match, select = list(iselect), select_one = select(limit=1), select walks the tag '
    'descendants of the target; (R3) CSSMatch.match cannot be true for the document object or a non-Tag (three-valued '
    'path evaluation), the target is validated with TypeError; (R4) every SoupSieve method builds its matcher scoped on '
    'its call target from the same fields. Not decided: document order/no duplicates, the limit arithmetic, :scope on '
    'the document object.',
    'Necessary conditions except R1, which is the forwarding clause itself.',
    'AST forwarding/funnel rules + three-valued path evaluation of guard necessity',
)

claim(
    'C15',
    'Decided (necessary conditions): Immutable raises unconditionally from __setattr__ and __delattr__ and no subclass '
    'overrides them or __eq__/__hash__; the maps define no mutator and copy their input; for each of the nine value '
    'classes __slots__[:-1] = super().__init__ keywords = __init__ parameter order, the pickle/copy reducer rebuilds '
    'through the constructor without _hash, equality and hash range over the same list, every class is registered; '
    'contents are frozen and the map hash is built from sorted items; compile() hands exactly its four inputs to the '
    'bounded lru_cache (maps wrapped under an is-not-None test), purge clears it, and compile(compiled, extra) cannot '
    'return when any extra argument is given (three-valued path evaluation). Not decided: equality of values across '
    'compile/pickle as observed results and LRU contents over call histories.',
    '',
    'AST table-agreement rules + three-valued path evaluation of the pass-through guards',
)

claim(
    'C16',
    'Decided (sufficient for the stated failure mode, under the premise read from the installed bs4 sources that '
    'bs4/__init__ imports soupsieve via bs4.builder -> bs4.element -> bs4.css before it binds Tag etc.): no '
    'import-time code of the package - module/class level statements, base lists, decorators, defaults, and every '
    'function reachable from them in the type-resolved call graph - evaluates bs4.<name> or `from bs4... import '
    'name` for a name that is not yet bound at that moment (also when wrapped in try/except, which only makes the '
    'behaviour order-dependent); module-level imports inside the package are acyclic; the same code reaches no '
    'print/warn outside a debug guard. Not decided: equality of select() results between import orders.',
    'The safe-name sets are recomputed from the installed bs4 on every run.',
    'import-time reachability over a type-resolved call graph + bs4 import-chain analysis',
)

claim(
    'C14',
    'Decided by a confinement analysis (sufficient under the trusted base that functools.lru_cache and compiled '
    're.Pattern objects are thread-safe): the objects retained by module- or class-level bindings (the token matcher '
    'table, constants) are never written by any method other than __init__; no function rebinds a global, stores '
    'into or calls a mutator on a module-/class-level object, or has a mutable default; CSSParser, CSSMatch, '
    '_Selector and _FakeParent objects are constructed per call and never published; every memoised function returns '
    'an immutable value and reads no variable module state. This covers all schedules at once because it shows the '
    'absence of shared writes; no interleaving is sampled.',
    'Immutability of the css_types value classes is C15.',
    'shared-state confinement / escape analysis over the AST and class hierarchy',
)

claim(
    'C20',
    'Decided: (R1, sufficient for termination) both index-driven scanner loops - the selector tokenizer and the debug '
    'pretty-printer - advance the index by a non-empty match or a positive constant on every path back to the loop '
    'head, or leave; (R2) the pretty-printer has an emitting branch for every token kind; (R3) every '
    'SelectorSyntaxError raised inside CSSParser has the three-argument form with self.pattern and the very position '
    'expression its message names; (R4) every statement control-dependent on the debug flag is a plain print; (R5) '
    'the error constructor derives line/column/context whenever pattern and index are not None (not merely truthy). '
    'Not decided: the line/column arithmetic of get_pattern_context (incl. the known end-of-pattern defect) and '
    'equality of pretty() output with repr.',
    'The offset-to-(line, column) computation quantifies over run-time offsets; no structural clause of it was found '
    'that is a necessary condition without being a frozen fragment.',
    'scanner-loop path rule over a structural path walker + raise-site agreement + debug effect rule',
)

claim(
    'C01',
    'Decided (necessary conditions, each a rule over the current sources): (R1) no value obtained from get_parent() '
    'reaches match_selectors without a dominating "not is_doc" test; (R2) for ^= $= *= ~= the pattern compiled for an '
    'empty value has the empty language; (R3) token names = dispatch keys, every regex group a handler reads exists '
    'in the token pattern that carries the key, every simple/special pseudo-class name has its branch/table row; '
    '(R4) the rel_type strings the parser can store = the REL_* constants the matcher branches on; (R5) every '
    'Selector slot and SEL_* flag is consulted by a guard of the form "if [pre and] not self.match_X(): continue" '
    'ahead of the success assignment, and the helper predicates are AND-folds; (R6) each attribute-operator pattern '
    'template, per operator x flags variant x literal shape and with re.match semantics, is language-equal to the '
    "operator's definition; (R7) on every path taken for a comma the per-alternative parser state is reset; (R8) class "
    'splitting and :empty use exactly the CSS whitespace set. Not decided: soundness/completeness of the tree walks '
    'over all trees x selectors.',
    '',
    'taint/dominance rule + table agreement + regex language equality + event-tracking path walk',
)

claim(
    'C12',
    'Decided: (R1) the decision table of match_attribute_name for [a], [|a], [*|a], [p|a] (mapped) and [q|a] '
    '(unmapped) over every element with up to two attributes drawn from seven kinds (plain, upper-case, other name, '
    'in the mapped namespace, in another namespace, in another namespace under a document prefix equal to the '
    'selector prefix), in XML and in namespace-aware HTML, equals the table the property states; (R3) likewise '
    'match_namespace for E, |E, *|E, p|E, q|E x default entry present/absent x four element namespaces; (R2) '
    'Tag.prefix is read only by get_prefix_name, whose transitive callers are get_prefix and match_defined; (R4) the '
    'implied universal selector is ("*", None) under "not sel.tag and not is_pseudo" at both sites; (R5) the prefix '
    'map is an immutable copy. Both functions touch their inputs only through ==, is None, truthiness and dict '
    'lookup, so the abstract cases are exhaustive for R3 and exhaustive up to two attributes per element for R1. '
    'Not decided: whole-document behaviour (C01).',
    'R1/R3 interpret the function ASTs over the abstract cases with a small evaluator; anything outside its '
    'fragment is an ANALYSIS-ERROR.',
    'decision-table extraction by finite-domain evaluation of the AST + attribute-access census over mypy types',
)

claim(
    'C11',
    'Decided: (R1) the decision tables of match_tagname/get_tag, match_attribute_name and get_attribute_by_name over '
    '(XML vs HTML) x (lower/upper/mixed spelling on the selector side) x (lower/upper/mixed spelling on the document '
    'side) x prefix forms equal the case rules of the property; (R2) the attribute flag chain gives IGNORECASE exactly '
    'for the i flag or an unflagged type attribute (any spelling of "type"), DOTALL always, and a case-sensitive twin '
    'exactly for an unflagged type attribute, which the matcher selects iff the document is XML; (R3) an HTML-only '
    'selector list is evaluated iff self.is_html (reachability under both assumptions), and each of the 16 '
    'pseudo-classes the documentation marks HTML-only is compiled with FLG_HTML or sets the marker; (R4) util.lower '
    'maps exactly A-Z (evaluated on all ASCII code points and on non-ASCII letters). The functions touch their '
    'operands only through ==, membership, util.lower and None tests, so the spelling classes are exhaustive. Not '
    'decided: document-type detection from a tree.',
    '',
    'decision-table extraction by finite-domain evaluation of the AST + reachability on the path walker',
)

claim(
    'C13',
    'Decided (necessary conditions on the language determination): the variable the ancestor walk fills from lang '
    'attributes has a None sentinel and is never tested by truthiness (so lang="" ends the walk); the <meta> memo '
    'stores a miss as a miss and a hit as the value the path uses, under the same key variable it looks up with, and '
    'that key is the top of the walk on every path that ends the walk without a language (so an iframe document never '
    "reads the outer document's entry); every tree accessor in match_lang passes no_iframe=self.is_html; the lang / "
    'xml:lang choice tests the namespace of the very node whose attributes are inspected; the :lang() value list is '
    'tiled by RE_VALUES and each range is decoded exactly once. Not decided: RFC 4647 extended filtering itself '
    '(extended_language_filter), including the known trailing "-*" defect.',
    'extended_language_filter is an algorithm over subtag sequences of unbounded length; no sound static argument '
    'short of a loop-invariant proof decides it.',
    'sentinel-consistency rule over mypy types + memo-transparency rules on the path walker + string provenance',
)

claim(
    'C17',
    'Decided: (R1) the partition laws hold by construction of the definitions: :enabled is one compound over the '
    'same control list as :disabled[disabled] ending in :not(:disabled) and every inherited-disabledness alternative '
    'selects a control of that list; :required/:optional are Y[required] / Y:not([required]) over input, textarea, '
    'select; :read-only is html|*:not(:read-write); :in-range/:out-of-range are one selector with complementary flags; '
    ':link and :any-link share one definition; :checked is the first alternative of :default; the flagged definitions '
    'keep the specially handled alternative last; all are compiled HTML-only; (R2) every tree accessor in '
    'match_default, match_indeterminate (incl. its nested form search) and match_dir passes no_iframe=True, '
    'match_lang/match_contains pass self.is_html, the relation walks pass self.iframe_restrict, and none of the state '
    'matchers anchors on self.root/self.scope/self.tag; (R3) the memo tables are lists scanned by identity; (R4) the '
    'decision table of match_range over all orders/None-ness of (min, max, value) x type x query; (R5) on a finite '
    'universe of abstract form trees the definitions agree with predicates transcribed from the HTML Standard. '
    'Not decided: each pseudo-class on all documents (form owner attribute, radio groups, bidi resolution).',
    '',
    'definition-agreement rules over the selector constants + effect rules + finite-domain decision table',
)

claim(
    'C19',
    'Decided: (R1) the isinstance tuple of is_special_string covers every subclass of PreformattedString of the '
    'installed bs4 (read from its sources) and no plain-text subclass, and is_content_string is navigable AND NOT '
    'special (as necessary conditions of a true result); (R2) every text reader (get_text, get_own_text, match_empty, '
    'match_root, find_bidi, the textarea branch of match_dir) consults that classification, the two collectors filter '
    'every node; (R3) descendant text is "".join of the descendants\' content strings, own text is the unjoined list of '
    'direct child strings tested one by one, both with no_iframe=self.is_html; (R4) between the match group and the IR '
    'a needle undergoes only [1:-1] (quote removal) and exactly one css_unescape, in string mode iff quoted; (R5) :empty '
    'tests text with the complement of the CSS whitespace class. Not decided: substring results over all trees and the '
    'resume-point navigation of the iframe skipping in get_descendants.',
    '',
    'class-hierarchy exhaustiveness vs bs4 sources + shape rules + string provenance',
)

claim(
    'C04',
    'Decided: (R1, sufficient under the trusted base that bs4 read accessors are pure) every expression whose mypy '
    'type is a bs4 page element is only ever read: no store/del/augmented assignment through it, no method call '
    'outside a list of read accessors, no escape into a callable outside the package or a short pure list (233 sites '
    'classified; Any-typed expressions are listed as gaps and mutator method names on them are findings); (R2) each '
    'SoupSieve method constructs a fresh matcher and stores it nowhere, nothing reachable from the matching API rebinds '
    'globals; (R3) the three memo tables are fresh per-matcher lists, appended only under the key variables their '
    'lookup compares, primary key by identity; (R4) every matcher attribute written outside __init__ is first saved in '
    'a local of the same activation and restored from it on every non-exceptional path to the exit (the function is '
    're-entrant). Not decided: equality of answers across two runs / a pristine copy as an observed result.',
    '',
    'effect analysis over mypy types + memo discipline + save/restore path rule',
)

claim(
    'C05',
    'Decided (necessary conditions; the skeleton the laws rest on): (R1) the facts frozen into a SelectorList '
    '(is_not, is_html) may be defined from the list\'s own parse flags only - the two places where an alternative '
    '(:dir(), :defined) turns its whole enclosing list HTML-only are genuine defects recorded as known findings, any '
    'other leak is a violation; (R2) the alternative loop starts each alternative from `match = is_not`, skips '
    'SelectorNull, and ends with `match = not is_not; break`; (R3) the HTML-only context swap is saved in a local and '
    'restored on every path of the same activation, no other method writes matcher state, and the list is evaluated '
    'iff `not is_html or self.is_html`; (R4) :not/:has/:is/:where/:matches are parsed with exactly the flags NOT / '
    'RELATIVE / FORGIVE / FORGIVE / none on top of PSEUDO|OPEN; (R5) a comma resets every piece of per-alternative '
    'parser state and the implied universal selector has the same guard at both sites. Not decided: the laws as set '
    'equalities over all documents.',
    '',
    'flag-scope rule + loop-shape rule + save/restore path rule + finite decision table',
)

claim(
    'C06',
    'Decided (sufficient modulo the catalogue of partial operations and the trusted base): over the 67 functions '
    'reachable from compile() in the type-resolved call graph, every explicit raise that can propagate to compile() '
    '(after filtering by the handlers around each call site) is SelectorSyntaxError, NotImplementedError, or one of '
    'the enumerated documented exceptions (KeyError for duplicate custom names; ValueError/TypeError for arguments '
    'outside the stated domain); every int/float/chr/datetime/decode/next/re.compile/constant-table-subscript site and '
    'every possibly-unbound local is discharged by an enclosing handler, by inclusion of the feeding regex group in the '
    "conversion's domain (incl. the 4300-digit limit), by an interval argument, or by the escaping discipline of "
    'pattern templates; the custom-selector recursion is cut (name removed for the nested parse, restored after); the '
    'arguments of the memoised compiler are hashable. Not decided: exceptions from operations outside the catalogue '
    '(run-time subscripts and cast()/Any sites are listed as unproven), recursion depth, warnings-as-errors.',
    '',
    'exception-escape analysis over a type-resolved call graph with language/interval discharges',
)

claim(
    'C08',
    'Decided (sufficient modulo the catalogue and the trusted base): over the functions reachable from select, '
    'select_one, iselect, match, filter and closest in the type-resolved call graph, the only explicit raise that can '
    'propagate to the API is the documented TypeError of assert_valid_input; every int/float/chr/datetime/decode/next/'
    're.compile site and every possibly-unbound local is discharged (handler at the site or around a call site on the '
    "way up, inclusion of the regex group in the conversion's domain incl. the 4300-digit limit, interval of the year "
    'argument of datetime(), errors= on decode); every util.lower() call in that code receives a value whose type '
    'excludes None (mypy types refined by the nullable-passthrough summary of get_attribute_by_name, which is itself '
    'checked); values from get_parent() are not dereferenced while possibly None; every ancestor/sibling walk advances '
    'or sets a tested variable on every path back to its head, and no walk loop returns to its head with an identical '
    'environment in the scenario "element without parent or siblings" (None-propagation through the package\'s own '
    'accessors: definite non-termination). Not decided: termination of the arithmetic loops of match_nth; exceptions '
    'from operations outside the catalogue.',
    '',
    'exception-escape analysis + nullable-argument type rule + walk-progress path rule + None-propagation',
)
