"""String provenance inside the parser's handler functions (flow-insensitive def-use, package calls inlined).

For an expression it answers: along the def-use chains that reach it from regex match groups, how many times has
`css_unescape` been applied (decode count) and is the text known to be ASCII-lower-cased (after the last decode)?
"""
from __future__ import annotations

import ast
from dataclasses import dataclass

from .srcmodel import Module, SourceModel, call_name, unparse


@dataclass(frozen=True)
class Prov:
    decodes: int          # number of css_unescape applications on the path
    lowered: bool         # util.lower applied after the last decode (or text matched from lowered text)
    source: str           # description of the origin (group name ...)
    steps: tuple = ()     # pipeline of named transformations, inside-out


PRESERVING_METHODS = {'strip', 'lstrip', 'rstrip', 'replace'}
UNESCAPE = 'css_unescape'
LOWER = 'lower'


class StrFlow:
    def __init__(self, src: SourceModel, mod: Module, fn: ast.FunctionDef, cls: str | None = None,
                 bindings: dict | None = None, depth: int = 0):
        self.src = src
        self.mod = mod
        self.fn = fn
        self.cls = cls
        self.bindings = bindings or {}        # param name -> set[Prov] (when inlined)
        self.depth = depth
        self.defs: dict[str, list[ast.AST]] = {}
        self.loops: dict[str, ast.AST] = {}   # loop var -> iter expr
        self.ext: dict[str, str] = {}         # names bound to external text (mapping keys of a parameter)
        nested = set()
        for n in ast.walk(fn):
            if n is not fn and isinstance(n, (ast.FunctionDef, ast.Lambda)):
                for y in ast.walk(n):
                    if y is not n:
                        nested.add(id(y))
        for n in ast.walk(fn):
            if id(n) in nested:
                continue
            if isinstance(n, ast.Assign):
                for t in n.targets:
                    if isinstance(t, ast.Name):
                        self.defs.setdefault(t.id, []).append(n.value)
                    elif isinstance(t, ast.Subscript) and isinstance(t.value, ast.Name):
                        # d['k'] = v : remember per key text
                        self.defs.setdefault(unparse(t), []).append(n.value)
            elif isinstance(n, ast.AnnAssign) and isinstance(n.target, ast.Name) and n.value is not None:
                self.defs.setdefault(n.target.id, []).append(n.value)
            elif isinstance(n, ast.For) and isinstance(n.target, ast.Name):
                self.loops[n.target.id] = n.iter
            elif isinstance(n, ast.For) and isinstance(n.target, ast.Tuple) and isinstance(n.iter, ast.Call) \
                    and isinstance(n.iter.func, ast.Attribute) and n.iter.func.attr == 'items' \
                    and isinstance(n.iter.func.value, ast.Name) \
                    and n.iter.func.value.id in [a.arg for a in fn.args.args]:
                # keys / values of a mapping parameter are external text (e.g. custom selector names)
                for i, t in enumerate(n.target.elts):
                    if isinstance(t, ast.Name):
                        self.ext[t.id] = f'{"key" if i == 0 else "value"} of parameter {n.iter.func.value.id}'
            elif isinstance(n, ast.Expr) and isinstance(n.value, ast.Call) and isinstance(n.value.func, ast.Attribute) \
                    and n.value.func.attr in ('append', 'extend') and isinstance(n.value.func.value, ast.Name) \
                    and n.value.args:
                self.defs.setdefault(n.value.func.value.id, []).append(n.value.args[0])
        self._busy: set = set()

    # ------------------------------------------------------------------------------------------------
    def prov(self, e: ast.AST) -> set[Prov]:
        """Set of provenances of expression e; empty set = constant / not derived from match text."""
        key = id(e)
        if key in self._busy:
            return set()
        self._busy.add(key)
        try:
            return self._prov(e)
        finally:
            self._busy.discard(key)

    def _match_source(self, recv: ast.AST) -> set[Prov] | None:
        """Provenance of the text a match object was produced from (None = a parameter: raw selector text)."""
        if isinstance(recv, ast.Name):
            if recv.id in self.loops:
                it = self.loops[recv.id]
                # for token in REGEX.finditer(text)
                if isinstance(it, ast.Call) and isinstance(it.func, ast.Attribute) and it.func.attr in (
                        'finditer',) and it.args:
                    return self.prov(it.args[0])
            for d in self.defs.get(recv.id, []):
                c = d
                if isinstance(c, ast.Call) and call_name(c) in ('cast', 'typing.cast') and len(c.args) == 2:
                    c = c.args[1]
                if isinstance(c, ast.Call) and isinstance(c.func, ast.Attribute) and c.func.attr in (
                        'match', 'search', 'fullmatch') and c.args:
                    return self.prov(c.args[0])
                if isinstance(c, ast.Call) and isinstance(c.func, ast.Attribute) and c.func.attr == 'groupdict':
                    return self._match_source(c.func.value)
        return None

    def _prov(self, e: ast.AST) -> set[Prov]:
        if isinstance(e, ast.Constant) or e is None:
            return set()
        if isinstance(e, ast.JoinedStr):
            out = set()
            for v in e.values:
                if isinstance(v, ast.FormattedValue):
                    out |= self.prov(v.value)
            return out
        if isinstance(e, ast.IfExp):
            return self.prov(e.body) | self.prov(e.orelse)
        if isinstance(e, ast.BoolOp):
            out = set()
            for v in e.values:
                out |= self.prov(v)
            return out
        if isinstance(e, ast.BinOp):
            return self.prov(e.left) | self.prov(e.right)
        if isinstance(e, ast.Name):
            if e.id in self.bindings:
                return set(self.bindings[e.id])
            if e.id in self.ext:
                return {Prov(0, False, self.ext[e.id])}
            out = set()
            for d in self._reaching(e.id, e):
                out |= self.prov(d)
            if e.id in self.loops and not out:
                it = self.loops[e.id]
                out |= self.prov(it)
            return out
        if isinstance(e, ast.Subscript):
            # slicing / indexing a string keeps provenance; dict entry d['k'] with a recorded store
            key = unparse(e)
            if key in self.defs:
                out = set()
                for d in self.defs[key]:
                    if id(d) in self._busy:
                        # self-referential update `d['k'] = f(d['k'])`: the inner read sees the original entry
                        if isinstance(e.value, ast.Name) and isinstance(e.slice, ast.Constant):
                            out |= self._group_of(e.value, e.slice.value) or set()
                    else:
                        out |= self.prov(d)
                return out
            if isinstance(e.value, ast.Name) and isinstance(e.slice, ast.Constant) and isinstance(e.slice.value, str):
                # mdict['name'] where mdict = m.groupdict()
                src = self._group_of(e.value, e.slice.value)
                if src is not None:
                    return src
            inner = self.prov(e.value)
            if isinstance(e.slice, ast.Slice):
                return {Prov(p.decodes, p.lowered, p.source, p.steps + (f'[{unparse(e.slice)}]',)) for p in inner}
            return inner
        if isinstance(e, ast.Call):
            cn = call_name(e)
            f = e.func
            # match group access
            if isinstance(f, ast.Attribute) and f.attr == 'group':
                g = e.args[0].value if e.args and isinstance(e.args[0], ast.Constant) else 0
                src = self._group_of(f.value, g)
                if src is not None:
                    return src
            if isinstance(f, ast.Attribute) and f.attr == 'get' and e.args and isinstance(e.args[0], (ast.Constant, ast.BinOp, ast.IfExp, ast.Name)):
                # mdict.get('nth' + postfix)
                src = self._group_of(f.value, unparse(e.args[0]))
                if src is not None:
                    return src
            last = cn.split('.')[-1]
            if last == UNESCAPE and e.args:
                return {Prov(p.decodes + 1, False, p.source, p.steps + (UNESCAPE,)) for p in self.prov(e.args[0])}
            if cn in ('util.lower', 'lower') and e.args:
                return {Prov(p.decodes, True, p.source, p.steps + (LOWER,)) for p in self.prov(e.args[0])}
            if cn in ('cast', 'typing.cast', 'str') and e.args:
                return self.prov(e.args[-1])
            if isinstance(f, ast.Attribute) and f.attr in PRESERVING_METHODS:
                return {Prov(p.decodes, p.lowered, p.source, p.steps + (f'.{f.attr}({", ".join(unparse(a) for a in e.args)})',))
                        for p in self.prov(f.value)}
            if isinstance(f, ast.Attribute) and f.attr == 'lower' and not e.args:
                return {Prov(p.decodes, True, p.source, p.steps + ('str.lower',)) for p in self.prov(f.value)}
            # package function / method: inline its return expressions
            callee = self._resolve(e)
            if callee is not None and self.depth < 3:
                cmod, cfn, ccls = callee
                params = [a.arg for a in cfn.args.args]
                if params and params[0] in ('self', 'cls'):
                    params = params[1:]
                bind = {}
                for pn, a in zip(params, e.args):
                    bind[pn] = self.prov(a)
                for kw in e.keywords:
                    if kw.arg:
                        bind[kw.arg] = self.prov(kw.value)
                sub = StrFlow(self.src, cmod, cfn, ccls, bind, self.depth + 1)
                out = set()
                for r in ast.walk(cfn):
                    if isinstance(r, ast.Return) and r.value is not None:
                        out |= sub.prov(r.value)
                return out
            return set()
        if isinstance(e, ast.Attribute):
            return set()
        if isinstance(e, (ast.Tuple, ast.List)):
            out = set()
            for x in e.elts:
                out |= self.prov(x)
            return out
        return set()

    def _group_of(self, recv: ast.AST, group) -> set[Prov] | None:
        """Provenance of group `group` of match object / groupdict `recv`."""
        if not isinstance(recv, ast.Name):
            return None
        is_param = recv.id in [a.arg for a in self.fn.args.args]
        if recv.id in self.bindings:
            # a match object handed to an inlined helper
            inner = self.bindings[recv.id]
            if inner:
                return {Prov(p.decodes, p.lowered, f'group {group!r} of {p.source}', p.steps) for p in inner}
            return {Prov(0, False, f'group {group!r} of parameter {recv.id}')}
        src = self._match_source(recv)
        if src is None:
            if is_param or recv.id in self.loops or any(
                    isinstance(d, ast.Call) and isinstance(d.func, ast.Attribute) and d.func.attr == 'groupdict'
                    for d in self.defs.get(recv.id, [])):
                return {Prov(0, False, f'group {group!r} of {recv.id}')}
            return None
        if not src:
            return {Prov(0, False, f'group {group!r} of {recv.id}')}
        # text matched out of already-processed text keeps that text's state
        return {Prov(p.decodes, p.lowered, f'group {group!r} of {recv.id} <- {p.source}', p.steps) for p in src}

    def _resolve(self, call: ast.Call):
        f = call.func
        if isinstance(f, ast.Attribute) and isinstance(f.value, ast.Name) and f.value.id in ('self', 'cls') and self.cls:
            q = self.src.find_method(f'{self.mod.name}.{self.cls}', f.attr)
            if q:
                m, fn = self.src.func(q)
                return m, fn, q.split('.')[1]
        if isinstance(f, ast.Name) and f.id in self.mod.functions:
            return self.mod, self.mod.functions[f.id], None
        if isinstance(f, ast.Attribute) and isinstance(f.value, ast.Name):
            target = self.mod.module_alias_of(f.value.id)
            if target in self.src.mods and f.attr in self.src.mods[target].functions:
                return self.src.mods[target], self.src.mods[target].functions[f.attr], None
        return None


def caller_bindings(src: SourceModel, mod: Module, fn: ast.FunctionDef, cls: str | None) -> dict:
    """Provenance of the text parameters of a private helper, from the arguments of its call sites in the same class
    (or module): param name -> set[Prov]. Only parameters that receive text derived from match groups are bound."""
    out: dict[str, set] = {}
    params = [a.arg for a in fn.args.args]
    text_params = {a.arg for a in fn.args.args if a.annotation is not None and unparse(a.annotation) in ('str', 'str | None')}
    if params and params[0] in ('self', 'cls'):
        params = params[1:]
    if not text_params:
        return out
    for q, g in mod.functions.items():
        if g is fn or (cls and not q.startswith(cls + '.')) or (not cls and '.' in q):
            continue
        sites = [c for c in ast.walk(g) if isinstance(c, ast.Call) and (
            (cls and isinstance(c.func, ast.Attribute) and c.func.attr == fn.name and isinstance(c.func.value, ast.Name)
             and c.func.value.id in ('self', 'cls')) or (not cls and isinstance(c.func, ast.Name) and c.func.id == fn.name))]
        if not sites:
            continue
        flow = StrFlow(src, mod, g, cls, depth=2)
        for c in sites:
            for pn, a in list(zip(params, c.args)) + [(k.arg, k.value) for k in c.keywords if k.arg]:
                if pn not in text_params:
                    continue
                ps = flow.prov(a)
                if ps:
                    out.setdefault(pn, set()).update(ps)
    return out


# ---- reaching definitions (structural, per use site) ------------------------------------------------------------
def _assigned_value(st: ast.stmt, name: str):
    if isinstance(st, ast.Assign):
        for t in st.targets:
            if isinstance(t, ast.Name) and t.id == name:
                return st.value
    if isinstance(st, ast.AnnAssign) and isinstance(st.target, ast.Name) and st.target.id == name and st.value is not None:
        return st.value
    if isinstance(st, ast.Expr) and isinstance(st.value, ast.Call) and isinstance(st.value.func, ast.Attribute) \
            and st.value.func.attr in ('append', 'extend') and isinstance(st.value.func.value, ast.Name) \
            and st.value.func.value.id == name and st.value.args:
        return ('append', st.value.args[0])
    return None


def _last_defs(block, name):
    """(values that may be the last definition of name at the end of block, complete?)."""
    vals = []
    for st in reversed(block):
        d, complete = _defs_in(st, name)
        vals += d
        if complete:
            return vals, True
    return vals, False


def _defs_in(st, name):
    v = _assigned_value(st, name)
    if isinstance(v, tuple):        # list.append: adds, does not replace
        return [v[1]], False
    if v is not None:
        return [v], True
    if isinstance(st, ast.If):
        a, ca = _last_defs(st.body, name)
        b, cb = _last_defs(st.orelse, name)
        return a + b, ca and cb
    if isinstance(st, (ast.For, ast.While)):
        a, _ = _last_defs(st.body, name)
        b, _ = _last_defs(st.orelse, name)
        # every definition inside a loop may be the last one
        inner = [x for n in ast.walk(st) if isinstance(n, ast.stmt) and n is not st
                 for x in [_assigned_value(n, name)] if x is not None]
        inner = [x[1] if isinstance(x, tuple) else x for x in inner]
        return list({id(x): x for x in a + b + inner}.values()), False
    if isinstance(st, ast.Try):
        vals = []
        for blk in [st.body, st.orelse, st.finalbody] + [h.body for h in st.handlers]:
            a, _ = _last_defs(blk, name)
            vals += a
        return vals, False
    if isinstance(st, (ast.With, ast.AsyncWith)):
        return _last_defs(st.body, name)
    return [], False


def _reaching(self, name: str, use: ast.AST):
    parents = self.mod.parents
    # statement containing the use
    cur = use
    while cur is not None and not isinstance(cur, ast.stmt):
        cur = parents.get(cur)
    if cur is None:
        return self.defs.get(name, [])
    vals = []
    while cur is not None and cur is not self.fn:
        par = parents.get(cur)
        if par is None:
            break
        block = None
        for fld in ('body', 'orelse', 'finalbody'):
            b = getattr(par, fld, None)
            if isinstance(b, list) and cur in b:
                block = b
        if block is None and isinstance(par, ast.ExceptHandler):
            block = par.body
        if block is not None:
            idx = block.index(cur)
            d, complete = _last_defs(block[:idx], name)
            vals += d
            if complete:
                return vals
        if isinstance(par, (ast.For, ast.While)):
            # loop-carried definitions
            inner = [x for n in ast.walk(par) if isinstance(n, ast.stmt) for x in [_assigned_value(n, name)]
                     if x is not None]
            vals += [x[1] if isinstance(x, tuple) else x for x in inner]
        cur = par
    return list({id(x): x for x in vals}.values())


StrFlow._reaching = _reaching
