"""Exception-escape analysis: which exception types can leave an entry point.

Events of a function = explicit raises + partial operations of a catalogue (int/float/chr/datetime/decode/next/
re.compile/constant-dict subscripts/possibly-unbound locals); each event is discharged locally by an enclosing handler,
by a language / interval argument, or propagates to the callers, where the handlers around each call site (taken from the
type-resolved call graph) filter it.  What reaches an entry point is compared with the documented exception types.
"""
from __future__ import annotations

import ast
import builtins
from dataclasses import dataclass, field

from . import miniev, rx
from .core import AnalysisError
from .pathwalk import Domain, Walker
from .srcmodel import call_name, unparse, walk_no_nested

PKG_EXC = {'SelectorSyntaxError': Exception, 're.error': Exception, 'error': Exception}
INT_WS = r'[ \t\n\r\f\v]*'


def exc_class(name: str):
    name = name.split('.')[-1] if name not in PKG_EXC else name
    if name in PKG_EXC:
        return type(name, (PKG_EXC[name],), {})
    c = getattr(builtins, name, None)
    return c if isinstance(c, type) and issubclass(c, BaseException) else None


def catches(handler_type: ast.AST | None, exc: str) -> bool:
    if handler_type is None:
        return True
    names = [unparse(e) for e in handler_type.elts] if isinstance(handler_type, ast.Tuple) else [unparse(handler_type)]
    ec = exc_class(exc)
    for n in names:
        short = n.split('.')[-1]
        if short == exc.split('.')[-1]:
            return True
        hc = exc_class(n)
        if hc is not None and ec is not None:
            try:
                if issubclass(ec, hc):
                    return True
            except TypeError:
                pass
    return False


@dataclass
class Event:
    exc: str
    kind: str                 # 'raise' | 'int' | 'float' | 'chr' | 'datetime' | 'decode' | 'next' | 're.compile' | 'dict-key' | 'unbound'
    func: str                 # qualified function where it originates
    where: str
    text: str
    discharged: str | None = None     # reason, if discharged at the site
    path: tuple = ()


def handlers_around(mod, fn, node_or_line) -> list[ast.Try]:
    """Try statements of `fn` whose *body* contains the node / source line (innermost first)."""
    line = node_or_line if isinstance(node_or_line, int) else node_or_line.lineno
    out = []
    for t in ast.walk(fn):
        if isinstance(t, ast.Try) and t.body:
            lo = t.body[0].lineno
            hi = max(getattr(s, 'end_lineno', s.lineno) for s in t.body)
            if lo <= line <= hi:
                out.append(t)
    out.sort(key=lambda t: -t.body[0].lineno)
    return out


def locally_caught(mod, fn, node_or_line, exc: str) -> bool:
    for t in handlers_around(mod, fn, node_or_line):
        for h in t.handlers:
            if catches(h.type, exc):
                # a handler that re-raises with a bare `raise` does not discharge
                if any(isinstance(x, ast.Raise) and x.exc is None for x in ast.walk(h)):
                    return False
                return True
    return False


# ---- definite assignment ------------------------------------------------------------------------------------------
def unbound_locals(fn: ast.FunctionDef) -> list[tuple[str, ast.AST]]:
    """Local names that may be read before assignment on some path (plain-name branch conditions are correlated)."""
    params = {a.arg for a in fn.args.args + fn.args.kwonlyargs + fn.args.posonlyargs}
    if fn.args.vararg:
        params.add(fn.args.vararg.arg)
    if fn.args.kwarg:
        params.add(fn.args.kwarg.arg)
    assigned_somewhere = set()
    for n in walk_no_nested(fn):
        if isinstance(n, ast.Name) and isinstance(n.ctx, ast.Store):
            assigned_somewhere.add(n.id)
        elif isinstance(n, (ast.FunctionDef, ast.ClassDef)):
            assigned_somewhere.add(n.name)
        elif isinstance(n, ast.ExceptHandler) and n.name:
            assigned_somewhere.add(n.name)
        elif isinstance(n, (ast.Import, ast.ImportFrom)):
            for a in n.names:
                assigned_somewhere.add(a.asname or a.name.split('.')[0])
    # names assigned inside comprehensions are scoped there
    comp_targets = set()
    for n in walk_no_nested(fn):
        if isinstance(n, (ast.ListComp, ast.SetComp, ast.DictComp, ast.GeneratorExp)):
            for g in n.generators:
                comp_targets.update(x.id for x in ast.walk(g.target) if isinstance(x, ast.Name))
    local = (assigned_somewhere - params)
    problems = []

    def loads(node):
        skip = set()
        for c in ast.walk(node):
            if isinstance(c, (ast.ListComp, ast.SetComp, ast.DictComp, ast.GeneratorExp)):
                for g in c.generators:
                    skip.update(id(x) for x in ast.walk(g.target))
        for c in ast.walk(node):
            if isinstance(c, (ast.FunctionDef, ast.Lambda)) and c is not node:
                continue
            if isinstance(c, ast.Name) and isinstance(c.ctx, ast.Load) and c.id in local and id(c) not in skip:
                yield c

    def stores(node):
        for c in ast.walk(node):
            if isinstance(c, ast.Name) and isinstance(c.ctx, ast.Store):
                yield c.id
        if isinstance(node, (ast.FunctionDef, ast.ClassDef)):
            yield node.name

    # plain names tested at least twice (correlated guards like `if is_html:` ... `if is_html:`)
    tests = {}
    for n in walk_no_nested(fn):
        if isinstance(n, (ast.If, ast.While)):
            t = n.test
            while isinstance(t, ast.UnaryOp) and isinstance(t.op, ast.Not):
                t = t.operand
            if isinstance(t, ast.Name):
                tests[t.id] = tests.get(t.id, 0) + 1
    guards = {k for k, v in tests.items() if v >= 2}

    class DA(Domain):
        def is_state(self, x):
            return isinstance(x, tuple) and len(x) == 2

        def definition(self, state, node):
            return (state[0] | {node.name}, state[1])

        def merge(self, states):
            # must-analysis: states with the same guard facts are joined by intersecting the assigned sets
            by = {}
            for a, f in states:
                by[f] = a if f not in by else (by[f] & a)
            return {(a, f) for f, a in by.items()}

        def check(self, state, node):
            """Report loads of unassigned locals in evaluation order; returns the names the expression definitely binds
            itself (`x := ...` outside the conditionally evaluated parts)."""
            skip = {id(c) for c in loads(node)}        # loads() filters comprehension targets and non-locals

            def ev(e, have):
                if e is None:
                    return have
                if isinstance(e, ast.Name):
                    if isinstance(e.ctx, ast.Load) and id(e) in skip and e.id not in have and e.id not in comp_targets:
                        problems.append((e.id, e))
                    return have
                if isinstance(e, ast.NamedExpr):
                    return ev(e.value, have) | {e.target.id}
                if isinstance(e, ast.IfExp):
                    h = ev(e.test, have)
                    ev(e.body, h)
                    ev(e.orelse, h)
                    return h
                if isinstance(e, ast.BoolOp):
                    h = ev(e.values[0], have)
                    cur = h
                    for v in e.values[1:]:
                        cur = ev(v, cur)
                    return h
                if isinstance(e, (ast.ListComp, ast.SetComp, ast.DictComp, ast.GeneratorExp)):
                    h = ev(e.generators[0].iter, have)
                    cur = h
                    for i, g in enumerate(e.generators):
                        if i:
                            cur = ev(g.iter, cur)
                        for c in g.ifs:
                            cur = ev(c, cur)
                    for part in ((e.key, e.value) if isinstance(e, ast.DictComp) else (e.elt,)):
                        cur = ev(part, cur)
                    return h
                if isinstance(e, ast.Lambda):
                    ev(e.body, have)
                    return have
                cur = have
                for c in ast.iter_child_nodes(e):
                    cur = ev(c, cur)
                return cur
            return frozenset(ev(node, set(state[0]))) - state[0]

        def stmt(self, state, node):
            if isinstance(node, ast.Assign):
                self.check(state, node.value)
            elif isinstance(node, ast.AugAssign):
                self.check((state[0] - {node.target.id} if isinstance(node.target, ast.Name) else state[0], state[1]), node.value)
                if isinstance(node.target, ast.Name) and node.target.id in local and node.target.id not in state[0]:
                    problems.append((node.target.id, node.target))
            elif isinstance(node, ast.AnnAssign):
                if node.value is not None:
                    self.check(state, node.value)
                else:
                    return state
            else:
                self.check(state, node)
            new = set(stores(node))
            facts = frozenset((k, v) for k, v in state[1] if k not in new)
            return (state[0] | frozenset(new), facts)

        def branch(self, state, test):
            bound = self.check(state, test)
            if bound:
                state = (state[0] | bound, frozenset((k, v) for k, v in state[1] if k not in bound))
            t, neg = test, False
            while isinstance(t, ast.UnaryOp) and isinstance(t.op, ast.Not):
                t, neg = t.operand, not neg
            if not isinstance(t, ast.Name) or t.id not in guards:
                return state, state
            facts = dict(state[1])
            if t.id in facts:
                v = facts[t.id] != neg
                return (state, None) if v else (None, state)
            return ((state[0], frozenset({**facts, t.id: not neg}.items())),
                    (state[0], frozenset({**facts, t.id: neg}.items())))

        def for_header(self, state, node):
            self.check(state, node.iter)
            new = set(stores(node.target))
            return (state[0] | frozenset(new), frozenset((k, v) for k, v in state[1] if k not in new))

        def on_return(self, state, node):
            if node.value is not None:
                self.check(state, node.value)
            return state

        def on_raise(self, state, node):
            self.check(state, node)
            return state

        def enter_with(self, state, node):
            new = set()
            for i in node.items:
                self.check(state, i.context_expr)
                if i.optional_vars is not None:
                    new.update(stores(i.optional_vars))
            return (state[0] | frozenset(new), state[1])

        def handler(self, state, node):
            return (state[0] | ({node.name} if node.name else frozenset()), state[1])
    Walker(DA()).block(fn.body, {(frozenset(), frozenset())})
    seen, out = set(), []
    for name, node in problems:
        if (name, node.lineno) not in seen:
            seen.add((name, node.lineno))
            out.append((name, node))
    return out


# ---- interval of a variable at a use site ----------------------------------------------------------------------------
def interval_at(fn: ast.FunctionDef, var: str, site: ast.AST, seed, const_ev):
    """Hull of the intervals `var` can have when `site` is evaluated.  `seed(call)` gives the interval of an
    `int(...)`-like defining call; comparisons of `var` with constants refine it along the path."""
    NEG, POS = miniev.NEG_INF, miniev.POS_INF
    found = []

    def refine(iv, test, truth):
        """Refine interval by `test` being `truth` (only comparisons of var with constants; and/or/not)."""
        if iv is None:
            return None
        if isinstance(test, ast.UnaryOp) and isinstance(test.op, ast.Not):
            return refine(iv, test.operand, not truth)
        if isinstance(test, ast.BoolOp):
            conj = isinstance(test.op, ast.And)
            if conj == truth:
                for v in test.values:
                    iv = refine(iv, v, truth)
                    if iv is None:
                        return None
                return iv
            parts = [refine(iv, v, truth) for v in test.values]
            parts = [p for p in parts if p is not None]
            if not parts:
                return None
            return (min(p[0] for p in parts), max(p[1] for p in parts))
        if isinstance(test, ast.Compare):
            items = [test.left] + test.comparators
            for l, op, r in zip(items, test.ops, items[1:]):
                k, o = None, None
                if isinstance(l, ast.Name) and l.id == var:
                    k, o = const_ev(r), type(op)
                elif isinstance(r, ast.Name) and r.id == var:
                    k = const_ev(l)
                    o = {ast.Lt: ast.Gt, ast.Gt: ast.Lt, ast.LtE: ast.GtE, ast.GtE: ast.LtE}.get(type(op), type(op))
                if not isinstance(k, int) or isinstance(k, bool):
                    continue
                lo, hi = iv
                if not truth:
                    o = {ast.Lt: ast.GtE, ast.GtE: ast.Lt, ast.Gt: ast.LtE, ast.LtE: ast.Gt, ast.Eq: ast.NotEq,
                         ast.NotEq: ast.Eq}.get(o, None)
                if o is ast.Lt:
                    hi = min(hi, k - 1)
                elif o is ast.LtE:
                    hi = min(hi, k)
                elif o is ast.Gt:
                    lo = max(lo, k + 1)
                elif o is ast.GtE:
                    lo = max(lo, k)
                elif o is ast.Eq:
                    lo, hi = max(lo, k), min(hi, k)
                elif o is ast.NotEq:
                    if lo == k:
                        lo += 1
                    if hi == k:
                        hi -= 1
                if lo > hi:
                    return None
                iv = (lo, hi)
        return iv

    class IV(Domain):
        def is_state(self, x):
            return x is None or isinstance(x, tuple)

        def look(self, state, node):
            if any(x is site for x in ast.walk(node)):
                found.append(state)

        def stmt(self, state, node):
            self.look(state, node)
            if isinstance(node, ast.Assign) and any(isinstance(t, ast.Name) and t.id == var for t in node.targets):
                v = node.value
                if isinstance(v, ast.Call):
                    s = seed(v)
                    return s if s is not None else (NEG, POS)
                iv = miniev.interval(v, {var: state} if state else {}, lambda e: const_ev(e))
                return iv if iv is not None else (NEG, POS)
            if isinstance(node, ast.AugAssign) and isinstance(node.target, ast.Name) and node.target.id == var:
                return (NEG, POS)
            return state

        def branch(self, state, test):
            self.look(state, test)
            if state is None:
                return state, state
            a, b = refine(state, test, True), refine(state, test, False)
            return (a if a is not None else None, b if b is not None else None) if (a is not None or b is not None) else (state, state)

        def on_return(self, state, node):
            self.look(state, node)
            return state
    Walker(IV()).block(fn.body, {('unset',)})
    ivs = [s for s in found if isinstance(s, tuple) and len(s) == 2]
    if not ivs or len(ivs) != len(found):
        return None
    return (min(i[0] for i in ivs), max(i[1] for i in ivs))


# standard-library functions that raise on part of their argument domain: exception, number of arguments from which the call is
# total (a default is given; None = never), what the partial domain is
EXT_RAISERS = {
    'unicodedata.name': ('ValueError', 2, 'code points without a name (controls, unassigned, surrogates) raise unless a default is given'),
    'unicodedata.digit': ('ValueError', 2, 'characters that are not digits raise unless a default is given'),
    'unicodedata.decimal': ('ValueError', 2, 'characters that are not decimals raise unless a default is given'),
    'unicodedata.numeric': ('ValueError', 2, 'characters without a numeric value raise unless a default is given'),
    'unicodedata.lookup': ('KeyError', None, 'unknown character names raise'),
    'json.loads': ('ValueError', None, 'text that is not JSON raises'),
    'ast.literal_eval': ('ValueError', None, 'text that is not a literal raises (SyntaxError as well)'),
    'codecs.lookup': ('LookupError', None, 'unknown encodings raise'),
    'codecs.decode': ('UnicodeDecodeError', None, 'undecodable bytes raise'),
    'codecs.encode': ('UnicodeEncodeError', None, 'unencodable text (lone surrogates) raises'),
    'math.sqrt': ('ValueError', None, 'negative arguments raise'),
    'math.log': ('ValueError', None, 'arguments <= 0 raise'),
    'math.log10': ('ValueError', None, 'arguments <= 0 raise'),
    'math.log2': ('ValueError', None, 'arguments <= 0 raise'),
    'math.factorial': ('ValueError', None, 'negative arguments raise'),
    'decimal.Decimal': ('ArithmeticError', None, 'text that is not a number raises InvalidOperation'),
    'fractions.Fraction': ('ValueError', None, 'text that is not a fraction raises'),
    'ipaddress.ip_address': ('ValueError', None, 'text that is not an address raises'),
    'uuid.UUID': ('ValueError', None, 'text that is not a UUID raises'),
    'base64.b64decode': ('ValueError', None, 'malformed input raises binascii.Error'),
    'binascii.unhexlify': ('ValueError', None, 'malformed input raises binascii.Error'),
    'bytes.fromhex': ('ValueError', None, 'malformed input raises'),
    'operator.index': ('TypeError', None, 'non-integers raise'),
    'time.strptime': ('ValueError', None, 'text that does not match the format raises'),
    'struct.unpack': ('error', None, 'a buffer of the wrong size raises'),
    'importlib.import_module': ('ImportError', None, 'unknown modules raise'),
    'locale.setlocale': ('error', None, 'unsupported locales raise'),
    'shlex.split': ('ValueError', None, 'unbalanced quotes raise'),
    'urllib.parse.urlsplit': ('ValueError', None, 'malformed IPv6 netlocs raise'),
    'urllib.parse.urlparse': ('ValueError', None, 'malformed IPv6 netlocs raise'),
}


class ExcFlow:
    def __init__(self, ctx, cg):
        self.ctx = ctx
        self.cg = cg
        self.src = ctx.src
        self.inv = ctx.consts
        self._events: dict[str, list[Event]] = {}
        self._escape_memo: dict[str, dict] = {}
        self.soft: list[dict] = []

    # ---- helpers ---------------------------------------------------------------------------------------------
    def fn_of(self, q):
        mn, _, rest = q.partition('.')
        mod = self.src.mods.get(mn)
        if mod is None:
            return None, None
        return mod, mod.functions.get(rest)

    def _print_raw_pieces(self, mod, fn, call: ast.Call) -> list[ast.AST]:
        """The argument pieces of a print() call that reach the stream as they are (not constant, not a number, not escaped)."""
        raw: list[ast.AST] = []

        def piece(e, depth=0):
            if isinstance(e, ast.Constant) or self.inv.folder.try_ev(mod.name, e, default=None) is not None:
                return
            if isinstance(e, ast.JoinedStr):
                for v in e.values:
                    piece(v, depth)
                return
            if isinstance(e, ast.FormattedValue):
                if e.conversion in (ord('r'), ord('a')):
                    return
                piece(e.value, depth)
                return
            if isinstance(e, ast.Call) and call_name(e) in ('repr', 'ascii', 'len', 'int', 'id', 'hash', 'ord'):
                return
            if isinstance(e, ast.BinOp) and isinstance(e.op, ast.Mod):
                tmpl = self.inv.folder.try_ev(mod.name, e.left, default=None)
                if isinstance(tmpl, str) and '%s' not in tmpl and '%(' not in tmpl.replace('%%', ''):
                    return                                   # %r / %a / numeric conversions only: escaped
            if isinstance(e, ast.Call) and isinstance(e.func, ast.Attribute) and e.func.attr == 'format':
                tmpl = self.inv.folder.try_ev(mod.name, e.func.value, default=None)
                if isinstance(tmpl, str):
                    import string
                    try:
                        fields = [(name, conv) for _, name, _, conv in string.Formatter().parse(tmpl) if name is not None]
                    except ValueError:
                        fields = None
                    if fields is not None and all(conv in ('r', 'a') for _, conv in fields):
                        return
                    for a in list(e.args) + [k.value for k in e.keywords]:
                        piece(a, depth)
                    return
            if isinstance(e, ast.BinOp) and isinstance(e.op, (ast.Add, ast.Mod, ast.Mult)):
                piece(e.left, depth)
                piece(e.right, depth)
                return
            if isinstance(e, ast.IfExp):
                piece(e.body, depth)
                piece(e.orelse, depth)
                return
            if isinstance(e, ast.Starred):
                piece(e.value, depth)
                return
            t = self.ctx.types.type_of(mod.name, e)
            names = set(self.ctx.types.instance_names(t)) if t is not None else set()
            if names and names <= {'builtins.int', 'builtins.bool', 'builtins.float'}:
                return
            if isinstance(e, ast.Name) and depth < 3:
                d = self.single_def(fn, e)
                if d is not e:
                    piece(d, depth + 1)
                    return
            raw.append(e)
        for a in call.args:
            piece(a)
        return raw

    _STR_METHODS = frozenset('strip lstrip rstrip replace lower upper casefold title capitalize swapcase expandtabs join format '
                             'center ljust rjust zfill removeprefix removesuffix translate'.split())

    def _pattern_derived(self, fn, e: ast.AST, depth=0) -> bool:
        """Is the expression (a piece of) the selector text: a name / attribute `pattern`, `.string` / `.group()` of a match,
        a slice, a concatenation or a str-to-str method of such text, through local definitions (every plain definition of a
        local counts). A call of anything else (a helper that is handed the match object) is not followed: no verdict."""
        if isinstance(e, ast.Name):
            if e.id == 'pattern':
                return True
            params = {a.arg for a in fn.args.posonlyargs + fn.args.args + fn.args.kwonlyargs}
            if e.id in params or depth >= 3:
                return False
            return any(isinstance(st, ast.Assign) and any(isinstance(t, ast.Name) and t.id == e.id for t in st.targets)
                       and self._pattern_derived(fn, st.value, depth + 1) for st in ast.walk(fn))
        if isinstance(e, ast.Attribute):
            return e.attr in ('pattern', 'string')
        if isinstance(e, ast.Subscript):
            return self._pattern_derived(fn, e.value, depth)
        if isinstance(e, ast.Call):
            if isinstance(e.func, ast.Attribute) and e.func.attr == 'group':
                return True
            if isinstance(e.func, ast.Attribute) and e.func.attr in self._STR_METHODS:
                return self._pattern_derived(fn, e.func.value, depth) or any(self._pattern_derived(fn, a, depth) for a in e.args)
            cn = call_name(e)
            if cn in ('str', 'format') or cn.split('.')[0] == 'textwrap':
                return any(self._pattern_derived(fn, a, depth) for a in e.args)
            return False
        if isinstance(e, (ast.BinOp, ast.JoinedStr, ast.FormattedValue, ast.IfExp, ast.Starred)):
            return any(self._pattern_derived(fn, c, depth) for c in ast.iter_child_nodes(e) if isinstance(c, ast.expr))
        return False

    def single_def(self, fn, e):
        """A local name with exactly one definition in fn (and not a parameter) stands for the defining expression."""
        for _ in range(3):
            if not isinstance(e, ast.Name):
                break
            params = {a.arg for a in fn.args.posonlyargs + fn.args.args + fn.args.kwonlyargs}
            defs = [st for st in ast.walk(fn) if isinstance(st, (ast.Assign, ast.AnnAssign, ast.AugAssign, ast.For, ast.NamedExpr,
                                                                 ast.comprehension, ast.withitem))
                    and any(isinstance(n, ast.Name) and n.id == e.id and isinstance(n.ctx, ast.Store) for n in ast.walk(st)
                            if not isinstance(n, (ast.FunctionDef, ast.Lambda)))]
            defs = [d for d in defs if not isinstance(d, ast.For) or any(
                isinstance(n, ast.Name) and n.id == e.id for n in ast.walk(d.target))]
            if e.id in params or len(defs) != 1 or not isinstance(defs[0], ast.Assign) or len(defs[0].targets) != 1 \
                    or not isinstance(defs[0].targets[0], ast.Name):
                break
            e = defs[0].value
        return e

    def receivers(self, mod, fn, recv, depth=0):
        """Inventory regexes a receiver expression can denote (module constant, conditional, single-definition local)."""
        if isinstance(recv, ast.IfExp):
            return self.receivers(mod, fn, recv.body, depth) + self.receivers(mod, fn, recv.orelse, depth)
        if isinstance(recv, ast.Name):
            r = self.inv.find(f'{mod.name}.{recv.id}')
            if r is not None:
                return [r]
            if fn is not None and depth < 3:
                d = self.single_def(fn, recv)
                if d is not recv:
                    return self.receivers(mod, fn, d, depth + 1)
        return []

    def regex_of_match_var(self, mod, fn, name: str):
        """Inventory regexes whose match object `name` may be in fn (assigned from REGEX.match/search/fullmatch, a loop
        over finditer, or - for a callback parameter - the regexes whose .sub() receives the function)."""
        out = []
        for st in walk_no_nested(fn):
            v = None
            if isinstance(st, ast.Assign) and any(isinstance(t, ast.Name) and t.id == name for t in st.targets):
                v = st.value
            elif isinstance(st, ast.For) and isinstance(st.target, ast.Name) and st.target.id == name:
                v = st.iter
            if v is None:
                continue
            if isinstance(v, ast.Call) and call_name(v) in ('cast', 'typing.cast') and len(v.args) == 2:
                v = v.args[1]
            if isinstance(v, ast.Call) and isinstance(v.func, ast.Attribute) and v.func.attr in ('match', 'search', 'fullmatch', 'finditer'):
                for r in self.receivers(mod, fn, v.func.value):
                    out.append((r, v.func.attr))
        if not out and name in [a.arg for a in fn.args.args]:
            # callback of REGEX.sub(fn, ...): every use of the function's name in the module must be such a call
            uses = [n for n in ast.walk(mod.tree) if isinstance(n, ast.Name) and n.id == fn.name and isinstance(n.ctx, ast.Load)]
            found = []
            for u in uses:
                c = mod.parents.get(u)
                if isinstance(c, ast.Call) and isinstance(c.func, ast.Attribute) and c.func.attr in ('sub', 'subn') and c.args \
                        and c.args[0] is u:
                    q = mod.enclosing_function(c)
                    rs = self.receivers(mod, mod.functions.get(q) if q else None, c.func.value)
                    if not rs:
                        return []
                    found.extend((r, 'sub') for r in rs)
                else:
                    return []
            out = found
        return out

    def group_language_ok(self, mod, fn, arg: ast.AST, domain_rx: str, domain_flags: int, max_len: int | None):
        """arg = M.group(g)[slice]: every regex M can come from has group g (after the slice) inside `domain`."""
        e = self.single_def(fn, arg)
        drop_first = drop_last = 0
        if isinstance(e, ast.Subscript) and isinstance(e.slice, ast.Slice):
            lo = self.inv.folder.try_ev(mod.name, e.slice.lower, default=0) if e.slice.lower is not None else 0
            hi = self.inv.folder.try_ev(mod.name, e.slice.upper, default=0) if e.slice.upper is not None else 0
            if not isinstance(lo, int) or not isinstance(hi, int) or lo < 0 or hi > 0 or e.slice.step is not None:
                return None, 'unsupported slice'
            drop_first, drop_last = lo, -hi
            e = self.single_def(fn, e.value)
        if not (isinstance(e, ast.Call) and isinstance(e.func, ast.Attribute) and e.func.attr == 'group'
                and isinstance(e.func.value, ast.Name) and e.args):
            return None, 'argument is not a match group'
        g = self.inv.folder.try_ev(mod.name, e.args[0], default=None)
        regs = self.regex_of_match_var(mod, fn, e.func.value.id)
        if not regs or g is None:
            return None, 'match object not traced to an inventoried regex'
        import re._parser as _sp
        if isinstance(g, str):
            regs = [(r, how) for r, how in regs if g in _sp.parse(r.pattern, r.flags).state.groupdict]
            if not regs:
                return None, f'no regex with group {g!r}'
        for r, how in regs:
            s = rx.System()
            try:
                G = s.add('g', r.pattern, r.flags, group=g)
                D = s.add('d', domain_rx, domain_flags)
                s.freeze()
                w = rx.included(G, D, drop_first=drop_first, drop_last=drop_last)
                if w is not None:
                    return False, f'group {g!r} of {r.name} can be {w!r}, outside the domain of the conversion'
                if max_len is not None:
                    n = G.longest_run(frozenset())
                    if n is None:
                        return False, f'group {g!r} of {r.name} has no length bound (CPython refuses > 4300 digits)'
                    if n - drop_first - drop_last > max_len:
                        return False, f'group {g!r} of {r.name} can be {n} characters long'
            except rx.Unsupported as ex:
                return None, str(ex)
        return True, f'group {g!r} of {", ".join(r.name for r, _ in regs)} is inside the domain'

    # ---- events of one function -----------------------------------------------------------------------------
    def events(self, q: str) -> list[Event]:
        if q in self._events:
            return self._events[q]
        out: list[Event] = []
        self._events[q] = out
        mod, fn = self.fn_of(q)
        if fn is None:
            return out
        folder = self.inv.folder

        def ev_const(e):
            return folder.try_ev(mod.name, e, default=None)

        def add(exc, kind, node, discharged=None):
            e = Event(exc, kind, q, mod.where(node), unparse(node)[:90], discharged)
            if discharged is None and locally_caught(mod, fn, node, exc):
                e.discharged = f'enclosing try/except {exc} in {q}'
            out.append(e)
            return e
        for n in walk_no_nested(fn):
            if isinstance(n, ast.Raise):
                if n.exc is None:
                    continue
                name = call_name(n.exc) if isinstance(n.exc, ast.Call) else unparse(n.exc)
                # a factory (`raise self.make_error(...)`) or a variable: the class comes from the inferred type
                t = self.ctx.types.type_of(mod.name, n.exc)
                insts = [x for x in self.ctx.types.instance_names(t) if x not in ('None',)] if t is not None else []
                if len(insts) == 1 and insts[0] not in ('Any', 'callable', 'tuple') and exc_class(name.split('.')[-1]) is None \
                        and '.' in insts[0]:
                    name = insts[0]
                add(name.split('.')[-1], 'raise', n)
            if not isinstance(n, ast.Call):
                # subscripts of module-level constant dicts with a run-time key
                if isinstance(n, ast.Subscript) and isinstance(n.ctx, ast.Load) and isinstance(n.value, ast.Name):
                    node = folder.env_nodes[mod.name].get(n.value.id)
                    if isinstance(node, ast.Dict) and ev_const(n.slice) is None:
                        ok, why = self.dict_key_ok(mod, fn, n, node)
                        add('KeyError', 'dict-key', n, why if ok else None).text += '' if ok else f'  [{why}]'

                continue
            cn = call_name(n)
            if cn == 'int' and n.args and ev_const(n.args[0]) is None:
                base = ev_const(n.args[1]) if len(n.args) > 1 else 10
                digits = '0-9a-fA-F' if base == 16 else '0-9'
                dom = f'{INT_WS}[+-]?[{digits}]+(?:_[{digits}]+)*{INT_WS}'
                ok, why = self.group_language_ok(mod, fn, n.args[0], dom, 0, 4300 if base not in (2, 4, 8, 16, 32) else None)
                # ok is None: where the text comes from could not be traced (a helper parameter, a table of converters) - no verdict,
                # listed as undecided; a traced regex group whose language leaves the domain is a violation with a witness
                add('ValueError', 'int', n, why if ok else (f'UNDECIDED: {why}' if ok is None else None)).text += '' if ok else f'  [{why}]'
            elif cn == 'float' and n.args and ev_const(n.args[0]) is None:
                dom = f'{INT_WS}[+-]?(?:[0-9]+(?:_[0-9]+)*\\.?(?:[0-9]+(?:_[0-9]+)*)?|\\.[0-9]+(?:_[0-9]+)*)(?:[eE][+-]?[0-9]+(?:_[0-9]+)*)?{INT_WS}'
                ok, why = self.group_language_ok(mod, fn, n.args[0], dom, 0, None)
                add('ValueError', 'float', n, why if ok else (f'UNDECIDED: {why}' if ok is None else None)).text += '' if ok else f'  [{why}]'
            elif cn == 'chr' and n.args and ev_const(n.args[0]) is None:
                iv, why = self.chr_interval(mod, fn, n)
                ok = iv is not None and iv[0] >= 0 and iv[1] <= 0x10FFFF
                unknown = iv is None or (iv[0] == miniev.NEG_INF and iv[1] <= 0x10FFFF)       # nothing known about the lower end: the seed was not traced
                add('ValueError', 'chr', n, f'argument interval {list(iv)} (by {why})' if ok else (
                    f'UNDECIDED: argument interval {iv} ({why})' if unknown else None)).text += '' if ok else f'  [argument interval {iv} ({why})]'
            elif cn.split('.')[-1] in ('datetime', 'date') and cn.split('.')[0] in self.dt_names(mod) and n.args:
                penv = miniev.param_intervals(self.ctx.src, mod, fn, lambda mn_: (lambda e_: folder.try_ev(mn_, e_, default=None)))
                iv = miniev.interval(n.args[0], penv, ev_const)
                consts = [ev_const(a) for a in n.args[1:3]]
                ok = iv is not None and iv[0] >= 1 and iv[1] <= 9999 and all(isinstance(c, int) for c in consts) \
                    and len(consts) == 2 and 1 <= consts[0] <= 12 and 1 <= consts[1] <= (28 if consts[0] == 2 else 30 if consts[0] in (4, 6, 9, 11) else 31)
                why = f'year interval {list(iv) if iv else None}, month/day constants {consts}'
                add('ValueError', 'datetime', n, why if ok else None)
                if not ok:
                    add('OverflowError', 'datetime', n)
            elif isinstance(n.func, ast.Attribute) and n.func.attr in ('format', 'format_map') and not isinstance(
                    ev_const(n.func.value), str):
                # str.format on text that is not a constant: a stray `{` or `}` in the interpolated part raises
                # ValueError (KeyError / IndexError for an unknown field)
                recv = n.func.value
                dyn = isinstance(recv, ast.JoinedStr) or isinstance(recv, (ast.Name, ast.Attribute, ast.Subscript, ast.BinOp, ast.Call))
                if dyn:
                    # a template that is one of finitely many constants (a local with constant definitions, a parameter that
                    # every call site of the package binds to a constant) is checked by formatting each of them
                    tmpls = self.value_set(mod, fn, recv) if isinstance(recv, ast.Name) else None
                    if tmpls is None and isinstance(recv, ast.Name):
                        tmpls = self.param_values(mod, fn, recv.id)
                    why = None
                    if tmpls and all(isinstance(t, str) for t in tmpls) and n.func.attr == 'format' \
                            and not any(isinstance(a, ast.Starred) for a in n.args) and all(k.arg for k in n.keywords):
                        try:
                            for t in tmpls:
                                t.format(*['x'] * len(n.args), **{k.arg: 'x' for k in n.keywords})
                            why = f'template is one of {len(tmpls)} constant(s), each valid for {len(n.args)} positional argument(s)'
                        except (ValueError, IndexError, KeyError):
                            why = None
                    add('ValueError', 'format', n, why)
            elif cn.split('.')[-1] in ('strptime', 'fromisoformat') and cn.split('.')[0] in self.dt_names(mod):
                if any(ev_const(a) is None for a in n.args):
                    add('ValueError', 'datetime', n)
            elif isinstance(n.func, ast.Attribute) and n.func.attr == 'decode':
                has_err = len(n.args) > 1 or any(k.arg == 'errors' for k in n.keywords)
                errs = ev_const(n.args[1]) if len(n.args) > 1 else next((ev_const(k.value) for k in n.keywords if k.arg == 'errors'), None)
                ok = has_err and errs in ('replace', 'ignore', 'backslashreplace', 'surrogateescape')
                add('UnicodeDecodeError', 'decode', n, f'errors={errs!r}' if ok else None)
            elif cn == 'print' and n.args:
                # print() of text: a character the stream cannot encode (a lone surrogate on UTF-8) raises UnicodeEncodeError.
                # Pieces that are constants, numbers or escaped (!r / !a / repr() / ascii()) cannot; a raw piece that is derived
                # from the pattern text (the `pattern` parameter / attribute, a regex group of a match on it) can; any other raw
                # piece is listed as undecided (its origin is not traced).
                raw = self._print_raw_pieces(mod, fn, n)
                tainted = [p for p in raw if self._pattern_derived(fn, p)]
                if tainted:
                    add('UnicodeEncodeError', 'print', n).text += f'  [raw pattern text: {unparse(tainted[0])[:50]}]'
                elif raw:
                    add('UnicodeEncodeError', 'print', n, 'UNDECIDED: raw piece(s) ' + ', '.join(unparse(p)[:30] for p in raw[:3])
                        + ' not traced to the pattern text')
                else:
                    add('UnicodeEncodeError', 'print', n, 'every non-constant piece is a number or escaped with !r / !a / repr() / ascii()')
            elif cn == 'next' and len(n.args) == 1:
                add('StopIteration', 'next', n)
            elif self.ext_name(mod, n) == 'itertools.islice' and len(n.args) >= 2:
                # islice(it, stop) / islice(it, start, stop[, step]): negative numbers raise ValueError
                undecided = []
                for a in n.args[1:]:
                    v = ev_const(a)
                    if isinstance(a, ast.Constant) and a.value is None or (isinstance(v, int) and v >= 0):
                        continue
                    if isinstance(a, ast.Name) and self._guarded_nonnegative(mod, fn, n, a.id):
                        continue
                    if isinstance(a, ast.IfExp):
                        # `x if 0 < x else None`: each arm is a bound on its own - None / a non-negative constant, or the name the
                        # test has just shown positive
                        def arm_ok(arm, negate, _t=a.test):
                            v_ = ev_const(arm)
                            if (isinstance(arm, ast.Constant) and arm.value is None) or (isinstance(v_, int) and v_ >= 0):
                                return True
                            return isinstance(arm, ast.Name) and self._test_shows_nonnegative(mod, _t, arm.id, negate)
                        if arm_ok(a.body, False) and arm_ok(a.orelse, True):
                            continue
                    undecided.append(unparse(a))
                add('ValueError', 'stdlib', n, None if undecided else 'bounds are None, non-negative constants or tested non-negative').text += (
                    f'  [itertools.islice: a negative {undecided[0]} raises]' if undecided else '')
            elif self.ext_name(mod, n) in EXT_RAISERS:
                # a standard-library function that raises on part of its domain, called with a run-time argument
                xn = self.ext_name(mod, n)
                exc, safe_arity, what = EXT_RAISERS[xn]
                nargs = len(n.args) + len(n.keywords)
                if any(ev_const(a) is None for a in n.args) or not n.args:
                    ok = safe_arity is not None and nargs >= safe_arity
                    add(exc, 'stdlib', n, f'{xn} called with its default argument' if ok else None).text += '' if ok else f'  [{xn}: {what}]'
            elif isinstance(n.func, ast.Attribute) and n.func.attr == 'encode' and not isinstance(ev_const(n.func.value), str) \
                    and self._maybe_str(mod, n.func.value):
                has_err = len(n.args) > 1 or any(k.arg == 'errors' for k in n.keywords)
                errs = ev_const(n.args[1]) if len(n.args) > 1 else next((ev_const(k.value) for k in n.keywords if k.arg == 'errors'), None)
                ok = has_err and errs in ('replace', 'ignore', 'backslashreplace', 'surrogateescape', 'surrogatepass', 'xmlcharrefreplace', 'namereplace')
                add('UnicodeEncodeError', 'encode', n, f'errors={errs!r}' if ok else None)
            elif cn == 're.compile':
                r = [x for x in self.inv.regexes if x.node is n]
                unresolved = [u for u in self.inv.unresolved if u[0] == mod.where(n)]
                in_pattern_class = q.endswith('.__init__') and f'{mod.name}.{q.split(".", 1)[1][:-9]}' in self.inv.pattern_classes \
                    if '.' in q else False
                ok = (bool(r) or in_pattern_class) and not unresolved
                add('error', 're.compile', n, 'folded constant / escaped template / recompiled pattern source' if ok else None)
        for name, node in unbound_locals(fn):
            e = Event('UnboundLocalError', 'unbound', q, mod.where(node), f'local `{name}` may be read before assignment')
            if locally_caught(mod, fn, node, 'UnboundLocalError'):
                e.discharged = 'enclosing handler'
            else:
                # the definite-assignment analysis is path-insensitive: when the read stands under a test that mentions a name which
                # also decides whether the assignment runs, the two may be correlated (`if a: x = ...` ... `if k is not a and x`) -
                # no verdict; the texts compiled by interpretation reach an unbound read as a raised UnboundLocalError
                def guards(n_):
                    names_, cur_, child_ = set(), mod.parents.get(n_), n_
                    while cur_ is not None and cur_ is not fn:
                        if isinstance(cur_, (ast.If, ast.IfExp, ast.While)) and child_ is not cur_.test:
                            names_ |= {x.id for x in ast.walk(cur_.test) if isinstance(x, ast.Name)}
                        if isinstance(cur_, ast.BoolOp):
                            i_ = next((k for k, v_ in enumerate(cur_.values) if v_ is child_), 0)
                            for v_ in cur_.values[:i_]:
                                names_ |= {x.id for x in ast.walk(v_) if isinstance(x, ast.Name)}
                        child_, cur_ = cur_, mod.parents.get(cur_)
                    return names_
                stores = [x for x in walk_no_nested(fn) if isinstance(x, ast.Name) and x.id == name and isinstance(x.ctx, ast.Store)]
                gs = set().union(*[guards(x) for x in stores]) if stores else set()
                common = (gs & guards(node)) - {name}
                if common:
                    e.discharged = f'UNDECIDED: the assignment and the read both stand under tests on {sorted(common)} (possibly correlated)'
            out.append(e)
        return out

    def dict_key_ok(self, mod, fn, sub: ast.Subscript, dict_node: ast.Dict):
        """Is every value the key expression can take (a finite regex-group language, possibly ASCII-lowered) a key of
        the constant dict?"""
        import re._parser as _sp
        keys = set()
        for k in dict_node.keys:
            v = self.inv.folder.try_ev(mod.name, k, default=None)
            if v is None:
                return False, 'dict keys are not constants'
            keys.add(v)
        # the subscript sits under `if <key> in <table>` (or `elif`): membership has just been tested
        cur, child = mod.parents.get(sub), sub
        while cur is not None and cur is not fn:
            if isinstance(cur, ast.If) and any(child is st for st in cur.body):
                for t in ([cur.test] + (cur.test.values if isinstance(cur.test, ast.BoolOp) and isinstance(cur.test.op, ast.And) else [])):
                    if isinstance(t, ast.Compare) and len(t.ops) == 1 and isinstance(t.ops[0], ast.In) \
                            and unparse(t.left) == unparse(sub.slice) and unparse(t.comparators[0]) == unparse(sub.value) \
                            and isinstance(sub.slice, ast.Name) and not any(
                                isinstance(x, ast.Name) and x.id == sub.slice.id and isinstance(x.ctx, ast.Store)
                                for st in cur.body for x in ast.walk(st)):
                        return True, f'guarded by `{unparse(t)}`'
            if isinstance(cur, (ast.IfExp,)) and child is cur.body:
                t = cur.test
                if isinstance(t, ast.Compare) and len(t.ops) == 1 and isinstance(t.ops[0], ast.In) \
                        and unparse(t.left) == unparse(sub.slice) and unparse(t.comparators[0]) == unparse(sub.value):
                    return True, f'guarded by `{unparse(t)}`'
            child, cur = cur, mod.parents.get(cur)
        vs = self.value_set(mod, fn, sub.slice)
        if vs is not None:
            missing = sorted(map(repr, vs - keys))
            if missing:
                return False, f'the key can be {missing[0]} (values {sorted(map(repr, vs))}), which is not a key of the table {sorted(map(str, keys))}'
            return True, f'key values {sorted(map(repr, vs))} are all keys of the table'
        e = sub.slice
        lowered = False
        seen = 0
        while seen < 6:
            seen += 1
            if isinstance(e, ast.Name):
                defs = [st.value for st in walk_no_nested(fn) if isinstance(st, ast.Assign)
                        and any(isinstance(t, ast.Name) and t.id == e.id for t in st.targets)]
                if len(defs) != 1:
                    return False, f'key `{unparse(sub.slice)}` has {len(defs)} definitions'
                e = defs[0]
            elif isinstance(e, ast.IfExp):
                # `f(x) if x else None` - None would not be a key either, unless the subscript is guarded; take the value branch
                e = e.body
            elif isinstance(e, ast.Call) and call_name(e) in ('util.lower', 'lower') and e.args:
                lowered = True
                e = e.args[0]
            else:
                break
        if isinstance(e, ast.Call) and call_name(e) in ('cast', 'typing.cast') and len(e.args) == 2:
            e = e.args[1]
        if isinstance(e, ast.Attribute) and e.attr == 'lastindex' and isinstance(e.value, ast.Name):
            # M.lastindex: the number of the group that closed last; never None when every top-level alternative of the regex
            # is a capturing group
            import re._constants as _sc
            regs = [r for r, _ in self.regex_of_match_var(mod, fn, e.value.id)]
            if not regs:
                return False, f'match object `{e.value.id}` is not traced to an inventoried regex'
            values = set()
            for r in regs:
                if not isinstance(r.pattern, str):
                    return False, 'template regex'
                tree = _sp.parse(r.pattern, r.flags)
                items = list(tree)
                alts = items[0][1][1] if len(items) == 1 and items[0][0] is _sc.BRANCH else [items]
                for alt in alts:
                    alt = list(alt)
                    if not (len(alt) == 1 and alt[0][0] is _sc.SUBPATTERN and alt[0][1][0] is not None):
                        return False, f'{r.name}: an alternative without a capturing group can match (lastindex would be None)'
                values |= set(range(1, tree.state.groups))
            missing = sorted(values - keys)
            if missing:
                return False, f'lastindex can be {missing[0]} for {", ".join(r.name for r in regs)}, which is not a key of the table {sorted(map(str, keys))}'
            return True, f'lastindex of {", ".join(r.name for r in regs)} is one of {sorted(values)}, all keys of the table'
        if not (isinstance(e, ast.Call) and isinstance(e.func, ast.Attribute) and e.func.attr == 'group'
                and isinstance(e.func.value, ast.Name) and e.args):
            return False, f'key `{unparse(sub.slice)}` is not traced to a regex group'
        g = self.inv.folder.try_ev(mod.name, e.args[0], default=None)
        regs = [r for r, _ in self.regex_of_match_var(mod, fn, e.func.value.id)]
        if not regs and e.func.value.id in [a.arg for a in fn.args.args]:
            regs = [r for r in self.inv.regexes if r.kind in ('token', 'special-token')]
        regs = [r for r in regs if isinstance(g, str) and g in _sp.parse(r.pattern, r.flags).state.groupdict]
        if not regs:
            return False, f'no regex with group {g!r} found for the key'
        values = set()
        for r in regs:
            s = rx.System()
            G = s.add('g', r.pattern, r.flags, group=g)
            s.freeze()
            words = G.enumerate_words()
            if words is None:
                return False, f'group {g!r} of {r.name} is not a small finite language'
            values |= words
        if lowered:
            values = {''.join(chr(ord(c) + 32) if 'A' <= c <= 'Z' else c for c in w) for w in values}
        missing = sorted(values - keys)
        if missing:
            return False, f'the key can be {missing[0]!r} (values {sorted(values)}), which is not a key of the table {sorted(map(str, keys))}'
        return True, f'key values {sorted(values)} are all keys of the table'

    # ---- finite value sets of local expressions ------------------------------------------------------------------
    def value_set(self, mod, fn, e, depth=0):
        """The finite set of constants the expression can denote in fn (constants, conditionals, locals with constant
        definitions, loop variables over constant tables or over a field of the package's NamedTuple records), else None."""
        if depth > 5 or e is None:
            return None
        v = self.inv.folder.try_ev(mod.name, e, default=None)
        if v is not None and isinstance(v, (str, int, bool, float, bytes)):
            return {v}
        if isinstance(e, ast.IfExp):
            a, b = self.value_set(mod, fn, e.body, depth + 1), self.value_set(mod, fn, e.orelse, depth + 1)
            return None if a is None or b is None else a | b
        if isinstance(e, ast.Name) and fn is not None:
            out = set()
            n_defs = 0
            nodes = list(walk_no_nested(fn))
            for st in nodes:
                vals = None
                if isinstance(st, ast.Assign) and any(isinstance(t, ast.Name) and t.id == e.id for t in st.targets):
                    vals = self.value_set(mod, fn, st.value, depth + 1)
                elif isinstance(st, ast.AnnAssign) and isinstance(st.target, ast.Name) and st.target.id == e.id and st.value is not None:
                    vals = self.value_set(mod, fn, st.value, depth + 1)
                elif isinstance(st, (ast.For, ast.comprehension)) and isinstance(st.target, ast.Name) and st.target.id == e.id:
                    vals = self.element_set(mod, fn, st.iter, depth + 1)
                elif isinstance(st, ast.Name) and isinstance(st.ctx, ast.Store) and st.id == e.id:
                    par = mod.parents.get(st)
                    if not (isinstance(par, (ast.Assign, ast.AnnAssign, ast.For, ast.comprehension)) and (
                            getattr(par, 'target', None) is st or st in getattr(par, 'targets', []))):
                        return None          # bound some other way (unpacking, with, walrus, augmented): not followed
                    continue
                else:
                    continue
                n_defs += 1
                if vals is None:
                    return None
                out |= vals
            if not n_defs and e.id in [a.arg for a in fn.args.args] and depth < 4:
                return self.param_values(mod, fn, e.id)
            return out if n_defs else None
        return None

    def param_values(self, mod, fn, name):
        """The constants every call site of `fn` in the package passes for parameter `name` (None if some site is not constant
        or the function is referenced other than by a direct call)."""
        params = [a.arg for a in fn.args.args]
        if name not in params:
            return None
        pos = params.index(name)
        is_method = bool(params) and params[0] in ('self', 'cls')
        out = set()
        n_sites = 0
        for m2 in self.ctx.src.mods.values():
            for c in ast.walk(m2.tree):
                if isinstance(c, (ast.Name, ast.Attribute)) and (c.id if isinstance(c, ast.Name) else c.attr) == fn.name and isinstance(c.ctx, ast.Load):
                    par = m2.parents.get(c)
                    if not (isinstance(par, ast.Call) and par.func is c):
                        if isinstance(c, ast.Name) and m2 is not mod and fn.name not in m2.aliases:
                            continue            # another module's unrelated name
                        return None             # the function escapes as a value
                    call = par
                    i = pos - (1 if is_method and isinstance(c, ast.Attribute) else 0)
                    arg = call.args[i] if 0 <= i < len(call.args) and not any(isinstance(a, ast.Starred) for a in call.args[:i + 1]) else next(
                        (k.value for k in call.keywords if k.arg == name), None)
                    if arg is None:
                        d = fn.args.defaults
                        k = pos - (len(params) - len(d))
                        arg = d[k] if 0 <= k < len(d) else None
                        if arg is None:
                            return None
                        v = self.inv.folder.try_ev(mod.name, arg, default=None)
                    else:
                        v = self.inv.folder.try_ev(m2.name, arg, default=None)
                        if v is None:
                            q2 = m2.enclosing_function(call)
                            f2 = m2.functions.get(q2) if q2 else None
                            vs = self.value_set(m2, f2, arg) if f2 is not None else None
                            if vs is None:
                                return None
                            out |= vs
                            n_sites += 1
                            continue
                    if not isinstance(v, (str, int, float, bool, bytes)):
                        return None
                    out.add(v)
                    n_sites += 1
        return out if n_sites else None

    def element_set(self, mod, fn, e, depth=0):
        """The finite set of constants an iteration over `e` can yield."""
        v = self.inv.folder.try_ev(mod.name, e, default=None)
        if isinstance(v, (tuple, list, set, frozenset, dict)):
            vals = list(v)
            return set(vals) if all(isinstance(x, (str, int, bool, float, bytes)) for x in vals) else None
        if isinstance(e, ast.Attribute):
            # a field of a NamedTuple record of the package: the union over every construction site of the class
            t = self.ctx.types.type_of(mod.name, e.value)
            full = None
            for i in (self.ctx.types.items(t) if t is not None else []):
                fb = getattr(i, 'partial_fallback', None)
                if fb is not None and fb.type.fullname.startswith('soupsieve.'):
                    full = fb.type.fullname
            if full is None:
                return None
            cq = full[len('soupsieve.'):]
            mn, _, cn = cq.partition('.')
            cmod = self.ctx.src.mods.get(mn)
            cnode = cmod.classes.get(cn) if cmod is not None else None
            if cnode is None:
                return None
            fields = [st.target.id for st in cnode.body if isinstance(st, ast.AnnAssign) and isinstance(st.target, ast.Name)]
            if e.attr not in fields:
                return None
            idx = fields.index(e.attr)
            out = set()
            n_sites = 0
            for m2 in self.ctx.src.mods.values():
                for c in ast.walk(m2.tree):
                    if isinstance(c, ast.Call) and self.ctx.src.resolve_class_ref(m2, c.func) == cq:
                        arg = c.args[idx] if idx < len(c.args) and not any(isinstance(a, ast.Starred) for a in c.args) else next(
                            (k.value for k in c.keywords if k.arg == e.attr), None)
                        vals = self.inv.folder.try_ev(m2.name, arg, default=None) if arg is not None else None
                        if not isinstance(vals, (tuple, list)) or not all(isinstance(x, (str, int, bool, float, bytes)) for x in vals):
                            return None
                        out |= set(vals)
                        n_sites += 1
                    elif isinstance(c, ast.Attribute) and c.attr in ('_replace', '_make') and self.ctx.types.type_of(m2.name, c.value) is not None:
                        t2 = self.ctx.types.type_of(m2.name, c.value)
                        if any(getattr(i, 'partial_fallback', None) is not None and i.partial_fallback.type.fullname == full
                               for i in self.ctx.types.items(t2)):
                            return None
            return out if n_sites else None
        if isinstance(e, ast.Name) and fn is not None and depth < 5:
            # a sequence held in a local: a constant definition, a slot of the rows of a constant table the enclosing loop unpacks
            # (`for a, b, fields in TABLE:`), or a parameter bound at every call site
            out, n_defs = set(), 0
            for st in walk_no_nested(fn):
                seqs = None
                if isinstance(st, ast.Assign) and any(isinstance(t, ast.Name) and t.id == e.id for t in st.targets):
                    v = self.inv.folder.try_ev(mod.name, st.value, default=None)
                    seqs = [v] if isinstance(v, (tuple, list)) else None
                elif isinstance(st, (ast.For, ast.comprehension)) and isinstance(st.target, (ast.Tuple, ast.List)) \
                        and any(isinstance(t, ast.Name) and t.id == e.id for t in st.target.elts):
                    k = [i for i, t in enumerate(st.target.elts) if isinstance(t, ast.Name) and t.id == e.id][0]
                    rows = self.table_rows(mod, st.iter)
                    seqs = [r[k] for r in rows] if rows is not None and all(isinstance(r, (tuple, list)) and len(r) > k for r in rows) else None
                else:
                    continue
                n_defs += 1
                if seqs is None or not all(isinstance(sq, (tuple, list)) and all(isinstance(x, (str, int, bool, float, bytes)) for x in sq) for sq in seqs):
                    return None
                for sq in seqs:
                    out |= set(sq)
            if n_defs:
                return out
            params = [a.arg for a in fn.args.args]
            if e.id in params:
                return self.param_elements(mod, fn, e.id, depth + 1)
        return None

    def table_rows(self, mod, e):
        """The rows of a constant module-level table; members that are not plain data (compiled regexes, functions) are kept as
        opaque placeholders."""
        v = self.inv.folder.try_ev(mod.name, e, default=None)
        if isinstance(v, (tuple, list)):
            return list(v)
        node = self.inv.folder.env_nodes.get(mod.name, {}).get(e.id) if isinstance(e, ast.Name) else None
        if isinstance(node, (ast.Tuple, ast.List)):
            rows = []
            for r in node.elts:
                if not isinstance(r, (ast.Tuple, ast.List)):
                    return None
                rows.append(tuple(self.inv.folder.try_ev(mod.name, x, default=('opaque', ast.unparse(x))) for x in r.elts))
            return rows
        return None

    def param_elements(self, mod, fn, name, depth=0):
        """Union of the elements of the sequences every call site passes for parameter `name`."""
        params = [a.arg for a in fn.args.args]
        pos = params.index(name)
        is_method = bool(params) and params[0] in ('self', 'cls')
        out, n_sites = set(), 0
        for m2 in self.ctx.src.mods.values():
            for c in ast.walk(m2.tree):
                if isinstance(c, ast.Attribute if is_method else (ast.Name, ast.Attribute)) and (getattr(c, 'attr', None) or getattr(c, 'id', None)) == fn.name \
                        and isinstance(c.ctx, ast.Load):
                    par = m2.parents.get(c)
                    if not (isinstance(par, ast.Call) and par.func is c):
                        return None
                    i = pos - (1 if is_method else 0)
                    arg = par.args[i] if 0 <= i < len(par.args) else next((k.value for k in par.keywords if k.arg == name), None)
                    if arg is None:
                        return None
                    q2 = m2.enclosing_function(par)
                    f2 = m2.functions.get(q2) if q2 else None
                    vals = self.element_set(m2, f2, arg, depth + 1)
                    if vals is None:
                        return None
                    out |= vals
                    n_sites += 1
        return out if n_sites else None

    def ext_name(self, mod, call):
        """'module.function' when the callee is a function of a module outside the package (import x / import x as y / from x import f)."""
        f = call.func
        if isinstance(f, ast.Attribute) and isinstance(f.value, ast.Name):
            a = mod.aliases.get(f.value.id)
            if a and a[0] == 'module' and not a[2]:
                return f'{a[1]}.{f.attr}'
        if isinstance(f, ast.Name):
            a = mod.aliases.get(f.id)
            if a and a[0] == 'symbol' and not a[3]:
                return f'{a[1]}.{a[2]}'
        return None

    def _test_shows_nonnegative(self, mod, test, name, negate):
        """Does `test` being true (false when negate) show name >= 0?  Chained comparisons `0 < x <= N` are split."""
        def positive(t, negate):
            if isinstance(t, ast.Compare) and len(t.ops) > 1:
                parts, left = [], t.left
                for op, right in zip(t.ops, t.comparators):
                    parts.append(ast.Compare(left=left, ops=[op], comparators=[right]))
                    left = right
                if not negate:
                    return any(positive(p_, False) for p_ in parts)
                return False
            if isinstance(t, ast.BoolOp) and isinstance(t.op, ast.And) and not negate:
                return any(positive(v, False) for v in t.values)
            if isinstance(t, ast.BoolOp) and isinstance(t.op, ast.Or) and negate:
                return any(positive(v, True) for v in t.values)
            if isinstance(t, ast.UnaryOp) and isinstance(t.op, ast.Not):
                return positive(t.operand, not negate)
            if isinstance(t, ast.Compare) and len(t.ops) == 1:
                l, op, r = t.left, t.ops[0], t.comparators[0]
                c = self.inv.folder.try_ev(mod.name, r, default=None)
                if isinstance(l, ast.Name) and l.id == name and isinstance(c, int):
                    if not negate:
                        return (isinstance(op, ast.Gt) and c >= -1) or (isinstance(op, ast.GtE) and c >= 0)
                    return (isinstance(op, ast.Lt) and c >= 0) or (isinstance(op, ast.LtE) and c >= -1)
                c = self.inv.folder.try_ev(mod.name, l, default=None)
                if isinstance(r, ast.Name) and r.id == name and isinstance(c, int):
                    if not negate:
                        return (isinstance(op, ast.Lt) and c >= -1) or (isinstance(op, ast.LtE) and c >= 0)
                    return (isinstance(op, ast.Gt) and c >= 0) or (isinstance(op, ast.GtE) and c >= -1)
            return False
        return positive(test, negate)

    def _guarded_nonnegative(self, mod, fn, site, name):
        """Is `site` only reached when `name` was tested positive / non-negative (enclosing if / conditional expression), with no
        assignment to it in between?"""
        def positive(t, negate):
            return self._test_shows_nonnegative(mod, t, name, negate)

        def _unused(t, negate):
            if isinstance(t, ast.BoolOp) and isinstance(t.op, ast.And) and not negate:
                return any(positive(v, False) for v in t.values)
            if isinstance(t, ast.BoolOp) and isinstance(t.op, ast.Or) and negate:
                return any(positive(v, True) for v in t.values)
            if isinstance(t, ast.UnaryOp) and isinstance(t.op, ast.Not):
                return positive(t.operand, not negate)
            if isinstance(t, ast.Compare) and len(t.ops) == 1:
                l, op, r = t.left, t.ops[0], t.comparators[0]
                c = self.inv.folder.try_ev(mod.name, r, default=None)
                if isinstance(l, ast.Name) and l.id == name and isinstance(c, int):
                    if not negate:
                        return (isinstance(op, ast.Gt) and c >= -1) or (isinstance(op, ast.GtE) and c >= 0)
                    return (isinstance(op, ast.Lt) and c >= 0) or (isinstance(op, ast.LtE) and c >= -1)
                c = self.inv.folder.try_ev(mod.name, l, default=None)
                if isinstance(r, ast.Name) and r.id == name and isinstance(c, int):
                    if not negate:
                        return (isinstance(op, ast.Lt) and c >= -1) or (isinstance(op, ast.LtE) and c >= 0)
                    return (isinstance(op, ast.Gt) and c >= 0) or (isinstance(op, ast.GtE) and c >= -1)
            return False
        child, cur = site, mod.parents.get(site)
        while cur is not None and cur is not fn:
            if isinstance(cur, (ast.If, ast.IfExp, ast.While)):
                body = cur.body if isinstance(cur.body, list) else [cur.body]
                orelse = cur.orelse if isinstance(cur.orelse, list) else [cur.orelse]
                if any(child is b for b in body) and positive(cur.test, False):
                    return True
                if any(child is b for b in orelse) and positive(cur.test, True):
                    return True
            child, cur = cur, mod.parents.get(cur)
        return False

    def _maybe_str(self, mod, e):
        t = self.ctx.types.type_of(mod.name, e)
        names = self.ctx.types.instance_names(t) if t is not None else []
        return not names or any(x in ('str', 'Any') for x in names)

    def dt_names(self, mod):
        out = set()
        for local, a in mod.aliases.items():
            if (a[0] == 'symbol' and a[1] == 'datetime') or (a[0] == 'module' and a[1] == 'datetime'):
                out.add(local)
        return out

    def chr_interval(self, mod, fn, call):
        arg = call.args[0]
        ev_const = lambda e: self.inv.folder.try_ev(mod.name, e, default=None)   # noqa: E731
        # idiom 1: chr(E) if LO <= v <= HI else ...
        par = mod.parents.get(call)
        while par is not None and not isinstance(par, (ast.IfExp, ast.stmt)):
            par = mod.parents.get(par)
        if isinstance(par, ast.IfExp) and any(x is call for x in ast.walk(par.body)):
            t = par.test
            # the guarded term may be a pure expression (`LO <= ord(c) <= HI` around `chr(ord(c) + 32)`): name it
            if isinstance(t, ast.Compare) and len(t.ops) == 2 and isinstance(t.comparators[0], ast.Call) \
                    and call_name(t.comparators[0]) == 'ord' and len(t.comparators[0].args) == 1 \
                    and isinstance(t.comparators[0].args[0], ast.Name):
                gtxt = unparse(t.comparators[0])

                class Sub(ast.NodeTransformer):
                    def visit_Call(self, node):
                        if unparse(node) == gtxt:
                            return ast.copy_location(ast.Name(id='__guarded', ctx=ast.Load()), node)
                        return self.generic_visit(node)
                import copy
                arg = Sub().visit(copy.deepcopy(arg))
                t = ast.Compare(left=t.left, ops=t.ops, comparators=[ast.Name(id='__guarded', ctx=ast.Load()), t.comparators[1]])
            names = {x.id for x in ast.walk(arg) if isinstance(x, ast.Name) and not isinstance(ev_const(x), int)}
            if len(names) == 1:
                v = names.pop()
                iv = None
                if isinstance(t, ast.Compare) and len(t.ops) == 2 and isinstance(t.comparators[0], ast.Name) and t.comparators[0].id == v:
                    lo, hi = ev_const(t.left), ev_const(t.comparators[1])
                    if isinstance(lo, int) and isinstance(hi, int):
                        lo += isinstance(t.ops[0], ast.Lt)
                        hi -= isinstance(t.ops[1], ast.Lt)
                        iv = miniev.interval(arg, {v: (lo, hi)}, ev_const)
                if iv is not None:
                    return iv, f'guard `{unparse(par.test)}`'
        # idiom 2: variable seeded by int(group) and refined by comparisons
        if isinstance(arg, ast.Name):
            def seed(c):
                if call_name(c) == 'int' and c.args:
                    base = ev_const(c.args[1]) if len(c.args) > 1 else 10
                    e = c.args[0]
                    drop = 0
                    if isinstance(e, ast.Subscript) and isinstance(e.slice, ast.Slice) and e.slice.lower is not None:
                        drop = ev_const(e.slice.lower) or 0
                        e = e.value
                    e = self.single_def(fn, e)
                    if isinstance(e, ast.Call) and isinstance(e.func, ast.Attribute) and e.func.attr == 'group' and isinstance(e.func.value, ast.Name):
                        g = ev_const(e.args[0])
                        best = 0
                        for r, _ in self.regex_of_match_var(mod, fn, e.func.value.id):
                            s = rx.System()
                            G = s.add('g', r.pattern, r.flags, group=g)
                            s.freeze()
                            n = G.longest_run(frozenset())
                            if n is None:
                                return None
                            best = max(best, n - drop)
                        if best:
                            return (0, base ** best - 1)
                return None
            iv = interval_at(fn, arg.id, call, seed, ev_const)
            if iv is not None:
                return iv, 'int(<bounded group>) refined by the comparisons on the path'
        return None, 'no bound found'

    # ---- propagation -----------------------------------------------------------------------------------------------
    def escapes(self, q: str, stack=()) -> dict[tuple, Event]:
        """Undischarged events that can leave function q: {(exc, origin func, where): Event with path}."""
        if q in self._escape_memo:
            return self._escape_memo[q]
        if q in stack:
            return {}
        out: dict[tuple, Event] = {}
        mod, fn = self.fn_of(q)
        for e in self.events(q):
            if e.discharged is None:
                out[(e.exc, e.func, e.where)] = Event(e.exc, e.kind, e.func, e.where, e.text, None, (q,))
        for tgt in sorted(self.cg.edges.get(q, ())):
            if tgt == q:
                continue
            sub = self.escapes(tgt, stack + (q,))
            if not sub:
                continue
            lines = self.cg.edge_sites.get((q, tgt), {0})
            for key, e in sub.items():
                caught_everywhere = fn is not None and lines and all(
                    ln > 0 and locally_caught(mod, fn, ln, e.exc) for ln in lines)
                # StopIteration raised inside a generator surfaces as RuntimeError at the consumer; keep the original name
                if not caught_everywhere and key not in out:
                    out[key] = Event(e.exc, e.kind, e.func, e.where, e.text, None, (q,) + e.path)
        if q not in stack:
            self._escape_memo[q] = out
        return out
