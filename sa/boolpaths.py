"""Three-valued evaluation of boolean result expressions along the paths of a function.

`can_return_truthy(fn, assumption)` answers: is there a path to a `return` whose value may be truthy when the
given atomic conditions (expressions identified by normalised text) have the assumed truth values?  Atoms that are
not assumed are unknown.  Used for "X is a necessary condition of the result" rules in a way that accepts both the
`return a and b` form and the early-return form.
"""
from __future__ import annotations

import ast

from .pathwalk import Domain, Walker
from .srcmodel import unparse

T, F, U = True, False, None


def norm_atom(e: ast.AST) -> tuple[str, bool]:
    """Normalise an atomic condition to (text, polarity): `a != b` -> ('a == b', False), `not x` -> ('x', False),
    `x is not None` -> ('x is None', False).  Symmetric == operands are ordered."""
    pol = True
    while isinstance(e, ast.UnaryOp) and isinstance(e.op, ast.Not):
        pol = not pol
        e = e.operand
    if isinstance(e, ast.Compare) and len(e.ops) == 1:
        op = e.ops[0]
        l, r = unparse(e.left), unparse(e.comparators[0])
        if isinstance(op, (ast.Eq, ast.NotEq)):
            a, b = sorted([l, r])
            return f'{a} == {b}', pol if isinstance(op, ast.Eq) else not pol
        if isinstance(op, (ast.Is, ast.IsNot)):
            return f'{l} is {r}', pol if isinstance(op, ast.Is) else not pol
        if isinstance(op, (ast.In, ast.NotIn)):
            return f'{l} in {r}', pol if isinstance(op, ast.In) else not pol
    return unparse(e), pol


class BoolEnv:
    def __init__(self, facts: frozenset):
        self.facts = dict(facts)

    def ev(self, e: ast.AST):
        if isinstance(e, ast.Constant):
            return bool(e.value)
        if isinstance(e, ast.BoolOp):
            vals = [self.ev(v) for v in e.values]
            if isinstance(e.op, ast.And):
                if any(v is F for v in vals):
                    return F
                return T if all(v is T for v in vals) else U
            if any(v is T for v in vals):
                return T
            return F if all(v is F for v in vals) else U
        if isinstance(e, ast.UnaryOp) and isinstance(e.op, ast.Not):
            v = self.ev(e.operand)
            return U if v is U else (not v)
        if isinstance(e, ast.IfExp):
            c = self.ev(e.test)
            if c is T:
                return self.ev(e.body)
            if c is F:
                return self.ev(e.orelse)
            a, b = self.ev(e.body), self.ev(e.orelse)
            return a if a == b else U
        if isinstance(e, ast.Call) and isinstance(e.func, ast.Name) and e.func.id == 'bool' and len(e.args) == 1:
            return self.ev(e.args[0])
        text, pol = norm_atom(e)
        if text in self.facts:
            v = self.facts[text]
            return v if pol else (not v)
        if isinstance(e, ast.Name) and ('var:' + e.id) in self.facts:
            return self.facts['var:' + e.id]
        return U


class BoolDomain(Domain):
    """State = frozenset of (atom text, bool). Learns atoms from branch tests; tracks bool locals assigned constants
    or boolean expressions (var:<name>)."""

    def is_state(self, x):
        return isinstance(x, frozenset)

    def _learn(self, state, test, value: bool):
        env = dict(state)
        # conjunction true => all conjuncts true ; disjunction false => all disjuncts false
        if isinstance(test, ast.BoolOp):
            if (isinstance(test.op, ast.And) and value) or (isinstance(test.op, ast.Or) and not value):
                s = state
                for v in test.values:
                    s = self._learn(s, v, value)
                return s
            return state
        if isinstance(test, ast.UnaryOp) and isinstance(test.op, ast.Not):
            return self._learn(state, test.operand, not value)
        text, pol = norm_atom(test)
        if isinstance(test, ast.Name):
            env['var:' + test.id] = value
        env[text] = value if pol else (not value)
        return frozenset(env.items())

    def branch(self, state, test):
        v = BoolEnv(state).ev(test)
        if v is T:
            return self._learn(state, test, True), None
        if v is F:
            return None, self._learn(state, test, False)
        return self._learn(state, test, True), self._learn(state, test, False)

    def stmt(self, state, node):
        if isinstance(node, ast.Assign) and len(node.targets) == 1 and isinstance(node.targets[0], ast.Name):
            name = node.targets[0].id
            env = {k: v for k, v in state if k != 'var:' + name and not self._mentions(k, name)}
            v = BoolEnv(state).ev(node.value)
            if v is not U:
                env['var:' + name] = v
            return frozenset(env.items())
        if isinstance(node, (ast.AugAssign, ast.AnnAssign)) and isinstance(node.target, ast.Name):
            name = node.target.id
            return frozenset((k, v) for k, v in state if k != 'var:' + name and not self._mentions(k, name))
        return state

    def _mentions(self, atom_text: str, name: str) -> bool:
        if atom_text.startswith('var:'):
            return False
        try:
            return any(isinstance(n, ast.Name) and n.id == name for n in ast.walk(ast.parse(atom_text, mode='eval')))
        except SyntaxError:
            return False

    def for_header(self, state, node):
        names = {n.id for n in ast.walk(node.target) if isinstance(n, ast.Name)}
        return frozenset((k, v) for k, v in state if not any(k == 'var:' + n or self._mentions(k, n) for n in names))

    def on_return(self, state, node):
        return (state, node)


def return_values(fn: ast.FunctionDef, assumption: dict[str, bool]):
    """[(3-valued result, return node, facts)] for every path to a return under the assumption."""
    dom = BoolDomain()
    w = Walker(dom)
    init = frozenset(assumption.items())
    out = w.block(fn.body, {init})
    res = []
    for item in out.ret:
        state, node = item
        v = BoolEnv(state).ev(node.value) if node.value is not None else F
        res.append((v, node, state))
    for state in out.normal:      # falls off the end: returns None
        res.append((F, None, state))
    return res


def necessary_for_truthy(fn: ast.FunctionDef, atom_text: str) -> list:
    """Return nodes that may yield a truthy value although `atom_text` is false (empty list = necessary)."""
    bad = []
    for v, node, state in return_values(fn, {atom_text: False}):
        if v is not F:
            bad.append(node)
    return bad
