"""E7: facts read from the installed bs4 sources with `ast` (bs4 is never imported by the analysis)."""
from __future__ import annotations

import ast
import os
import sys

from .core import AnalysisError


def find_bs4_dir() -> str:
    for p in sys.path:
        d = os.path.join(p or '.', 'bs4')
        if os.path.isfile(os.path.join(d, '__init__.py')):
            return d
    raise AnalysisError('bs4 sources not found on sys.path')


class Bs4Facts:
    def __init__(self):
        self.dir = find_bs4_dir()
        self._trees: dict[str, ast.Module] = {}
        self._reach_memo: dict[str, bool] = {}

    def path_of(self, mod: str) -> str | None:
        """'bs4.element' -> file path (module or package __init__)."""
        parts = mod.split('.')
        if parts[0] != 'bs4':
            return None
        base = os.path.join(self.dir, *parts[1:])
        if os.path.isfile(base + '.py'):
            return base + '.py'
        if os.path.isfile(os.path.join(base, '__init__.py')):
            return os.path.join(base, '__init__.py')
        return None

    def tree(self, mod: str) -> ast.Module | None:
        if mod not in self._trees:
            p = self.path_of(mod)
            if p is None:
                return None
            with open(p, encoding='utf-8') as fh:
                self._trees[mod] = ast.parse(fh.read())
        return self._trees[mod]

    # ---- import-time structure -----------------------------------------------------------------------
    def _toplevel(self, body):
        """Top-level statements executed at import (descends into try/if bodies except TYPE_CHECKING)."""
        for st in body:
            if isinstance(st, ast.If):
                t = ast.unparse(st.test)
                if 'TYPE_CHECKING' in t:
                    yield from self._toplevel(st.orelse)
                    continue
                yield from self._toplevel(st.body)
                yield from self._toplevel(st.orelse)
            elif isinstance(st, ast.Try):
                yield from self._toplevel(st.body)
                for h in st.handlers:
                    yield from self._toplevel(h.body)
                yield from self._toplevel(st.orelse)
                yield from self._toplevel(st.finalbody)
            else:
                yield st

    def _imported_modules(self, mod: str, st: ast.stmt) -> list[str]:
        out = []
        if isinstance(st, ast.Import):
            for a in st.names:
                out.append(a.name)
        elif isinstance(st, ast.ImportFrom):
            pkg = mod if self.path_of(mod) and self.path_of(mod).endswith('__init__.py') else mod.rsplit('.', 1)[0]
            base = st.module or ''
            if st.level:
                parts = pkg.split('.')
                parts = parts[:len(parts) - (st.level - 1)]
                base = '.'.join(parts + ([st.module] if st.module else []))
            out.append(base)
            for a in st.names:
                out.append(f'{base}.{a.name}')    # may be a submodule
        return out

    def reaches_soupsieve(self, mod: str, visiting=None) -> bool:
        """Does importing `mod` (transitively, at module level) import soupsieve?"""
        if mod == 'soupsieve' or mod.startswith('soupsieve.'):
            return True
        if mod in self._reach_memo:
            return self._reach_memo[mod]
        visiting = visiting or set()
        if mod in visiting:
            return False
        tree = self.tree(mod)
        if tree is None:
            return False
        visiting = visiting | {mod}
        res = False
        for st in self._toplevel(tree.body):
            for im in self._imported_modules(mod, st):
                if im == 'soupsieve' or im.startswith('soupsieve.') or (
                        im.startswith('bs4') and self.path_of(im) and self.reaches_soupsieve(im, visiting)):
                    res = True
                    break
            if res:
                break
        self._reach_memo[mod] = res
        return res

    def bound_names(self, st: ast.stmt) -> set[str]:
        out = set()
        if isinstance(st, ast.Import):
            for a in st.names:
                out.add(a.asname or a.name.split('.')[0])
        elif isinstance(st, ast.ImportFrom):
            for a in st.names:
                out.add(a.asname or a.name)
        elif isinstance(st, (ast.FunctionDef, ast.AsyncFunctionDef, ast.ClassDef)):
            out.add(st.name)
        elif isinstance(st, (ast.Assign, ast.AnnAssign, ast.AugAssign)):
            targets = st.targets if isinstance(st, ast.Assign) else [st.target]
            for t in targets:
                for n in ast.walk(t):
                    if isinstance(n, ast.Name):
                        out.add(n.id)
        return out

    def safe_names_when_soupsieve_loads(self) -> dict[str, set[str] | str]:
        """For bs4 and each bs4 submodule on the import chain that leads to soupsieve: the names already bound at the
        moment soupsieve starts importing ('complete' for modules imported in full before that moment)."""
        result: dict[str, set[str] | str] = {}

        def walk(mod: str):
            tree = self.tree(mod)
            safe: set[str] = set()
            if tree is None:
                return
            for st in self._toplevel(tree.body):
                hazard = None
                for im in self._imported_modules(mod, st):
                    if im == 'soupsieve' or im.startswith('soupsieve.'):
                        hazard = im
                        break
                    if im.startswith('bs4') and self.path_of(im) and im not in result:
                        if self.reaches_soupsieve(im):
                            hazard = im
                            break
                        result[im] = 'complete'
                if hazard is not None:
                    result[mod] = safe
                    if hazard.startswith('bs4'):
                        walk(hazard)
                    return
                safe |= self.bound_names(st)
            result[mod] = 'complete'
        walk('bs4')
        if 'bs4' not in result or result['bs4'] == 'complete':
            raise AnalysisError('bs4/__init__.py does not import soupsieve (transitively) at module level: the premise '
                                'of the import-order rule does not hold for the installed bs4')
        return result

    # ---- class facts ------------------------------------------------------------------------------------
    def element_classes(self) -> dict[str, list[str]]:
        """class name -> base names, for bs4/element.py and bs4/__init__.py."""
        out = {}
        for mod in ('bs4.element', 'bs4'):
            t = self.tree(mod)
            if t is None:
                continue
            for st in ast.walk(t):
                if isinstance(st, ast.ClassDef):
                    out.setdefault(st.name, [ast.unparse(b).split('.')[-1] for b in st.bases])
        return out

    def subclasses_of(self, root: str) -> set[str]:
        classes = self.element_classes()
        out = set()
        changed = True
        while changed:
            changed = False
            for c, bases in classes.items():
                if c not in out and any(b == root or b in out for b in bases):
                    out.add(c)
                    changed = True
        return out
