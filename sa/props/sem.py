"""Semantic rule implementations shared by several packs: decision tables extracted by partial evaluation.

These replace shape-matching rules wherever the function under analysis is small enough to be interpreted on abstract
inputs: the verdict then depends on what the code computes, not on how it is written, so behaviour-preserving
refactorings (helpers, early returns, merged conditions, comprehensions) do not change it.
"""
from __future__ import annotations

import ast
import itertools
import re

from .. import tables
from ..core import AnalysisError
from ..interp import Interp, Obj, PkgClass, Raised, call_function
from ..miniev import Unsupported
from ..tables import describe_selector, fresh_sel, match_obj, parser_obj, run_parse_selectors, tok


def strict_lower(v):
    """Stand-in for util.lower (lru_cache'd, str only): exact ASCII folding for str (C11-R4 proves the real one is that),
    TypeError for anything else - a list-valued attribute must never reach it."""
    if not isinstance(v, str):
        raise Raised('TypeError')
    return ''.join(chr(ord(c) + 32) if 'A' <= c <= 'Z' else c for c in v)


def _flags(ctx):
    return {k: ctx.consts.const('css_parser', k) for k in ('FLG_PSEUDO', 'FLG_OPEN', 'FLG_FORGIVE', 'FLG_RELATIVE', 'FLG_NOT',
                                                            'FLG_HTML')}


def _tag(name):
    return tok('tag', tag_ns=None, tag_name=name)


def _comb(c):
    return tok('combine', relation=c)


def _chain(sel):
    """[(tag name, rel_type)] of a selector and its relation chain, subject first."""
    out = []
    while isinstance(sel, dict):
        out.append((sel['tag'][0] if sel['tag'] else None, sel['rel_type']))
        rel = sel['relation']['list'] if sel['relation'] else []
        sel = rel[0] if rel else None
    return out


# ---- comma resets / relation chains ---------------------------------------------------------------------------------------
def comma_tables(ctx, rule):
    """Selector lists parsed from token sequences: every alternative's relation chain is made of its own compounds."""
    F = _flags(ctx)
    open_ = F['FLG_PSEUDO'] | F['FLG_OPEN']
    close = tok('pseudo_close')
    cases = [
        # (title, tokens, flags, expected list of alternatives: NULL or chain [(tag, rel_type) subject-first])
        ('a > b , c', [_tag('a'), _comb('>'), _tag('b'), _comb(','), _tag('c')], 0,
         [[('b', None), ('a', '>')], [('c', None)]]),
        ('a b , c ~ d', [_tag('a'), _comb(' '), _tag('b'), _comb(' , '), _tag('c'), _comb('~'), _tag('d')], 0,
         [[('b', None), ('a', ' ')], [('d', None), ('c', '~')]]),
        (':is(a > , b)', [_tag('a'), _comb('>'), _comb(','), _tag('b'), close], open_ | F['FLG_FORGIVE'],
         ['NULL', [('b', None)]]),
        (':is(a + , b , c)', [_tag('a'), _comb('+'), _comb(','), _tag('b'), _comb(','), _tag('c'), close], open_ | F['FLG_FORGIVE'],
         ['NULL', [('b', None)], [('c', None)]]),
        (':is( , b)', [_comb(','), _tag('b'), close], open_ | F['FLG_FORGIVE'], ['NULL', [('b', None)]]),
        (':is(a , )', [_tag('a'), _comb(','), close], open_ | F['FLG_FORGIVE'], [[('a', None)], 'NULL']),
        (':not(a > b , c)', [_tag('a'), _comb('>'), _tag('b'), _comb(','), _tag('c'), close], open_ | F['FLG_NOT'],
         [[('b', None), ('a', '>')], [('c', None)]]),
    ]
    for title, toks, flags, exp in cases:
        try:
            got = describe_selector(run_parse_selectors(ctx, toks, flags))
        except Raised as e:
            got = f'raises {e.exc_name}'
        except Unsupported as e:
            raise AnalysisError(f'parse_selectors on `{title}`: outside the evaluable fragment: {e}')
        alts = got['list'] if isinstance(got, dict) else got
        seen = [a if a == 'NULL' else _chain(a) for a in alts] if isinstance(alts, list) else alts
        ok = seen == exp
        rule.instance({'selector': title, 'alternatives': seen, 'expected': exp}, key=title)
        rule.obligation(ok)
        if not ok:
            rule.violation(f'parse_selectors `{title}` relation chains', 'soupsieve/css_parser.py (parse_selectors/parse_combinator)',
                           f'the token sequence of `{title}` is parsed into alternatives {seen} (subject first, with the combinator '
                           f'linking each compound to the next), expected {exp}: state of one alternative (pending combinators / '
                           f'relation chain) leaks into another or is lost')
    # relative lists (:has)
    rel = open_ | F['FLG_RELATIVE']
    has_cases = [
        (':has(> x , y)', [_comb('>'), _tag('x'), _comb(','), _tag('y'), close], [[('x', ':>')], [('y', ': ')]]),
        (':has(x ~ z , + y)', [_tag('x'), _comb('~'), _tag('z'), _comb(','), _comb('+'), _tag('y'), close],
         [[('x', ': '), ('z', ':~')], [('y', ':+')]]),
        (':has(x > y , z)', [_tag('x'), _comb('>'), _tag('y'), _comb(','), _tag('z'), close],
         [[('x', ': '), ('y', ':>')], [('z', ': ')]]),
    ]
    for title, toks, exp in has_cases:
        try:
            got = describe_selector(run_parse_selectors(ctx, toks, rel))
        except Raised as e:
            got = f'raises {e.exc_name}'
        except Unsupported as e:
            raise AnalysisError(f'parse_selectors on `{title}`: outside the evaluable fragment: {e}')
        seen = got
        if isinstance(got, dict):
            seen = []
            for alt in got['list']:
                # the anchor selector carries the relative chain in .relation (flat list of successive compounds)
                chain = []
                for r_ in (alt['relation']['list'] if isinstance(alt, dict) and alt['relation'] else []):
                    node = r_
                    while isinstance(node, dict):
                        chain.append((node['tag'][0] if node['tag'] else None, node['rel_type']))
                        nxt = node['relation']['list'] if node['relation'] else []
                        node = nxt[0] if nxt else None
                seen.append(chain)
        ok = seen == exp
        rule.instance({'selector': title, 'relative_chains': seen, 'expected': exp}, key=title)
        rule.obligation(ok)
        if not ok:
            rule.violation(f'parse_selectors `{title}` relative chains', 'soupsieve/css_parser.py (parse_has_combinator)',
                           f'`{title}` is parsed into relative chains {seen}, expected {exp}: a leading combinator of one item of the '
                           f'list leaks into the next item (which must start with the descendant combinator)')


# ---- implied universal ---------------------------------------------------------------------------------------------------
def implied_universal_tables(ctx, rule):
    F = _flags(ctx)
    close = tok('pseudo_close')
    cls = lambda n: tok('class', '.' + n)      # noqa: E731
    cases = [
        ('top level: .a , .b', [cls('a'), _comb(','), cls('b')], 0, [('*', None), ('*', None)]),
        ('inside :is(): .a , .b', [cls('a'), _comb(','), cls('b'), close], F['FLG_PSEUDO'] | F['FLG_OPEN'] | F['FLG_FORGIVE'], [None, None]),
        ('inside :not(): .a , .b', [cls('a'), _comb(','), cls('b'), close], F['FLG_PSEUDO'] | F['FLG_OPEN'] | F['FLG_NOT'], [None, None]),
        ('custom / internal definition: .a , .b', [cls('a'), _comb(','), cls('b')], F['FLG_PSEUDO'], [None, None]),
        ('top level: a , .b', [_tag('a'), _comb(','), cls('b')], 0, [('a', None), ('*', None)]),
    ]
    for title, toks, flags, exp in cases:
        try:
            got = describe_selector(run_parse_selectors(ctx, toks, flags))
            seen = [a['tag'] if isinstance(a, dict) else a for a in got['list']]
            seen = [tuple(t) if t else None for t in seen]
        except Raised as e:
            seen = f'raises {e.exc_name}'
        except Unsupported as e:
            raise AnalysisError(f'parse_selectors on `{title}`: outside the evaluable fragment: {e}')
        ok = seen == exp
        rule.instance({'context': title, 'type_selectors': seen, 'expected': exp}, key=title)
        rule.obligation(ok)
        if not ok:
            rule.violation(f'implied universal: {title}', 'soupsieve/css_parser.py (parse_selectors/parse_combinator)',
                           f'{title}: the compounds get type selectors {seen}, expected {exp}: the implied universal selector '
                           f'("*" without prefix, which is subject to the default namespace) must be added to every top-level '
                           f'alternative that has no type selector, and to none inside a pseudo-class or internal definition')


# ---- match_selectors: OR of ANDs xor is_not over every field ------------------------------------------------------------
CHECKS = ['match_tag', 'match_defined', 'match_root', 'match_scope', 'match_placeholder_shown', 'match_nth', 'match_empty',
          'match_id', 'match_classes', 'match_attributes', 'match_range', 'match_lang', 'match_subselectors', 'match_relations',
          'match_default', 'match_indeterminate', 'match_dir', 'match_contains']


def match_selectors_table(ctx, rule):
    inv = ctx.consts
    ct = {n: inv.folder.lookup('css_types', n) for n in inv.folder.env_nodes['css_types'] if n.startswith('SEL_')}
    all_flags = 0
    for v in ct.values():
        all_flags |= v
    _, ms = ctx.src.func('css_match.CSSMatch.match_selectors')
    called = sorted({c.func.attr for c in ast.walk(ms) if isinstance(c, ast.Call) and isinstance(c.func, ast.Attribute)
                     and isinstance(c.func.value, ast.Name) and c.func.value.id == 'self' and c.func.attr.startswith('match_')})
    # helper methods that merely wrap checks are interpreted; leaf checks are the CSSMatch.match_* that take (el, ...)
    leaf = [c for c in CHECKS]

    def full_selector():
        return Obj(_cls='css_types.Selector', _name='Selector', tag=Obj(_name='tag'), ids=('i',), classes=('c',),
                   attributes=(Obj(_name='attr'),), nth=(Obj(_name='nth'),), selectors=(Obj(_name='sub'),),
                   relation=Obj(_name='rel', __len__=1, __iter__=[Obj(_name='r0')], __bool__=True), rel_type=None,
                   contains=(Obj(_name='cont'),), lang=(Obj(_name='lang'),), flags=all_flags)

    def run(truth: dict, is_not=False, sel=None, n_alts=1, null_first=False):
        consulted = []
        stubs = {}
        for name in leaf:
            def f(*a, _n=name, **k):
                consulted.append(_n)
                return truth.get(_n, True)
            stubs[f'self.{name}'] = f
        alts = [sel or full_selector() for _ in range(n_alts)]
        if null_first:
            alts = [Obj(_cls='css_types.SelectorNull', _name='Null')] + alts
        lst = Obj(_cls='css_types.SelectorList', _name='list', selectors=tuple(alts), is_not=is_not, is_html=False,
                  __iter__=alts, __len__=len(alts))
        selfo = Obj(_cls='css_match.CSSMatch', _name='self', namespaces={}, iframe_restrict=False, is_html=True, is_xml=False,
                    scope=None, root=None, tag=None, has_html_namespace=False)
        try:
            r = call_function(ctx, 'css_match.CSSMatch.match_selectors', [Obj(_name='el'), lst], {}, stubs, selfo)
        except Unsupported as e:
            raise AnalysisError(f'match_selectors: outside the evaluable fragment: {e}')
        return bool(r), consulted
    res, consulted = run({})
    missing = [c for c in leaf if c not in consulted]
    rule.instance({'case': 'every check passes', 'result': res, 'checks_consulted': len(set(consulted)), 'never_consulted': missing},
                  key='all-true')
    rule.obligation(res is True and not missing)
    if res is not True:
        rule.violation('match_selectors all checks pass', 'soupsieve/css_match.py (match_selectors)',
                       'match_selectors reports no match although every check of the compound selector passes')
    for c in missing:
        rule.violation(f'match_selectors never consults {c}', 'soupsieve/css_match.py (match_selectors)',
                       f'match_selectors never consults {c} although the compound selector carries the corresponding field/flag: '
                       f'that part of every selector is ignored')
    for c in leaf:
        if c in missing:
            continue
        res, _ = run({c: False})
        rule.instance({'case': f'only {c} fails', 'result': res, 'expected': False}, key=f'fail-{c}')
        rule.obligation(res is False)
        if res is not False:
            rule.violation(f'match_selectors ignores failing {c}', 'soupsieve/css_match.py (match_selectors)',
                           f'match_selectors reports a match although {c} fails: the checks of a compound selector are not a conjunction')
        res, _ = run({c: False}, is_not=True)
        rule.instance({'case': f'only {c} fails, negated list', 'result': res, 'expected': True}, key=f'not-fail-{c}')
        rule.obligation(res is True)
        if res is not True:
            rule.violation(f'match_selectors negation with failing {c}', 'soupsieve/css_match.py (match_selectors)',
                           f':not(...) reports no match although {c} fails inside it')
    res, _ = run({}, is_not=True)
    rule.instance({'case': 'every check passes, negated list', 'result': res, 'expected': False}, key='not-all-true')
    if res is not False:
        rule.violation('match_selectors negation all pass', 'soupsieve/css_match.py (match_selectors)', ':not(X) matches an element that matches X')
    # OR over alternatives: first alternative fails (a check that fails once), second passes
    state = {'n': 0}

    def first_fails(*a, **k):
        state['n'] += 1
        return state['n'] > 1
    consulted = []
    stubs = {f'self.{n}': (lambda *a, **k: True) for n in leaf}
    stubs['self.match_tag'] = first_fails
    alts = [full_selector(), full_selector()]
    lst = Obj(_cls='css_types.SelectorList', _name='list', selectors=tuple(alts), is_not=False, is_html=False, __iter__=alts, __len__=2)
    selfo = Obj(_cls='css_match.CSSMatch', _name='self', namespaces={}, iframe_restrict=False, is_html=True, is_xml=False,
                    scope=None, root=None, tag=None, has_html_namespace=False)
    try:
        r = bool(call_function(ctx, 'css_match.CSSMatch.match_selectors', [Obj(_name='el'), lst], {}, stubs, selfo))
    except Unsupported as e:
        raise AnalysisError(f'match_selectors: outside the evaluable fragment: {e}')
    rule.instance({'case': 'first alternative fails, second passes', 'result': r, 'expected': True}, key='or')
    rule.obligation(r is True)
    if r is not True:
        rule.violation('match_selectors alternatives', 'soupsieve/css_match.py (match_selectors)',
                       'a list whose first alternative fails and whose second alternative passes does not match: the list is not a disjunction')
    res, _ = run({}, null_first=True)
    rule.instance({'case': 'un-matchable alternative first, passing alternative second', 'result': res, 'expected': True}, key='null')
    if res is not True:
        rule.violation('match_selectors SelectorNull', 'soupsieve/css_match.py (match_selectors)',
                       'an un-matchable alternative (e.g. :focus) in front of a matching alternative makes the whole list fail')
    # inactive flags / empty fields: the corresponding checks must not be able to veto
    bare = Obj(_cls='css_types.Selector', _name='Selector', tag=None, ids=(), classes=(), attributes=(), nth=(), selectors=(),
               relation=Obj(_name='rel', __len__=0, __iter__=[], __bool__=False), rel_type=None, contains=(), lang=(), flags=0)
    optional = [c for c in leaf if c not in ('match_tag', 'match_nth', 'match_attributes')]
    res, _ = run({c: False for c in optional}, sel=bare)
    rule.instance({'case': 'compound without the optional parts: their checks fail but are irrelevant', 'result': res, 'expected': True},
                  key='bare')
    rule.obligation(res is True)
    if res is not True:
        rule.violation('match_selectors bare compound', 'soupsieve/css_match.py (match_selectors)',
                       'a compound selector without ids/classes/pseudo-classes is rejected by a check that should not apply to it')


# ---- AND-fold helpers -----------------------------------------------------------------------------------------------------
def helper_tables(ctx, rule):
    selfo = lambda: Obj(_cls='css_match.CSSMatch', _name='self', is_xml=False, is_html=True)   # noqa: E731

    def run(q, args, stubs):
        try:
            return call_function(ctx, q, args, {}, stubs, selfo())
        except Unsupported as e:
            raise AnalysisError(f'{q}: outside the evaluable fragment: {e}')
    # match_subselectors: all lists must match
    for truth in itertools.product((True, False), repeat=3):
        names = ('s0', 's1', 's2')
        got = bool(run('css_match.CSSMatch.match_subselectors', [Obj(_name='el'), names],
                       {'self.match_selectors': lambda el, s, _t=dict(zip(names, truth)): _t[s]}))
        rule.instance({'helper': 'match_subselectors', 'items': list(truth), 'result': got}, key=f'sub|{truth}', sample_cap=2)
        if got != all(truth):
            rule.violation('match_subselectors conjunction', 'soupsieve/css_match.py (match_subselectors)',
                           f'match_subselectors returns {got} for sub-selector results {list(truth)}: X:is(A):not(B) must be the '
                           f'intersection of the parts')
            break
    done = False
    for have in ('x', '', None, 'x y'):
        for n_ in range(4):
            for ids in itertools.product(('x', 'y', ''), repeat=n_):
                got = bool(run('css_match.CSSMatch.match_id', [Obj(_name='el'), ids],
                               {'self.get_attribute_by_name': lambda el, n, d=None, _h=have: d if _h is None else _h}))
                exp = all(i == (have if have is not None else '') for i in ids)
                rule.instance({'helper': 'match_id', 'ids': list(ids), 'element_id': have, 'result': got}, key=f'id|{have}|{ids}', sample_cap=2)
                if got != exp and not done:
                    done = True
                    rule.violation('match_id conjunction', 'soupsieve/css_match.py (match_id)', f'match_id({list(ids)}) on id={have!r} gives {got}')
    done = False
    for have in ([], ['a'], ['a', 'b'], ['a', 'a'], ['b', 'a', 'c']):
        for n_ in range(4):
            for classes in itertools.product('abc', repeat=n_):
                got = bool(run('css_match.CSSMatch.match_classes', [Obj(_name='el'), classes], {'self.get_classes': lambda el, _h=have: list(_h)}))
                exp = all(c in have for c in classes)
                rule.instance({'helper': 'match_classes', 'classes': list(classes), 'element_classes': have, 'result': got},
                              key=f'cls|{have}|{classes}', sample_cap=2)
                if got != exp and not done:
                    done = True
                    rule.violation('match_classes conjunction', 'soupsieve/css_match.py (match_classes)',
                                   f'match_classes({list(classes)}) on class="{" ".join(have)}" gives {got}: a compound requires each '
                                   f'class it names (however often it names it) and nothing else of the class list')
    for ns, tn in itertools.product((True, False), repeat=2):
        got = bool(run('css_match.CSSMatch.match_tag', [Obj(_name='el'), Obj(_name='tag')],
                       {'self.match_namespace': lambda e, t, _v=ns: _v, 'self.match_tagname': lambda e, t, _v=tn: _v}))
        rule.instance({'helper': 'match_tag', 'namespace_ok': ns, 'name_ok': tn, 'result': got}, key=f'tag|{ns}|{tn}', sample_cap=2)
        if got != (ns and tn):
            rule.violation('match_tag conjunction', 'soupsieve/css_match.py (match_tag)',
                           f'match_tag gives {got} when the namespace test is {ns} and the name test is {tn}')
    got = bool(run('css_match.CSSMatch.match_tag', [Obj(_name='el'), None], {}))
    if got is not True:
        rule.violation('match_tag no type selector', 'soupsieve/css_match.py (match_tag)', 'a compound without type selector fails match_tag')
    # match_attributes: every attribute must exist and match its pattern; XML twin for type
    for is_xml in (False, True):
        for present, pat_ok, twin in itertools.product((True, False), (True, False, None), (None, True, False)):
            used = []

            def pattern(name, ok):
                def m(value, _n=name, _ok=ok):
                    used.append(_n)
                    return Obj(_name='match') if _ok else None
                return Obj(_name=name, match=m)
            a = Obj(_name='a', attribute='t', prefix='', pattern=None if pat_ok is None else pattern('main', pat_ok),
                    xml_type_pattern=None if twin is None else pattern('twin', twin))
            s = Obj(_cls='css_match.CSSMatch', _name='self', is_xml=is_xml, is_html=True)
            try:
                got = bool(call_function(ctx, 'css_match.CSSMatch.match_attributes', [Obj(_name='el'), (a,)], {},
                                         {'self.match_attribute_name': lambda el, n, p, _p=present: 'v' if _p else None}, s))
            except Unsupported as e:
                raise AnalysisError(f'match_attributes: outside the evaluable fragment: {e}')
            if not present:
                exp, exp_used = False, []
            else:
                use_twin = is_xml and twin is not None
                eff = twin if use_twin else pat_ok
                exp = True if eff is None else bool(eff)
                exp_used = [] if eff is None else (['twin'] if use_twin else ['main'])
            rule.instance({'helper': 'match_attributes', 'xml': is_xml, 'attribute_present': present, 'pattern_matches': pat_ok,
                           'xml_twin_matches': twin, 'result': got, 'patterns_used': used}, key=f'attr|{is_xml}|{present}|{pat_ok}|{twin}',
                          sample_cap=2)
            if got != exp or used != exp_used:
                rule.violation('match_attributes decision table', 'soupsieve/css_match.py (match_attributes)',
                               f'match_attributes (xml={is_xml}, attribute present={present}, main pattern matches={pat_ok}, '
                               f'case-sensitive twin matches={twin}) gives {got} using {used}; expected {exp} using {exp_used}')
                return


# ---- API wrappers and compile() ------------------------------------------------------------------------------------------
def wrappers_table(ctx, rule):
    imod = ctx.src.mod('__init__')
    names = {'select': True, 'select_one': False, 'iselect': True, 'match': False, 'filter': False, 'closest': False}
    compiled_in = Obj(_cls='css_match.SoupSieve', _name='COMPILED-PATTERN', direct=True)
    for (name, has_limit), pattern_arg in itertools.product(names.items(), ('PATTERN', compiled_in)):
        if name not in imod.functions:
            raise AnalysisError(f'soupsieve.{name} not found')
        fn = imod.functions[name]
        params = [a.arg for a in fn.args.args] + [a.arg for a in fn.args.kwonlyargs]
        rec = {}
        target = Obj(_name='TARGET')

        def compile_stub(*a, _rec=rec, **k):
            _rec['compile_args'], _rec['compile_kwargs'] = a, k

            def meth(mname):
                def call(*ma, **mk):
                    _rec['method'] = (mname, ma, mk)
                    return [Obj(_name='RESULT')] if mname in ('select', 'iselect', 'filter') else Obj(_name='RESULT')
                return call
            return Obj(_name='compiled', **{m: meth(m) for m in names})
        for m_ in names:
            # a compiled selector handed in directly must still go through compile() (which validates the extra arguments)
            compiled_in.set(m_, (lambda *a_, _m=m_, _r=rec, **k_: _r.setdefault('bypass', _m)))
        env_args = {'select': pattern_arg, 'tag': target, 'iterable': target, 'namespaces': {'ns': 'u'}, 'limit': 7, 'flags': 3,
                    'custom': {':--x': 'y'}}
        args = [env_args[p] for p in [a.arg for a in fn.args.args]]
        kwargs = {'custom': env_args['custom'], 'extra_kw': 'EXTRA'}
        it = Interp(ctx, '__init__', None, {}, {'compile': compile_stub})
        is_gen = any(isinstance(n, (ast.Yield, ast.YieldFrom)) for n in ast.walk(fn))
        try:
            if is_gen:
                # a generator wrapper: evaluate the operand of `yield from`
                sub = Interp(ctx, '__init__', None, {}, {'compile': compile_stub})
                sub.bind_params(fn.args, args, dict(kwargs))
                for st in fn.body:
                    if isinstance(st, ast.Expr) and isinstance(st.value, ast.YieldFrom):
                        sub.ev(st.value.value)
                    elif isinstance(st, ast.Expr) and isinstance(st.value, ast.Constant):
                        continue
                    else:
                        sub.stmt(st)
            else:
                it.run_function(imod, fn, None, args, kwargs, None)
        except Unsupported as e:
            raise AnalysisError(f'soupsieve.{name}: outside the evaluable fragment: {e}')
        problems = []
        if 'bypass' in rec:
            problems.append(f'calls .{rec["bypass"]}() on the pattern argument itself, without compile(): namespaces, flags and custom '
                            f'are silently ignored for a compiled selector instead of being rejected with ValueError')
        if 'compile_args' not in rec:
            problems.append('never calls compile()')
        else:
            ca, ck = list(rec['compile_args']), dict(rec['compile_kwargs'])
            slots = dict(zip(['pattern', 'namespaces', 'flags'], ca))
            slots.update(ck)
            want = {'pattern': pattern_arg, 'namespaces': env_args['namespaces'], 'flags': 3, 'custom': env_args['custom'],
                    'extra_kw': 'EXTRA'}
            for k, v in want.items():
                if slots.get(k, '<missing>') is not v and slots.get(k, '<missing>') != v:
                    problems.append(f'compile() receives {k}={slots.get(k, "<missing>")!r} instead of the caller\'s {k}')
            if 'method' not in rec:
                problems.append('does not call a method of the compiled selector')
            else:
                mname, ma, mk = rec['method']
                if mname != name:
                    problems.append(f'calls .{mname}() instead of .{name}()')
                margs = list(ma) + list(mk.values())
                exp_m = [target] + ([7] if has_limit else [])
                if len(margs) != len(exp_m) or any(x is not y and x != y for x, y in zip(margs, exp_m)):
                    problems.append(f'.{mname}() receives {margs!r} instead of {exp_m!r}')
        rule.instance({'wrapper': name, 'pattern_argument': 'str' if pattern_arg == 'PATTERN' else 'compiled selector', 'parameters': params,
                       'problems': problems}, key=f'{name}|{pattern_arg == "PATTERN"}')
        rule.obligation(not problems)
        for p in problems:
            rule.violation(f'__init__.{name} {p[:60]}', imod.where(fn),
                           f'soupsieve.{name}({"<pattern text>" if pattern_arg == "PATTERN" else "<compiled selector>"}, ...): {p}')


def compile_table(ctx, rule_key, rule_pass):
    """compile(): what reaches the memoised compiler, and the pass-through of compiled objects."""
    imod, cfn = ctx.src.func('__init__.compile')
    pmod, cached = ctx.src.func('css_parser._cached_css_compile')
    cparams = [a.arg for a in cached.args.args]
    for ns, cs, flags in itertools.product((None, {}, {'p': 'u'}), (None, {}, {':--x': 'y'}), (0, 1)):
        rec = {}

        def cached_stub(*a, _r=rec, **k):
            _r['args'] = dict(zip(cparams, a))
            _r['args'].update(k)
            return Obj(_name='COMPILED')

        def wrap(kind):
            return lambda arg: Obj(_name=kind, __wrapped__=arg, __kind__=kind)
        stubs = {'cp._cached_css_compile': cached_stub, 'ct.Namespaces': wrap('Namespaces'), 'ct.CustomSelectors': wrap('CustomSelectors'),
                 'isinstance': lambda v, c: False}
        try:
            Interp(ctx, '__init__', None, {}, stubs).run_function(imod, cfn, None, ['PAT', ns, flags], {'custom': cs}, None)
        except Unsupported as e:
            raise AnalysisError(f'compile(): outside the evaluable fragment: {e}')
        got = rec.get('args')
        problems = []
        if got is None:
            problems.append('the memoised compiler is not called')
        else:
            def ok_map(v, src, kind):
                if src is None:
                    return v is None
                return isinstance(v, Obj) and v.has('__kind__') and v.get('__kind__') == kind and v.get('__wrapped__') is src
            if got.get('pattern') != 'PAT':
                problems.append(f'pattern reaches the cache as {got.get("pattern")!r}')
            if got.get('flags') != flags:
                problems.append(f'flags={flags} reaches the cache as {got.get("flags")!r}')
            if not ok_map(got.get('namespaces'), ns, 'Namespaces'):
                problems.append(f'namespaces={ns!r} reaches the cache as {got.get("namespaces")!r} (must be None or a hashable Namespaces copy)')
            if not ok_map(got.get('custom'), cs, 'CustomSelectors'):
                problems.append(f'custom={cs!r} reaches the cache as {got.get("custom")!r} (must be None or a hashable CustomSelectors copy)')
        rule_key.instance({'namespaces': ns, 'custom': cs, 'flags': flags, 'problems': problems}, key=f'key|{ns}|{cs}|{flags}', sample_cap=3)
        rule_key.obligation(not problems)
        for p in problems:
            rule_key.violation(f'__init__.compile cache key: {p[:50]}', imod.where(cfn), f'compile(): {p}')
        if problems:
            break
    if rule_pass is None:
        return
    plain = Obj(_cls='css_match.SoupSieve', _name='ALREADY_COMPILED', pattern='p', selectors=Obj(_name='SELECTORS'), namespaces=None, custom=None,
                flags=0)
    # a compiled object that itself carries flags and maps: an argument is "extra" also when it repeats what the object carries
    loaded = Obj(_cls='css_match.SoupSieve', _name='ALREADY_COMPILED_WITH_FLAGS', pattern='p', selectors=Obj(_name='SELECTORS'),
                 namespaces={'p': 'u'}, custom={':--x': 'y'}, flags=1)
    for compiled, (ns, cs, flags) in [(plain, c_) for c_ in itertools.product((None, {}, {'p': 'u'}), (None, {}, {':--x': 'y'}), (0, 1))] + \
            [(loaded, c_) for c_ in ((None, None, 0), (None, None, 1), ({'p': 'u'}, None, 0), (None, {':--x': 'y'}, 0), ({'p': 'u'}, {':--x': 'y'}, 1), (None, None, 3))]:
        stubs = {'isinstance': lambda v, c, _c=compiled: v is _c, 'cp._cached_css_compile': lambda *a, **k: Obj(_name='RECOMPILED'),
                 'css_parser._cached_css_compile': lambda *a, **k: Obj(_name='RECOMPILED'),
                 'ct.Namespaces': lambda a: Obj(_name='NS'), 'ct.CustomSelectors': lambda a: Obj(_name='CS')}
        try:
            r = Interp(ctx, '__init__', None, {}, stubs).run_function(imod, cfn, None, [compiled, ns, flags], {'custom': cs}, None)
            outcome = 'returns the same object' if r is compiled else f'returns {r!r}'
        except Raised as e:
            outcome = f'raises {e.exc_name}'
        except Unsupported as e:
            raise AnalysisError(f'compile(compiled): outside the evaluable fragment: {e}')
        extra = ns is not None or cs is not None or bool(flags)
        exp = 'raises ValueError' if extra else 'returns the same object'
        rule_pass.instance({'compile(compiled, ...)': {'namespaces': ns, 'custom': cs, 'flags': flags}, 'outcome': outcome, 'expected': exp},
                           key=f'pt|{compiled.get("flags")}|{ns}|{cs}|{flags}', sample_cap=3)
        rule_pass.obligation(outcome == exp)
        if outcome != exp:
            rule_pass.violation(f'__init__.compile pass-through {ns!r}/{cs!r}/{flags}', imod.where(cfn),
                                f'compile(compiled_selector, namespaces={ns!r}, flags={flags}, custom={cs!r}) {outcome}; expected: {exp}')


# ---- attribute selector patterns ------------------------------------------------------------------------------------------
def ref_css_unescape(content, string=False):
    """CSS Syntax 3 escape decoding (the reference the decoder regexes are proved equal to, C09-R6 / C10-R3)."""
    out, i, n = [], 0, len(content)
    hexd = '0123456789abcdefABCDEF'
    while i < n:
        c = content[i]
        if c != '\\':
            out.append(c)
            i += 1
            continue
        if i + 1 >= n:
            out.append('\ufffd')
            i += 1
        elif content[i + 1] in hexd:
            j = i + 1
            while j < n and j < i + 7 and content[j] in hexd:
                j += 1
            cp = int(content[i + 1:j], 16)
            if content[j:j + 2] == '\r\n':
                j += 2
            elif j < n and content[j] in ' \t\n\r\f':
                j += 1
            out.append('\ufffd' if cp == 0 or cp > 0x10FFFF else chr(cp))
            i = j
        elif content[i + 1] in '\n\r\f':
            if string:
                i += 3 if content[i + 1:i + 3] == '\r\n' else 2
            else:
                out.append(c)
                i += 1
        else:
            out.append(content[i + 1])
            i += 2
    return ''.join(out)


def attribute_patterns(ctx):
    """Interpret parse_attribute_selector for every operator x case flag x attribute kind x value; returns rows with the
    template(s) handed to re.compile: {op, case, attr, value, pattern, flags, twin_pattern, twin_flags, inverse}."""
    rows = []
    I, S = int(re.I), int(re.S)
    for op in (None, '=', '!=', '^=', '$=', '*=', '~=', '|='):
        for case in (None, 'i', 's', 'I', 'S'):
            for attr in ('href', 'type', 'TYPE'):
                for value, raw in (('', None), ('ab', None), ('a b', None), ('', '"\\\n"'), ('', "'\\\r\n\\\f'"), ('ab', '"\\61 b"'),
                                   ('ab', '\\61 b')):
                    if op is None and (case or value):
                        continue
                    if raw is not None and (case or attr != 'href'):
                        continue        # the spelling of the value is independent of flags and attribute kind
                    compiled = []

                    def rc(pat, flags=0, _c=compiled):
                        o = Obj(_name='re', pattern=pat, flags=flags, __isa__=('re.Pattern',))
                        _c.append(o)
                        return o
                    token = raw if raw is not None else (value if value and ' ' not in value else f'"{value}"')
                    m = match_obj({'cmp': op, 'case': case, 'attr_ns': None, 'attr_name': attr, 'value': token if op else None})
                    sel = fresh_sel()
                    ws_hit = lambda v: Obj(_name='m') if any(c in v for c in ' \t\r\n\f') else None    # noqa: E731
                    stubs = {'re.compile': rc, 'RE_WS.search': ws_hit, 're.Pattern.search': lambda rx_obj, v, *a_: ws_hit(v),
                             'css_parser._Selector': lambda **kw: fresh_sel(),
                             'css_parser.css_unescape': ref_css_unescape, 'css_unescape': ref_css_unescape}
                    try:
                        call_function(ctx, 'css_parser.CSSParser.parse_attribute_selector', [sel, m, False], {}, stubs, parser_obj())
                    except Unsupported as e:
                        raise AnalysisError(f'parse_attribute_selector: outside the evaluable fragment: {e}')
                    attrs = list(sel.get('attributes'))
                    inverse = False
                    if not attrs and sel.get('selectors'):
                        inverse = True
                        lst = sel.get('selectors')[0]
                        inner = lst.get('selectors')[0]
                        attrs = list(inner.get('attributes'))
                        inverse = bool(lst.get('is_not'))
                    if len(attrs) != 1:
                        raise AnalysisError('parse_attribute_selector: no SelectorAttribute produced')
                    a = attrs[0]
                    p, t = a.get('pattern'), a.get('xml_type_pattern')
                    rows.append({'op': op, 'case': case, 'attr': attr, 'value': value, 'raw': raw,
                                 'pattern': None if p is None else p.get('pattern'), 'flags': None if p is None else int(p.get('flags')),
                                 'twin_pattern': None if t is None else t.get('pattern'),
                                 'twin_flags': None if t is None else int(t.get('flags')), 'inverse': inverse,
                                 'name': a.get('attribute'), 'prefix': a.get('prefix')})
    return rows


# ---- nth -------------------------------------------------------------------------------------------------------------------
def nth_table(ctx, rule):
    """Interpret parse_pseudo_nth on every An+B spelling class; compare the SelectorNth records with the An+B they denote."""
    names = {':nth-child': (False, False), ':nth-last-child': (False, True), ':nth-of-type': (True, False),
             ':nth-last-of-type': (True, True)}
    forms = [('even', (2, True, 0)), ('odd', (2, True, 1)), ('EVEN', (2, True, 0))]
    for s1 in (None, '-', '+'):
        for a in ('n', '2n', '3', '0n', 'N', '10n'):
            for s2, b in ((None, None), ('+', '1'), ('-', '4'), ('+', '0')):
                if not a.lower().endswith('n') and s2 is not None:
                    continue
                sign = -1 if s1 == '-' else 1
                al = a.lower()
                var = al.endswith('n')
                coef = (1 if al == 'n' else int(al[:-1])) if var else int(al)
                bb = 0 if b is None else (int(b) * (-1 if s2 == '-' else 1))
                text = (s1 or '') + a + ((' ' + s2 + ' ' + b) if s2 else '')
                forms.append((text, (sign * coef, var, bb), (s1, a, s2, b)))
    for name, (of_type, last) in names.items():
        for form in forms[:3] + forms[3::5]:
            text, exp = form[0], form[1]
            groups = form[2] if len(form) > 2 else None
            rec = []
            child = 'of-type' not in name
            g = {'name': name.upper() if text == 'EVEN' else name, ('nth_child' if child else 'nth_type'): text,
                 ('pseudo_nth_child' if child else 'pseudo_nth_type'): name + '(' + text}
            if child:
                g['of'] = None
            m = match_obj(g, end=9)

            def nth_match(content, _g=groups):
                if _g is None:
                    return None
                s1, a, s2, b = _g
                return match_obj({'s1': s1, 'a': a.lower(), 's2': s2, 'b': b})

            def rec_nth(a_, n_, b_, ot, la, sel_):
                rec.append((a_, n_, b_, ot, la))
                return Obj(_name='SelectorNth')
            sel = fresh_sel()
            stubs = {'RE_NTH.match': nth_match, 'ct.SelectorNth': rec_nth, 'css_types.SelectorNth': rec_nth}
            try:
                call_function(ctx, 'css_parser.CSSParser.parse_pseudo_nth', [sel, m, False, iter(())], {}, stubs, parser_obj())
            except Raised as e:
                rec.append(f'raises {e.exc_name}')
            except Unsupported as e:
                raise AnalysisError(f'parse_pseudo_nth: outside the evaluable fragment: {e}')
            want = [(exp[0], exp[1], exp[2], of_type, last)]
            ok = rec == want
            rule.instance({'selector': f'{name}({text})', 'records': rec, 'expected': want}, key=f'{name}|{text}', sample_cap=4)
            rule.obligation(ok)
            if not ok:
                rule.violation(f'parse_pseudo_nth {name}({text})', 'soupsieve/css_parser.py (parse_pseudo_nth)',
                               f'{name}({text}) builds the nth record(s) {rec}; the An+B it denotes is {want} (a, n, b, of_type, last)')
                return


# ---- parameterless pseudo-classes: what each name does to the selector under construction ------------------------------
def pseudo_table(ctx) -> dict:
    """name -> {'flags', 'consts', 'nth', 'is_html', 'raises'} by interpreting CSSParser.parse_pseudo_class on the token
    `:name` (no parenthesis) for every name of PSEUDO_SIMPLE, whatever method the work is delegated to."""
    def build():
        out = {}
        simple = ctx.consts.const('css_parser', 'PSEUDO_SIMPLE')
        for name in sorted(simple):
            rec = []

            def rec_nth(a_, n_, b_, ot, la, sel_, _r=rec):
                _r.append((a_, n_, b_, ot, la))
                return Obj(_name='SelectorNth')
            sel = fresh_sel()
            m = match_obj({'name': name, 'open': None})
            row = {'flags': 0, 'consts': [], 'nth': rec, 'is_html': None, 'raises': None, 'other': []}
            try:
                res = call_function(ctx, 'css_parser.CSSParser.parse_pseudo_class', [sel, m, False, iter(()), False], {},
                                    {'ct.SelectorNth': rec_nth}, parser_obj())
                row['is_html'] = bool(res[1]) if isinstance(res, (tuple, list)) and len(res) == 2 else None
            except Raised as e:
                row['raises'] = e.exc_name
            except Unsupported as e:
                raise AnalysisError(f'parse_pseudo_class({name}): outside the evaluable fragment: {e}')
            row['flags'] = sel.get('flags')
            for s in sel.get('selectors'):
                f = object.__getattribute__(s, '_fields') if isinstance(s, Obj) else {}
                row['consts'].append(f.get('__const__', repr(s)))
            for fld in ('ids', 'classes', 'attributes', 'relations', 'contains', 'lang'):
                if sel.get(fld):
                    row['other'].append(fld)
            if sel.get('tag') is not None or sel.get('no_match') or sel.get('rel_type') is not None:
                row['other'].append('tag/no_match/rel_type')
            out[name] = row
        return out
    return ctx.get('pseudo_table', build)


def selector_constants(ctx) -> dict:
    """Selector lists compiled while css_parser is imported: name -> {'text', 'flags', 'parser_flags', 'custom'}.

    Every module-level assignment of css_parser is interpreted with a recording stand-in for the CSSParser class, so the
    answer does not depend on how the constant is spelled (a direct `CSSParser(text).process_selectors(flags=...)`, a helper
    function, a table of definitions)."""
    from ..interp import Interp

    def build():
        pmod = ctx.src.mod('css_parser')
        out = {}
        for st in pmod.tree.body:
            if isinstance(st, ast.Assign) and len(st.targets) == 1 and isinstance(st.targets[0], ast.Name):
                name, value = st.targets[0].id, st.value
            elif isinstance(st, ast.AnnAssign) and isinstance(st.target, ast.Name) and st.value is not None:
                name, value = st.target.id, st.value
            else:
                continue
            if not any(isinstance(c, ast.Call) for c in ast.walk(value)) or 're.compile' in ast.unparse(value)[:12]:
                continue
            rec = {}

            def parser_ctor(selector=None, custom=None, flags=0, _rec=rec, _name=name):
                o = Obj(_name='parser', pattern=selector, custom=custom, flags=flags)

                def ps(index=0, flags=0):
                    _rec.update(text=selector, flags=flags, index=index, parser_flags=o.get('flags'), custom=o.get('custom'))
                    return Obj(_cls='css_types.SelectorList', _name=_name, __const__=_name, selectors=(), is_not=False, is_html=False,
                               __iter__=[], __len__=0)
                o.set('process_selectors', ps)
                return o
            it = Interp(ctx, 'css_parser', None, {}, {'css_parser.CSSParser': parser_ctor}, shared={'steps': 0, 'no_const_shortcut': True})
            try:
                v = it.ev(value)
            except (Unsupported, Raised):
                continue
            if rec and isinstance(v, Obj) and v.has('__const__') and isinstance(rec.get('text'), str):
                out[name] = rec
        return out
    return ctx.get('selector_constants', build)


def const_flags(ctx) -> dict:
    """CSS_* selector constants of css_parser: name -> flags they were compiled with (0 if none)."""
    return {k: (v['flags'] if isinstance(v['flags'], int) else 0) for k, v in selector_constants(ctx).items()}


# ---- "same element type" of the -of-type pseudo-classes ------------------------------------------------------------------
def same_type_table(ctx, rule):
    """match_nth_tag_type(el, child) over name spellings x namespaces x document kind: two siblings are of the same type
    exactly when the type selector treats their names as the same (ASCII-insensitive in HTML, verbatim in XML) and their
    namespaces are equal."""
    from ..tables import el_obj, matcher_obj
    fnq = 'css_match.CSSMatch.match_nth_tag_type'
    mod, fn = ctx.src.func(fnq)
    first_bad = None
    for is_xml in (False, True, 'xhtml'):
        me = matcher_obj(is_xml=bool(is_xml), is_html=(not is_xml) or is_xml == 'xhtml', has_html_namespace=is_xml == 'xhtml')
        for a, b in itertools.product(('p', 'P', 'q'), ('p', 'P')):
            for ns_a, ns_b in (('n1', 'n1'), ('n1', 'n2'), (None, None), (None, 'n1')):
                try:
                    got = bool(call_function(ctx, fnq, [el_obj(a, namespace=ns_a, is_xml=is_xml), el_obj(b, namespace=ns_b, is_xml=is_xml)],
                                             {}, {'css_match.CSSMatch.supports_namespaces': lambda: True}, me))
                except Raised as e:
                    got = f'raises {e.exc_name}'
                except Unsupported as e:
                    raise AnalysisError(f'match_nth_tag_type: outside the evaluable fragment: {e}')
                same_name = (a == b) if is_xml else (a.lower() == b.lower())
                exp = same_name and ns_a == ns_b
                rule.instance({'xml': is_xml, 'element': (a, ns_a), 'sibling': (b, ns_b), 'same_type': got, 'expected': exp},
                              key=f'same-type|{is_xml}|{a}|{b}|{ns_a}|{ns_b}', sample_cap=3)
                if got != exp and first_bad is None:
                    first_bad = (is_xml, a, ns_a, b, ns_b, got, exp)
    rule.obligation(first_bad is None)
    if first_bad is not None:
        is_xml, a, ns_a, b, ns_b, got, exp = first_bad
        rule.violation('css_match.CSSMatch.match_nth_tag_type same-type table', mod.where(fn),
                       f'match_nth_tag_type says {got} for an element <{a}> (namespace {ns_a}) and a sibling <{b}> (namespace {ns_b}) in '
                       f'{"an XML" if is_xml else "an HTML"} document; expected {exp}: siblings are of one type exactly when their names '
                       f'are equal the way the type selector compares names (ASCII case-insensitively in HTML, verbatim in XML) and '
                       f'their namespaces are equal')


# ---- iframe policy: which walks stop at an iframe boundary ------------------------------------------------------------------
class _Stop(Exception):
    pass


def iframe_policy(ctx, rule, fnq, make_args, expect, what, accessors=('get_parent', 'get_children', 'get_contents',
                                                                      'get_descendants', 'get_tag_descendants', 'get_text',
                                                                      'get_own_text'), self_fields=None, first_only=True, extra_stubs=None, required=True):
    """Interpret `fnq` up to its first tree walk and compare the `no_iframe` argument it passes with the policy.
    `expect(is_html, iframe_restrict)` gives the required value; `what` says why (used in the report)."""
    mod, fn = ctx.src.func(fnq)
    params = {}
    for a in accessors:
        q = ctx.src.find_method('css_match.CSSMatch', a)
        if q:
            _, afn = ctx.src.func(q)
            params[q] = [x.arg for x in afn.args.args[1:]] + [x.arg for x in afn.args.kwonlyargs]
    bad = None
    n = 0
    for is_html, restrict in itertools.product((True, False), (True, False)):
        seen = []

        def mk(q):
            def stub(*a, **kw):
                bound = dict(zip(params[q], a))
                bound.update(kw)
                seen.append((q.split('.')[-1], bool(bound.get('no_iframe', False))))
                if first_only:
                    raise _Stop()
                return None if q.endswith('get_parent') else []
            return stub
        stubs = {q: mk(q) for q in params}
        stubs.update(extra_stubs or {})
        from ..tables import matcher_obj
        me = matcher_obj(is_xml=not is_html, is_html=is_html, iframe_restrict=restrict, **(self_fields or {}))
        try:
            call_function(ctx, fnq, make_args(), {}, stubs, me)
        except _Stop:
            pass
        except Raised:
            pass
        except Unsupported as e:
            if not seen:
                raise AnalysisError(f'{fnq}: outside the evaluable fragment before any tree walk: {e}')
        if not seen:
            if not required:
                rule.note(f'{fnq}: no tree walk reached for this input - nothing to compare')
                continue
            raise AnalysisError(f'{fnq}: no tree walk ({", ".join(accessors)}) was reached (anchor vanished)')
        exp = expect(is_html, restrict)
        for i, (acc, got) in enumerate(seen if not first_only else seen[:1]):
            n += 1
            rule.instance({'function': fnq.split('.')[-1], 'walk': acc, 'html_document': is_html, 'iframe_restrict': restrict,
                           'no_iframe_passed': got, 'expected': exp}, key=f'iframe|{fnq}|{is_html}|{restrict}|{i}', sample_cap=2)
            if got != exp and bad is None:
                bad = (acc, is_html, restrict, got, exp)
    rule.obligation(bad is None)
    if bad is not None:
        acc, is_html, restrict, got, exp = bad
        rule.violation(f'{fnq} iframe policy', mod.where(fn),
                       f'{fnq.split(".")[-1]} calls {acc}(..., no_iframe={got}) in {"an HTML" if is_html else "an XML"} document '
                       f'(iframe_restrict={restrict}); {what} requires no_iframe={exp}')


# ---- the SoupSieve methods: one matcher per call target, scoped on it ---------------------------------------------------------
def soupsieve_methods_table(ctx, rule):
    """Interpret SoupSieve.match/closest/filter/select/iselect/select_one with a recording stand-in for CSSMatch."""
    from ..tables import el_obj
    SEL, NS, FLG = Obj(_name='SELECTORS'), Obj(_name='NAMESPACES'), 7
    mod = ctx.src.mod('css_match')

    def session(truth):
        log = {'ctors': [], 'calls': []}

        def ctor(*a, **kw):
            names = ['selectors', 'scope', 'namespaces', 'flags']
            bound = dict(zip(names, a))
            bound.update(kw)
            m = Obj(_name=f'matcher#{len(log["ctors"])}', **bound)
            log['ctors'].append(m)

            def match(el, _m=m):
                log['calls'].append(('match', _m, el))
                return truth.get(id(el), False)

            def closest(_m=m):
                log['calls'].append(('closest', _m, None))
                return 'CLOSEST'

            def filt(_m=m):
                log['calls'].append(('filter', _m, None))
                return ['FILTERED']

            def select(limit=0, _m=m):
                log['calls'].append(('select', _m, limit))
                return ['S1', 'S2'][:limit or None]
            for k, f in (('match', match), ('closest', closest), ('filter', filt), ('select', select)):
                m.set(k, f)
            return m
        return log, {'css_match.CSSMatch': ctor, 'css_match._DocumentNav.is_navigable_string': lambda n: isinstance(n, str),
                     'css_match._DocumentNav.is_tag': lambda n: isinstance(n, Obj)}

    def run(method, args, kwargs=None, truth=None):
        log, stubs = session(truth or {})
        me = Obj(_cls='css_match.SoupSieve', _name='compiled', pattern='p', selectors=SEL, namespaces=NS, custom=None, flags=FLG)
        try:
            res = call_function(ctx, f'css_match.SoupSieve.{method}', args, kwargs or {}, stubs, me)
        except Raised as e:
            res = f'raises {e.exc_name}'
        except Unsupported as e:
            raise AnalysisError(f'SoupSieve.{method}: outside the evaluable fragment: {e}')
        return res, log

    def ctor_ok(m, target):
        return m.get('selectors') is SEL and m.get('scope') is target and m.get('namespaces') is NS and m.get('flags') == FLG

    def check(key, ok, detail, msg):
        rule.instance({'case': key, **detail, 'holds': ok}, key='api|' + key)
        rule.obligation(ok)
        if not ok:
            rule.violation(f'css_match.SoupSieve {key}', mod.where(mod.classes['SoupSieve']), msg)
    kids = [el_obj('child1'), 'text', el_obj('child2')]
    t = el_obj('target', contents=kids, __iter__=kids)
    for verdict in (True, False):
        res, log = run('match', [t], truth={id(t): verdict})
        ok = res is verdict and len(log['ctors']) == 1 and ctor_ok(log['ctors'][0], t) and \
            [(c[0], c[2]) for c in log['calls']] == [('match', t)]
        check(f'match -> {verdict}', ok, {'result': repr(res), 'matchers': len(log['ctors'])},
              f'SoupSieve.match(tag) must be CSSMatch(selectors, tag, namespaces, flags).match(tag): got {res!r} from '
              f'{len(log["ctors"])} matcher(s), calls {[(c[0], repr(c[2])) for c in log["calls"]]}')
    res, log = run('closest', [t])
    check('closest', res == 'CLOSEST' and len(log['ctors']) == 1 and ctor_ok(log['ctors'][0], t), {'result': repr(res)},
          'SoupSieve.closest(tag) must be CSSMatch(selectors, tag, namespaces, flags).closest()')
    res, log = run('filter', [t])
    check('filter(tag)', res == ['FILTERED'] and len(log['ctors']) == 1 and ctor_ok(log['ctors'][0], t), {'result': repr(res)},
          'SoupSieve.filter(tag) must be CSSMatch(selectors, tag, namespaces, flags).filter()')
    par = el_obj('parent')
    a, b, c = el_obj('a', parent=par), el_obj('b', parent=par), el_obj('c', parent=par)
    for truth in ({id(a): True, id(b): True, id(c): True}, {id(a): False, id(b): True, id(c): False}, {}):
        items = [a, 'text', b, c]
        res, log = run('filter', [items], truth=truth)
        exp = [x for x in (a, b, c) if truth.get(id(x), False)]
        per_item = all(m is not None and m.get('scope') is el and ctor_ok(m, el) for _, m, el in log['calls'])
        fresh = len({id(m) for _, m, _ in log['calls']}) == len(log['calls'])
        matched = [el for _, _, el in log['calls']]
        ok = isinstance(res, list) and len(res) == len(exp) and all(x is y for x, y in zip(res, exp)) and per_item and fresh \
            and len(matched) == 3 and all(x is y for x, y in zip(matched, (a, b, c)))
        check(f'filter(list) {sorted(truth.values())}', ok,
              {'result': repr(res), 'expected': repr(exp), 'own_matcher_per_item': per_item and fresh},
              f'SoupSieve.filter(iterable) must equal [x for x in iterable if x is a tag and match(x)] with a fresh matcher scoped on '
              f'each item: got {res!r} (expected {exp!r}); matcher scoped on its item: {per_item}; one matcher per item: {fresh}. '
              f'A matcher shared between items evaluates :scope against the wrong element and carries memo state across documents')
    for limit in (0, 1, 2):
        res, log = run('select', [t], {'limit': limit})
        exp = ['S1', 'S2'][:limit or None]
        ok = res == exp and len(log['ctors']) == 1 and ctor_ok(log['ctors'][0], t) and [c[2] for c in log['calls']] == [limit]
        check(f'select limit={limit}', ok, {'result': repr(res)},
              f'SoupSieve.select(tag, limit={limit}) must be list(CSSMatch(selectors, tag, namespaces, flags).select({limit})): got {res!r}, '
              f'limits passed {[c[2] for c in log["calls"]]}')
        res, log = run('iselect', [t], {'limit': limit})
        ok = list(res) == exp and len(log['ctors']) == 1 and ctor_ok(log['ctors'][0], t) and [c[2] for c in log['calls']] == [limit]
        check(f'iselect limit={limit}', ok, {'result': repr(res)},
              f'SoupSieve.iselect(tag, limit={limit}) must yield from CSSMatch(selectors, tag, namespaces, flags).select({limit})')
    res, log = run('select_one', [t])
    ok = res == 'S1' and [c[2] for c in log['calls']] == [1] and len(log['ctors']) == 1 and ctor_ok(log['ctors'][0], t)
    check('select_one', ok, {'result': repr(res)},
          f'SoupSieve.select_one(tag) must be the first element of select(tag, limit=1) (or None): got {res!r}, limits {[c[2] for c in log["calls"]]}')


from ..tables import el_obj as _el_obj  # noqa: E402


def _lang_tree(metas, html_lang=None, el_lang=None, body_lang=None):
    doc = _el_obj('[document]', label='BeautifulSoup')
    html = _el_obj('html', parent=doc, attrs=({'lang': html_lang} if html_lang is not None else {}))
    doc.set('contents', [html]); doc.set('__iter__', [html]); doc.set('__len__', 1)
    head = _el_obj('head', parent=html)
    ms = [_el_obj('meta', attrs=dict(a), parent=head) for a in metas]
    head.set('contents', ms)
    head.set('__iter__', ms)
    head.set('__len__', len(ms))
    body = _el_obj('body', parent=html, attrs=({'lang': body_lang} if body_lang is not None else {}))
    el = _el_obj('p', parent=body, attrs=({'lang': el_lang} if el_lang is not None else {}))
    body.set('contents', [el]); body.set('__iter__', [el]); body.set('__len__', 1)
    el.set('contents', []); el.set('__iter__', []); el.set('__len__', 0)
    html.set('contents', [head, body]); html.set('__iter__', [head, body]); html.set('__len__', 2)
    return html, el



# ---- :lang(): language of an element from lang attributes and the content-language pragma -----------------------------------
def lang_table(ctx, rule):
    """Interpret match_lang on small abstract HTML trees; the language filter is replaced by a recorder, so the table shows
    which language the element is found to have."""
    from ..tables import el_obj, matcher_obj
    fnq = 'css_match.CSSMatch.match_lang'
    mod, fn = ctx.src.func(fnq)

    tree = _lang_tree

    def language_of(metas, **kw):
        html, el = tree(metas, **kw)
        seen = []

        def filt(pattern, found):
            seen.append(found)
            return True
        me = matcher_obj(is_xml=False, is_html=True, root=html, cached_meta_lang=fresh_memo(ctx, 'cached_meta_lang'), has_html_namespace=False)
        stubs = {'css_match.CSSMatch.extended_language_filter': filt, 'css_match.CSSMatch.supports_namespaces': lambda: False,
                 'util.lower': strict_lower}
        langs = (Obj(_name='SelectorLang', languages=('xx',), __iter__=['xx'], __len__=1),)
        try:
            r = call_function(ctx, fnq, [el, langs], {}, stubs, me)
        except Raised as e:
            return f'raises {e.exc_name}'
        except Unsupported as e:
            raise AnalysisError(f'match_lang: outside the evaluable fragment: {e}')
        return seen[0] if seen else None
    P, C = ('http-equiv', 'content-language'), ('content', 'en-US')
    cases = [
        ('pragma, http-equiv first', [[P, C]], {}, 'en-US'),
        ('pragma, content first', [[C, P]], {}, 'en-US'),
        ('pragma with other attributes around', [[('name', 'x'), C, ('id', 'm'), P]], {}, 'en-US'),
        ('pragma spelled in upper case', [[('HTTP-EQUIV', 'Content-Language'), ('CONTENT', 'en-US')]], {}, 'en-US'),
        ('second meta is the pragma', [[('charset', 'utf-8')], [C, P]], {}, 'en-US'),
        ('multi-valued attributes (lists) on the meta elements', [[('class', ['a', 'b']), ('name', 'x')], [('rel', ['r']), P, ('class', ['c']), C]], {}, 'en-US'),
        ('meta with another http-equiv', [[('http-equiv', 'refresh'), C]], {}, None),
        ('content of an earlier meta does not leak into the pragma', [[('name', 'd'), ('content', 'zz')], [P]], {}, None),
        ('no meta', [], {}, None),
        ('lang attribute on the element wins', [[P, C]], {'el_lang': 'fr'}, 'fr'),
        ('lang attribute on an ancestor wins', [[P, C]], {'body_lang': 'de'}, 'de'),
        ('lang attribute on the root wins', [[C, P]], {'html_lang': 'it'}, 'it'),
        ('empty lang attribute is a language (unknown), not "missing"', [[P, C]], {'el_lang': ''}, ''),
    ]
    bad = bad_raise = None
    for what, metas, kw, exp in cases:
        got = language_of(metas, **kw)
        rule.instance({'case': what, 'language_found': got, 'expected': exp}, key='lang|' + what)
        if got != exp and bad is None:
            bad = (what, metas, kw, got, exp)
        if got != exp and isinstance(got, str) and got.startswith('raises') and bad_raise is None:
            bad_raise = (what, metas, kw, got, exp)
    rule.obligation(bad is None)
    for item in ([bad] if bad is not None else []) + ([bad_raise] if bad_raise is not None and bad_raise is not bad and bad_raise != bad else []):
        what, metas, kw, got, exp = item
        rule.violation(f'css_match.CSSMatch.match_lang table: {what}', mod.where(fn),
                       f'match_lang: case "{what}" (meta elements {metas}, lang attributes {kw}) - the element is found to have '
                       f'language {got!r}, expected {exp!r}: the nearest lang attribute wins; otherwise the first <meta> carrying both '
                       f'http-equiv=content-language and a non-empty content, in any attribute order and letter case')


# ---- evaluation context of a selector list: document-level gate, temporary prefix map, restoration ------------------------------
def list_context_table(ctx, rule):
    """match_selectors over (HTML-only list?, HTML document?, negated?, element in the HTML namespace?, a check fails?):
    the gate depends on list and document only; inside an HTML-only list the checks see the internal prefix map and the
    iframe restriction; after the call the matcher's own map and restriction are back, on every path."""
    inv = ctx.consts
    fnq = 'css_match.CSSMatch.match_selectors'
    mod, fn = ctx.src.func(fnq)
    xhtml = inv.folder.lookup('css_match', 'NS_XHTML')
    bad = None
    for list_html, doc_html, is_not, el_html, tag_ok, restrict0 in itertools.product((False, True), (False, True), (False, True),
                                                                                    (False, True), (True, False), (False, True)):
        orig_ns = {'p': 'urn:caller'}
        me = Obj(_cls='css_match.CSSMatch', _name='self', namespaces=orig_ns, iframe_restrict=restrict0, is_html=doc_html,
                 is_xml=not doc_html, has_html_namespace=False)
        observed = []

        def match_tag(el, tag, _me=me, _o=observed, _ok=tag_ok):
            _o.append((dict(_me.get('namespaces')) if isinstance(_me.get('namespaces'), dict) else repr(_me.get('namespaces')),
                       _me.get('iframe_restrict')))
            return _ok
        stubs = {f'self.{n}': (lambda *a, **k: True) for n in CHECKS}
        stubs['self.match_tag'] = match_tag
        q = ctx.src.find_method('css_match.CSSMatch', 'is_html_tag')
        if q:
            stubs[q] = lambda el, _v=el_html: _v
        sel = Obj(_cls='css_types.Selector', _name='Selector', tag=None, ids=(), classes=(), attributes=(), nth=(), selectors=(),
                  relation=Obj(_name='rel', __len__=0, __iter__=[], __bool__=False), rel_type=None, contains=(), lang=(), flags=0)
        lst = Obj(_cls='css_types.SelectorList', _name='list', selectors=(sel,), is_not=is_not, is_html=list_html,
                  __iter__=[sel], __len__=1)
        try:
            res = bool(call_function(ctx, fnq, [Obj(_name='el'), lst], {}, stubs, me))
        except Raised as e:
            res = f'raises {e.exc_name}'
        except Unsupported as e:
            raise AnalysisError(f'match_selectors: outside the evaluable fragment: {e}')
        gate = (not list_html) or doc_html
        exp = (tag_ok != is_not) if gate else False
        exp_seen = [({'html': xhtml}, True)] if (gate and list_html) else ([(orig_ns, restrict0)] if gate else [])
        restored = me.get('namespaces') is orig_ns and me.get('iframe_restrict') is restrict0
        problems = []
        if res != exp:
            problems.append(f'the result is {res}, expected {exp}')
        if observed != exp_seen:
            problems.append(f'the checks ran {len(observed)} time(s) and saw (prefix map, iframe restriction) = {observed}, expected {exp_seen}')
        if not restored:
            problems.append(f'afterwards the matcher is left with prefix map {me.get("namespaces")!r} / iframe_restrict='
                            f'{me.get("iframe_restrict")!r} instead of the caller\'s {orig_ns} / {restrict0}')
        rule.instance({'html_only_list': list_html, 'html_document': doc_html, 'negated': is_not, 'element_in_html_namespace': el_html,
                       'check_passes': tag_ok, 'iframe_restrict_before': restrict0, 'result': res, 'expected': exp,
                       'restored': restored}, key=f'ctx|{list_html}|{doc_html}|{is_not}|{el_html}|{tag_ok}|{restrict0}', sample_cap=3)
        if problems and bad is None:
            bad = (list_html, doc_html, is_not, el_html, tag_ok, restrict0, problems)
    rule.obligation(bad is None)
    if bad is not None:
        list_html, doc_html, is_not, el_html, tag_ok, restrict0, problems = bad
        rule.violation('css_match.CSSMatch.match_selectors list context', mod.where(fn),
                       f'match_selectors on {"an HTML-only" if list_html else "an ordinary"} {"negated " if is_not else ""}list in '
                       f'{"an HTML" if doc_html else "a non-HTML"} document, element {"inside" if el_html else "outside"} the HTML namespace, '
                       f'the compound {"passes" if tag_ok else "fails"}, iframe_restrict={restrict0} before the call: ' + '; '.join(problems)
                       + '. An HTML-only list is evaluated exactly when the document is HTML (whatever the element), under the internal '
                         'prefix map and iframe restriction, and the caller\'s context is restored on every path')


# ---- one simple selector alone is a selector --------------------------------------------------------------------------------
def single_token_table(ctx, rule):
    """parse_selectors on a token sequence that consists of ONE simple selector of each kind the tokenizer can produce: the
    compound it builds counts as a selector (no "expected a selector" error, exactly one alternative, the constraint recorded).
    The stand-in match objects carry exactly the groups the token's regex defines, so a handler that reads a group the regex
    does not have fails the row.  Token kinds that can never stand alone (combinator, closing parenthesis) or are refused by
    design (@rule, ::pseudo-element) must raise; a token kind the table does not know is an analysis error."""
    import re._parser as sp
    pmod, pfn = ctx.src.func('css_parser.CSSParser.parse_selectors')
    sl = Obj(_cls='css_types.SelectorList', _name='COMPILED_CUSTOM', selectors=(), is_not=False, is_html=False, __iter__=[], __len__=0)
    real_groups = {r.name.split(':', 1)[1]: set(sp.parse(r.pattern, r.flags).state.groupdict)
                   for r in ctx.consts.regexes if r.kind in ('token', 'special-token')}

    def values(text):
        return lambda rx_obj, s, *a: [match_obj({'value': text, 'split': None, 0: text})]

    def rtok(key, whole, **given):
        """(key, match stand-in with the regex's own groups), groups of the case that the regex no longer has."""
        real = real_groups.get(key)
        if real is None:
            return None, set()
        g = {k: given.get(k) for k in real}
        g[0] = whole
        return (key, match_obj(g, name=key, end=len(whole))), set(given) - real
    cases = [
        ('tag', ('tag', 'a', dict(tag_ns=None, tag_name='a')), 'tag', {}),
        ('id', ('id', '#a', {}), 'ids', {}),
        ('class', ('class', '.a', {}), 'classes', {}),
        ('attribute', ('attribute', '[a]', dict(cmp=None, case=None, attr_ns=None, attr_name='a', value=None)), 'attributes', {}),
        ('pseudo_class :root', ('pseudo_class', ':root', dict(name=':root', open=None)), 'flags', {}),
        ('pseudo_class :checked', ('pseudo_class', ':checked', dict(name=':checked', open=None)), 'selectors', {}),
        ('pseudo_class :first-child', ('pseudo_class', ':first-child', dict(name=':first-child', open=None)), 'nth', {}),
        ('pseudo_class_custom', ('pseudo_class_custom', ':--x', dict(name=':--x')), 'selectors', {}),
        ('pseudo_contains', ('pseudo_contains', ':-soup-contains(a)', dict(name=':-soup-contains', values='a', open='(')), 'contains',
         {'re.Pattern.finditer': values('a')}),
        ('pseudo_lang', ('pseudo_lang', ':lang(en)', dict(name=':lang', values='en', open='(')), 'lang', {'re.Pattern.finditer': values('en')}),
        ('pseudo_dir', ('pseudo_dir', ':dir(ltr)', dict(name=':dir', dir='ltr', open='(')), 'flags', {}),
        ('pseudo_nth_child', ('pseudo_nth_child', ':nth-child(2n+1)', dict(name=':nth-child', nth_child='2n+1', of=None, open='(',
                                                                            pseudo_nth_child=':nth-child(2n+1')), 'nth',
         {'re.Pattern.match': lambda rx_obj, s, *a: match_obj({'s1': None, 'a': '2n', 's2': '+', 'b': '1', 0: s})}),
        ('pseudo_nth_type', ('pseudo_nth_type', ':nth-of-type(2n+1)', dict(name=':nth-of-type', nth_type='2n+1', open='(',
                                                                            pseudo_nth_type=':nth-of-type(2n+1')), 'nth',
         {'re.Pattern.match': lambda rx_obj, s, *a: match_obj({'s1': None, 'a': '2n', 's2': '+', 'b': '1', 0: s})}),
        ('amp', ('amp', '&', {}), 'flags', {}),
        # never a selector on their own
        ('combine', ('combine', '>', dict(relation='>')), 'raises', {}),
        ('pseudo_close', ('pseudo_close', ')', {}), 'raises', {}),
        ('at_rule', ('at_rule', '@media', {}), 'raises', {}),
        ('pseudo_element', ('pseudo_element', '::before', dict(name='::before', open=None)), 'raises', {}),
    ]
    unknown = sorted(set(real_groups) - {c[1][0] for c in cases})
    if unknown:
        raise AnalysisError(f'the tokenizer produces token kind(s) {unknown} the single-token table has no row for')
    for what, (key, whole, given), field, extra in cases:
        token, stale = rtok(key, whole, **given)
        if token is None:
            rule.note(f'token kind {key!r} is not produced by the tokenizer of this tree: row skipped')
            continue
        stubs = dict(extra)
        raised = None
        try:
            it = iter([token])

            def nxt(x):
                try:
                    return next(x)
                except StopIteration:
                    raise Raised('StopIteration')
            stubs.update({'next': nxt, 'css_parser._Selector': lambda **kw: tables._sel_with(kw),
                          'css_types.SelectorNth': lambda *a_, **k_: Obj(_name='SelectorNth'),
                          'css_parser.CSS_NTH_OF_S_DEFAULT': sl})
            res = call_function(ctx, 'css_parser.CSSParser.parse_selectors', [it, 0, 0], {}, stubs,
                                parser_obj(custom={':--x': sl}))
            out = describe_selector(res)
            alts = out['list'] if isinstance(out, dict) else None
            got = f'{len(alts)} alternative(s)' if alts is not None else repr(out)
            ok = alts is not None and len(alts) == 1 and alts[0] != 'NULL' and field != 'raises'
            if ok:
                a = alts[0]
                raw = res.get('selectors')[0]
                present = {'tag': a['tag'] is not None, 'ids': bool(a['ids']), 'classes': bool(a['classes']), 'flags': bool(a['flags']),
                           'selectors': bool(a['selectors']), 'attributes': bool(raw.get('attributes')), 'nth': bool(raw.get('nth')),
                           'contains': bool(raw.get('contains')), 'lang': bool(raw.get('lang'))}
                ok = present.get(field, False)
                got += f', {field} {"recorded" if ok else "EMPTY"}'
        except Raised as e:
            raised = e.exc_name
            ok = field == 'raises' and e.exc_name in ('SelectorSyntaxError', 'NotImplementedError')
            got = f'raises {e.exc_name}' + (f' {e.args_[0]!r}' if e.args_ and isinstance(e.args_[0], str) else '')
        except Unsupported as e:
            raise AnalysisError(f'parse_selectors on one {what} token: outside the evaluable fragment: {e}')
        if not ok and stale and raised != 'IndexError':
            raise AnalysisError(f'the {key} token pattern no longer defines the group(s) {sorted(stale)} the single-token table fills in '
                                f'(table out of date): {got}')
        rule.instance({'single_token': what, 'outcome': got}, key='single|' + what)
        rule.obligation(ok)
        if not ok:
            if field == 'raises':
                rule.violation(f'css_parser.CSSParser.parse_selectors single {what}', pmod.where(pfn),
                               f'a selector that consists of one {what} token alone: {got}; it must be refused with SelectorSyntaxError / '
                               f'NotImplementedError - a token that is silently skipped changes the meaning of the selector around it')
            else:
                rule.violation(f'css_parser.CSSParser.parse_selectors single {what}', pmod.where(pfn),
                               f'a selector that consists of one {what} simple selector alone: {got}; it must compile to one alternative with '
                               f'its {field} recorded. A token kind without a handler (or a handler that reads a group its pattern does not '
                               f'define, or does not report "a selector was seen") makes such a compound a syntax error in ordinary lists '
                               f'and an empty (never matching) slot in forgiving lists like :is()')


# ---- :dir(): directionality per the HTML Standard ---------------------------------------------------------------------------
def dir_table(ctx, rule):
    """Interpret match_dir (and find_bidi) on small abstract trees: element kind x dir attribute x text x context."""
    from ..tables import el_obj, matcher_obj
    inv = ctx.consts
    LTR, RTL = inv.folder.lookup('css_types', 'SEL_DIR_LTR'), inv.folder.lookup('css_types', 'SEL_DIR_RTL')
    fnq = 'css_match.CSSMatch.match_dir'
    mod, fn = ctx.src.func(fnq)
    bidi = {'L': 'L', 'R': 'R', 'A': 'AL', 'N': 'ON', '1': 'EN', ' ': 'WS'}

    def setkids(node, kids):
        node.set('contents', kids)
        node.set('__iter__', kids)
        node.set('__len__', len(kids))

    def build(kind, dirv, text, pdir):
        root = el_obj('html')
        par = el_obj('div', parent=root, attrs=dict({'class': ['x', 'y']}, **({'dir': pdir} if pdir else {})))
        attrs = {'class': ['a', 'b'], 'accesskey': ['k']}
        name = kind
        if kind.startswith('input'):
            name, attrs['type'] = 'input', kind.split(':')[1]
            if text:
                attrs['value'] = ''.join(t for t in text if isinstance(t, str))
        if dirv is not None:
            attrs['dir'] = dirv
        el = el_obj(name, parent=par, attrs=attrs)
        setkids(el, [] if kind.startswith('input') else [TextNode(t[1], t[0][1:]) if isinstance(t, tuple) else TextNode(t) for t in text])
        setkids(par, [el])
        setkids(root, [par])
        return root, el

    def strong(chars):
        for c in chars:
            if bidi[c] in ('L', 'R', 'AL'):
                return 'ltr' if bidi[c] == 'L' else 'rtl'
        return None

    def reference(kind, dirv, text, pdir):
        d = dirv.lower() if dirv and dirv.lower() in ('ltr', 'rtl', 'auto') else None     # other values: the undefined state
        parent_dir = pdir or 'ltr'          # the parent is a div below the root: its own attribute or the root's default
        if d in ('ltr', 'rtl'):
            return d
        chars = ''.join(t for t in text if isinstance(t, str))
        texty = kind == 'textarea' or kind in ('input:text', 'input:tel')
        if d == 'auto' and texty:
            s_ = strong(chars)
            if s_:
                return s_
            return 'ltr' if chars else parent_dir
        if d == 'auto' or (kind == 'bdi' and d is None):
            s_ = None if kind.startswith('input') else strong(chars)
            return s_ or parent_dir
        if kind == 'input:tel':
            return 'ltr'
        return parent_dir
    kinds = ('div', 'bdi', 'textarea', 'input:text', 'input:tel', 'input:checkbox')
    dirs = (None, 'ltr', 'RTL', 'auto', 'bogus')
    texts = ((), ('N1',), ('N', 'L'), ('1R', 'L'), ('NA',), (('#comment', 'R'), 'NL'), (('#cdata', 'A'), ('#pi', 'R'), 'N'), (' ',), (' ', '  '), ('  R',))
    bad = None
    for kind, dirv, text, pdir in itertools.product(kinds, dirs, texts, (None, 'rtl', 'ltr')):
        text = tuple(text)
        root, el = build(kind, dirv, text, pdir)
        me = matcher_obj(is_xml=False, is_html=True, root=root)
        stubs = {'unicodedata.bidirectional': lambda c: bidi[c], 'util.lower': strict_lower,
                 'css_match.CSSMatch.supports_namespaces': lambda: False,
                 }
        got = {}
        for name, flag in (('ltr', LTR), ('rtl', RTL)):
            try:
                got[name] = bool(call_function(ctx, fnq, [el, flag], {}, stubs, me))
            except Raised as e:
                got[name] = f'raises {e.exc_name}'
            except Unsupported as e:
                raise AnalysisError(f'match_dir: outside the evaluable fragment: {e}')
        exp = reference(kind, dirv, text, pdir)
        want = {'ltr': exp == 'ltr', 'rtl': exp == 'rtl'}
        rule.instance({'element': kind, 'dir': dirv, 'text': list(text), 'parent_dir': pdir, ':dir(ltr)': got['ltr'], ':dir(rtl)': got['rtl'],
                       'expected': exp}, key=f'dir|{kind}|{dirv}|{text}|{pdir}', sample_cap=4)
        if got != want and bad is None:
            bad = (kind, dirv, text, pdir, got, exp)
    rule.obligation(bad is None)
    if bad is not None:
        kind, dirv, text, pdir, got, exp = bad
        rule.violation('css_match.CSSMatch.match_dir table', mod.where(fn),
                       f'match_dir: <{kind.replace(":", " type=")}{" dir=" + dirv if dirv else ""}> with text {list(text)} (L/R/A = strong '
                       f'left/right/Arabic letter, N/1 = neutral/number) under a parent with dir={pdir}: :dir(ltr) is {got["ltr"]}, :dir(rtl) is '
                       f'{got["rtl"]}; the HTML Standard gives directionality {exp} (exactly one of the two must hold)')


# ---- scanner loops: the position at which a match is attempted strictly increases ---------------------------------------------
def scanner_progress(ctx, rule, fnq, run, n_tokens_kinds, what):
    """`run(matcher_factory)` interprets the scanner on a 3-character input with every regex replaced by an abstract matcher.
    For "token kind k matches everywhere with the minimal advance (end = pos + 1)" and for "nothing matches", the positions
    at which matches are attempted must strictly increase and the scanner must stop.  Each iteration of a scanner depends on
    its position only through the outcome of the match attempts, so these cases cover every input (given non-nullable tokens,
    which the regex rules establish)."""
    mod, fn = ctx.src.func(fnq)
    bad = None
    for kind in list(range(n_tokens_kinds)) + [None]:
        attempts = []
        outcome = run(kind, attempts)
        per_pos = {}
        for k_, pos in attempts:
            per_pos.setdefault(pos, 0)
            per_pos[pos] += 1
        positions = [p for _, p in attempts]
        # a position may be tried once per token kind, but once a later position has been tried no earlier one may recur
        mono = all(positions[i] <= positions[i + 1] for i in range(len(positions) - 1))
        bounded = all(v <= max(1, n_tokens_kinds) + 2 for v in per_pos.values())
        ok = mono and bounded and not (isinstance(outcome, str) and outcome.startswith('no progress'))
        rule.instance({'scanner': fnq, 'case': 'no token matches' if kind is None else f'token #{kind} matches with end = pos + 1',
                       'positions_tried': sorted(per_pos), 'outcome': outcome if isinstance(outcome, str) else 'returns'},
                      key=f'progress|{fnq}|{kind}')
        if not ok and bad is None:
            bad = (kind, positions[:12], outcome)
    rule.obligation(bad is None)
    if bad is not None:
        kind, positions, outcome = bad
        rule.violation(f'{fnq} loop-progress', mod.where(fn),
                       f'{what}: with {"no token matching" if kind is None else f"token #{kind} matching one character at every position"} the '
                       f'scanner attempts matches at positions {positions}... ({outcome}): the position does not strictly increase, so the '
                       f'loop never terminates on input that takes this path')


def tokenizer_progress(ctx, rule):
    fnq = 'css_parser.CSSParser.selector_iter'

    def run(kind, attempts, n=3):
        def mk(i):
            def match(selector, index, flags=0, _i=i):
                attempts.append((_i, index))
                if len(attempts) > 60:
                    raise Raised('no progress')
                if kind == _i and index < len(selector):
                    return match_obj({0: selector[index]}, name=f'tok{_i}', start=index, end=index + 1)
                return None
            return Obj(_name=f'pattern{i}', match=match, get_name=lambda m=None, _i=i: f'tok{_i}', name=f'tok{i}')
        me = parser_obj(pattern='XXX')
        me.set('css_tokens', tuple(mk(i) for i in range(n)))
        stubs = {'re.Pattern.search': lambda rx_obj, s, *a: None, 're.Pattern.match': lambda rx_obj, s, *a: None}
        try:
            call_function(ctx, fnq, ['XXX'], {}, stubs, me)
            return 'returns'
        except Raised as e:
            return 'no progress' if e.exc_name == 'no progress' else f'raises {e.exc_name}'
        except Unsupported as e:
            raise AnalysisError(f'selector_iter: outside the evaluable fragment: {e}')
    scanner_progress(ctx, rule, fnq, run, 3, 'the selector tokenizer')


def pretty_progress(ctx, rule):
    fnq = 'pretty.pretty'
    # the token table as the module builds it (a dict literal, or a table completed by import-time loops): by interpretation
    from .c20 import pretty_tokens
    pats = [r_.pattern for r_ in pretty_tokens(ctx).values()]
    if not pats:
        raise AnalysisError('pretty.TOKENS is empty')

    def run(kind, attempts):
        def matcher(rx_obj, text, pos=0, *a_):
            i = pats.index(rx_obj.get('pattern')) if rx_obj.get('pattern') in pats else -1
            attempts.append((i, pos))
            if len(attempts) > 40 * max(1, len(pats)):
                raise Raised('no progress')
            if kind is not None and i == kind and pos < len(text):
                return match_obj({0: text[pos], 1: text[pos]}, name=f'tok{i}', start=pos, end=pos + 1)
            return None
        try:
            call_function(ctx, fnq, [Obj(_name='obj')], {}, {'str': lambda o: 'XXX', 're.Pattern.match': matcher})
            return 'returns'
        except Raised as e:
            return 'no progress' if e.exc_name == 'no progress' else f'raises {e.exc_name}'
        except Unsupported as e:
            raise AnalysisError(f'pretty(): outside the evaluable fragment: {e}')
    scanner_progress(ctx, rule, fnq, run, len(pats), 'the debug pretty-printer')



def lang_logic_table(ctx, rule):
    """Several :lang() in one compound are a conjunction, the ranges of one :lang() a disjunction."""
    from ..tables import matcher_obj
    fnq = 'css_match.CSSMatch.match_lang'
    mod, fn = ctx.src.func(fnq)
    cases = [([['Y']], True), ([['N']], False), ([['N', 'Y']], True), ([['Y', 'N']], True), ([['Y'], ['N']], False), ([['N'], ['Y']], False),
             ([['Y'], ['Y', 'N']], True), ([['Y', 'N'], ['N']], False), ([['Y'], ['Y'], ['N']], False), ([['N', 'N'], ['Y']], False),
             ([['Y'], ['N', 'Y'], ['Y']], True)]
    bad = None
    for groups, exp in cases:
        html, el = _lang_tree([], el_lang='xx')
        me = matcher_obj(is_xml=False, is_html=True, root=html, cached_meta_lang=fresh_memo(ctx, 'cached_meta_lang'), has_html_namespace=False)
        stubs = {'css_match.CSSMatch.extended_language_filter': lambda pattern, found: pattern.startswith('Y'),
                 'css_match.CSSMatch.supports_namespaces': lambda: False, 'util.lower': strict_lower}
        langs = tuple(Obj(_name='SelectorLang', languages=tuple(g), __iter__=list(g), __len__=len(g)) for g in groups)
        try:
            got = bool(call_function(ctx, fnq, [el, langs], {}, stubs, me))
        except Raised as e:
            got = f'raises {e.exc_name}'
        except Unsupported as e:
            raise AnalysisError(f'match_lang: outside the evaluable fragment: {e}')
        rule.instance({'lang_pseudo_classes': groups, 'matches': got, 'expected': exp}, key=f'langlogic|{groups}')
        if got != exp and bad is None:
            bad = (groups, got, exp)
    rule.obligation(bad is None)
    if bad is not None:
        groups, got, exp = bad
        rule.violation('css_match.CSSMatch.match_lang conjunction', mod.where(fn),
                       f'match_lang for the compound {"".join(":lang(" + ", ".join(g) + ")" for g in groups)} (Y = a range that matches the '
                       f"element's language, N = one that does not) gives {got}, expected {exp}: every :lang() of a compound must match, "
                       f'each through at least one of its ranges')


def lang_memo_table(ctx, rule):
    """Transparency of the per-matcher <meta> language memo: with ONE matcher, the language found for a sequence of
    elements (same document, then another document reached through the same matcher) equals what a fresh matcher finds."""
    from ..tables import matcher_obj
    fnq = 'css_match.CSSMatch.match_lang'
    mod, fn = ctx.src.func(fnq)
    P = ('http-equiv', 'content-language')

    def doc(lang):
        metas = [[P, ('content', lang)]] if lang else []
        html, el = _lang_tree(metas)
        body = el.get('parent')
        el2 = _el_obj('p', parent=body)
        el2.set('contents', []); el2.set('__iter__', []); el2.set('__len__', 0)
        kids = [el, el2]
        body.set('contents', kids); body.set('__iter__', kids); body.set('__len__', 2)
        return html, el, el2

    def found(me, el):
        seen = []
        stubs = {'css_match.CSSMatch.extended_language_filter': lambda pattern, f: (seen.append(f), True)[1],
                 'css_match.CSSMatch.supports_namespaces': lambda: False}
        langs = (Obj(_name='SelectorLang', languages=('xx',), __iter__=['xx'], __len__=1),)
        try:
            call_function(ctx, fnq, [el, langs], {}, stubs, me)
        except Raised as e:
            return f'raises {e.exc_name}'
        except Unsupported as e:
            raise AnalysisError(f'match_lang: outside the evaluable fragment: {e}')
        return seen[0] if seen else None
    bad = None
    for lang_a, lang_b in (('en', 'fr'), ('en', None), (None, 'fr'), (None, None), ('en', 'en')):
        a = doc(lang_a)
        b = doc(lang_b)
        for order in ((a[1], a[2], b[1], b[2], a[1]), (b[1], a[1], b[2], a[2]), (a[1], b[1], a[2])):
            me = matcher_obj(is_xml=False, is_html=True, root=a[0], cached_meta_lang=fresh_memo(ctx, 'cached_meta_lang'), has_html_namespace=False)
            got, exp = [], []
            for el in order:
                got.append(found(me, el))
                fresh = matcher_obj(is_xml=False, is_html=True, root=a[0], cached_meta_lang=fresh_memo(ctx, 'cached_meta_lang'), has_html_namespace=False)
                exp.append(found(fresh, el))
            names = ['A' if e in a else 'B' for e in order]
            rule.instance({'documents': {'A': lang_a, 'B': lang_b}, 'elements_visited': names, 'languages_found': got,
                           'with_fresh_matchers': exp}, key=f'memo|{lang_a}|{lang_b}|{"".join(names)}', sample_cap=3)
            if got != exp and bad is None:
                bad = (lang_a, lang_b, names, got, exp)
    rule.obligation(bad is None)
    if bad is not None:
        lang_a, lang_b, names, got, exp = bad
        rule.violation('css_match.CSSMatch.match_lang memo', mod.where(fn),
                       f'match_lang with one matcher over elements of documents {names} (content-language pragma of A: {lang_a!r}, of B: '
                       f'{lang_b!r}; B is a separate tree such as the document inside an iframe): languages found {got}, a fresh matcher per '
                       f'element finds {exp}. The <meta> memo must be transparent: keyed by the top of the walk, a miss stored as a miss, '
                       f'a hit returning what was computed')


# ---- value classes of the IR: constructor, equality, hash and the pickle/copy reducer agree ------------------------------------------
def immutable_table(ctx, rule, classes):
    """For every value class: build an object through its real constructor (object.__setattr__ modelled, hash()/type() replaced
    by injective stand-ins), then (1) every slot holds the same-named constructor argument, (2) the pickle/copy reducer
    rebuilds an equal object with an equal hash, (3) changing any single field makes the objects unequal."""
    stubs = {'hash': lambda v: ('hash', v), 'type': lambda v: type(v).__name__}
    opts = {'real_immutable': True}

    def construct(cq, args):
        if isinstance(cq, str):
            cq = PkgClass(cq)
        if not isinstance(cq, PkgClass):
            raise Raised(f'TypeError (the reducer names {cq!r} as constructor, not a class)')
        it = Interp(ctx, cq.qual.split('.')[0], None, {}, stubs, shared={'steps': 0, 'real_immutable': True})
        return it.apply(cq, list(args), {})

    def call(q, args, me):
        return call_function(ctx, q, args, {}, stubs, me, options=opts)
    for cq in classes:
        mn, _, cn = cq.partition('.')
        mod = ctx.src.mods[mn]
        initq = ctx.src.find_method(cq, '__init__')
        _, init = ctx.src.func(initq)
        params = [a.arg for a in init.args.args[1:]]
        if init.args.kwarg is not None and not params:
            continue            # the base class itself
        problems = []
        try:
            markers = [(f'<{p}>',) for p in params]
            obj = construct(cq, markers)
            fields = {k: v for k, v in object.__getattribute__(obj, '_fields').items() if not k.startswith('__')}
            slots = Interp(ctx, mn, cn, {}, stubs).getattr(obj, '__slots__')
            if not slots or slots[-1] != '_hash':
                problems.append(f'__slots__ {slots} does not end with _hash')
            want_fields = list(slots[:-1])
            if sorted(k for k in fields if k != '_hash') != sorted(want_fields):
                problems.append(f'the constructor sets fields {sorted(k for k in fields if k != "_hash")}, __slots__[:-1] is {want_fields}')
            for p_, m_ in zip(params, markers):
                if p_ in fields and fields[p_] != m_:
                    problems.append(f'field {p_} holds {fields[p_]!r} when the constructor argument {p_} is {m_!r}')
            if not problems:
                ctor, args = call('css_types._pickle', [obj], None)
                clone = construct(ctor, list(args))
                eq = call('css_types.Immutable.__eq__', [clone], obj)
                ne = call('css_types.Immutable.__ne__', [clone], obj)
                h1, h2 = call('css_types.Immutable.__hash__', [], obj), call('css_types.Immutable.__hash__', [], clone)
                cf = dict(object.__getattribute__(clone, '_fields'))
                if eq is not True or ne is not False or h1 != h2:
                    diff = [k for k in fields if cf.get(k) != fields[k]]
                    problems.append(f'the pickle/copy reducer rebuilds an object that is {"un" if eq is not True else ""}equal '
                                    f'(__eq__ {eq}, __ne__ {ne}, hashes {"equal" if h1 == h2 else "differ"}); fields that differ: {diff}')
                for i, p_ in enumerate(params):
                    other = list(markers)
                    other[i] = ('<changed>',)
                    o2 = construct(cq, other)
                    eq = call('css_types.Immutable.__eq__', [o2], obj)
                    ne = call('css_types.Immutable.__ne__', [o2], obj)
                    h2 = call('css_types.Immutable.__hash__', [], o2)
                    if eq is not False or ne is not True or h2 == h1:
                        problems.append(f'objects that differ only in {p_} compare __eq__ {eq} / __ne__ {ne}, hashes '
                                        f'{"equal" if h2 == h1 else "differ"}')
                stranger = Obj(_cls='css_types.ImmutableDict', _name='stranger')
                if call('css_types.Immutable.__eq__', [stranger], obj) is not False or call('css_types.Immutable.__ne__', [stranger], obj) is not True:
                    problems.append('an object of an unrelated class compares equal')
        except Raised as e:
            problems.append(f'construction / comparison raises {e.exc_name}')
        except Unsupported as e:
            raise AnalysisError(f'{cq}: outside the evaluable fragment: {e}')
        rule.instance({'class': cq, 'constructor_parameters': params, 'problems': problems}, key='value|' + cq)
        rule.obligation(not problems)
        for p_ in problems:
            rule.violation(f'{cq} {p_[:60]}', mod.where(mod.classes[cn]), f'{cq}: {p_}')


# ---- the pattern text on its way from the API to the tokenizer ------------------------------------------------------------------
def top_level_ok(trace):
    pa_, pk_ = trace.get('process_args', ((), {}))
    return not any(pa_) and not any(pk_.values())


def pattern_handover_table(ctx, rule, flags=(0, 1)):
    """Interpret compile() -> _cached_css_compile() -> CSSParser.__init__ -> process_selectors with recording stand-ins: the
    text the tokenizer iterates over is the caller's text, except that NUL becomes U+FFFD."""
    texts = ['PAT', 'a\x00b', ' a\\ ', 'A\tb\n', '']
    pmod = ctx.src.mod('css_parser')
    bad = None
    for text, fl in itertools.product(texts, flags):
        exp = text.replace('\x00', '�')
        trace = {}

        def cached_stub(*a, **k):
            trace['to_cache'] = a[0] if a else k.get('pattern')
            return call_function(ctx, 'css_parser._cached_css_compile', list(a), dict(k), inner_stubs, None)

        def parser_ctor(*a, **k):
            sel = a[0] if a else k.get('selector')
            trace['to_parser'] = sel
            me = Obj(_cls='css_parser.CSSParser', _name='parser')
            kw = dict(k)
            kw.pop('selector', None)
            call_function(ctx, 'css_parser.CSSParser.__init__', [sel] + list(a[1:]), kw, {}, me)
            trace['stored'] = me.get('pattern') if me.has('pattern') else None

            def process_selectors(*pa, **pk):
                trace['process_args'] = (tuple(pa), dict(pk))

                def selector_iter(p_):
                    trace['tokenized'] = p_
                    return []
                st = {'css_parser.CSSParser.selector_iter': selector_iter,
                      'css_parser.CSSParser.parse_selectors': lambda it_, *x, **y: Obj(_name='SelectorList')}
                return call_function(ctx, 'css_parser.CSSParser.process_selectors', list(pa), dict(pk), st, me)
            me.set('process_selectors', process_selectors)
            return me
        inner_stubs = {'css_parser.CSSParser': parser_ctor, 'css_match.SoupSieve': lambda *a, **k: Obj(_name='SoupSieve', pattern=a[0] if a else k.get('pattern'))}
        stubs = {'cp._cached_css_compile': cached_stub, 'isinstance': lambda v, c: False}
        try:
            res = call_function(ctx, '__init__.compile', [text, None, fl], {}, stubs, None)
        except Raised as e:
            trace['raises'] = e.exc_name
            res = None
        except Unsupported as e:
            raise AnalysisError(f'compile() hand-over: outside the evaluable fragment: {e}')
        final = res.get('pattern') if isinstance(res, Obj) and res.has('pattern') else None
        pa_, pk_ = trace.get('process_args', ((), {}))
        top_level = not any(pa_) and not any(pk_.values())        # index 0 and no private parser flags for the top-level list
        ok = trace.get('to_cache') == text and trace.get('to_parser') == text and trace.get('stored') == exp \
            and trace.get('tokenized') == exp and final == text and 'raises' not in trace and top_level
        rule.instance({'pattern': text, 'flags': fl, 'process_selectors_args': trace.get('process_args'), 'to_cache': trace.get('to_cache'), 'to_parser': trace.get('to_parser'),
                       'stored': trace.get('stored'), 'tokenized': trace.get('tokenized'), 'SoupSieve.pattern': final}, key=f'handover|{text!r}|{fl}')
        if not ok and bad is None:
            bad = (text, dict(trace), final, exp)
    rule.obligation(bad is None)
    if bad is not None:
        text, trace, final, exp = bad
        rule.violation('css_parser pattern hand-over', 'soupsieve/__init__.py (compile) -> soupsieve/css_parser.py',
                       f'the pattern {text!r} reaches the cache as {trace.get("to_cache")!r}, the parser as {trace.get("to_parser")!r}, is '
                       f'stored as {trace.get("stored")!r}, tokenized as {trace.get("tokenized")!r} and kept on the compiled object as '
                       f'{final!r}{" (raises " + trace["raises"] + ")" if "raises" in trace else ""}; expected the text itself everywhere '
                       f'({exp!r} for the tokenizer: only NUL -> U+FFFD): escape() output such as a trailing escaped space must not be '
                       f'altered before parsing' + ('' if top_level_ok(trace) else f'; process_selectors is called with {trace.get("process_args")}: '
                       f'the public flags (DEBUG = 1) are not the parser-private FLG_* bits - the top-level list must be parsed with '
                       f'index 0 and flags 0'))


# ---- tree walks on small abstract bs4 trees (bounded: a finite family of shapes chosen to exercise every branch) ---------------
from ..tables import TextNode, build_tree  # noqa: E402

_IF = ('iframe', {'_label': 'if'}, [('html', {}, [('p', {'_label': 'inner'}, ['in'])])])
TREES = {
    'iframe followed by a sibling': [('html', {'_label': 'root'}, [('body', {}, [('div', {'_label': 'd'}, ['t1', _IF, ('b', {}, []), ('#comment', 'c')])])])],
    'iframe is the last child, text follows its parent': [('html', {'_label': 'root'}, [('body', {}, [('div', {'_label': 'd'}, [('a', {}, []), _IF]), ('c', {}, ['after'])])])],
    'iframe subtree ends the document': [('html', {'_label': 'root'}, [('body', {}, [('div', {'_label': 'd'}, [('iframe', {'_label': 'if'}, [('x', {}, []), ('y', {}, [('z', {}, [])])])])])])],
    'empty iframe': [('html', {'_label': 'root'}, [('body', {}, [('div', {'_label': 'd'}, [('iframe', {'_label': 'if'}, []), ('e', {}, [])])])])],
    'nested iframes': [('html', {'_label': 'root'}, [('div', {'_label': 'd'}, [('iframe', {'_label': 'if'}, [('iframe', {}, [('q', {}, [])]), ('r', {}, [])]), ('s', {}, [])])])],
    'iframe with text only, tail text': [('html', {'_label': 'root'}, [('body', {}, [('div', {'_label': 'd'}, [('iframe', {'_label': 'if'}, ['only text'])]), 'tail'])])],
    'several top-level nodes, iframe ends the second': [('p', {'_label': 'root'}, ['x']), ('div', {'_label': 'd'}, ['y', ('iframe', {'_label': 'if'}, [('html', {}, [('p', {}, [])])])])],
    'no iframe': [('html', {'_label': 'root'}, [('div', {'_label': 'd'}, ['a', ('b', {}, [('c', {}, ['x'])]), ('#cdata', 'raw'), ('e', {}, [])])])],
}


def _kids(n):
    return [] if isinstance(n, TextNode) else n.get('contents')


def _is_iframe(n):
    return not isinstance(n, TextNode) and str(n.get('name')).lower() == 'iframe'


def descendants_table(ctx, rule):
    """get_descendants(el, tags, no_iframe) against the definition: the nodes below el in document order, without the
    content of iframe elements when no_iframe is set (nothing at all if el itself is such an iframe)."""
    from ..tables import matcher_obj
    fnq = 'css_match._DocumentNav.get_descendants'
    mod, fn = ctx.src.func(fnq)

    def ref(n, tags, no_iframe, top=True):
        if top and no_iframe and _is_iframe(n):
            return []
        out = []
        for c in _kids(n):
            if isinstance(c, TextNode):
                if not tags:
                    out.append(c)
            else:
                out.append(c)
                if not (no_iframe and _is_iframe(c)):
                    out += ref(c, tags, no_iframe, False)
        return out
    bad = None
    for what, spec in TREES.items():
        doc, order, labels = build_tree(spec)
        me = matcher_obj(is_xml=False, is_html=True, root=labels['root'])
        stubs = {'css_match.CSSMatch.supports_namespaces': lambda: False, 'util.lower': strict_lower}
        starts = [doc] + [n for n in order if not isinstance(n, TextNode)]
        for start in starts:
            for tags, no_iframe in itertools.product((False, True), (False, True)):
                try:
                    got = call_function(ctx, fnq, [start], {'tags': tags, 'no_iframe': no_iframe}, stubs, me)
                    got = list(got)
                except Raised as e:
                    got = f'raises {e.exc_name}'
                except Unsupported as e:
                    raise AnalysisError(f'get_descendants: outside the evaluable fragment: {e}')
                exp = ref(start, tags, no_iframe)
                ok = isinstance(got, list) and len(got) == len(exp) and all(a is b for a, b in zip(got, exp))
                rule.instance({'tree': what, 'start': repr(start), 'tags': tags, 'no_iframe': no_iframe, 'nodes': len(exp), 'agrees': ok},
                              key=f'desc|{what}|{order.index(start) if start in order else -1}|{tags}|{no_iframe}', sample_cap=3)
                if not ok and bad is None:
                    bad = (what, start, tags, no_iframe, got, exp)
    rule.obligation(bad is None)
    if bad is not None:
        what, start, tags, no_iframe, got, exp = bad
        rule.violation('css_match._DocumentNav.get_descendants walk', mod.where(fn),
                       f'get_descendants({start!r}, tags={tags}, no_iframe={no_iframe}) on the tree "{what}" yields '
                       f'{got if isinstance(got, str) else [repr(x) for x in got]}; the nodes below it in document order'
                       f'{" outside iframe content" if no_iframe else ""} are {[repr(x) for x in exp]}: the walk leaves the subtree, skips '
                       f'nodes after an iframe, enters iframe content or fails')


def children_table(ctx, rule):
    """get_children / get_tag_children(el, start, reverse, tags) over an element with four children of mixed kinds."""
    from ..tables import matcher_obj
    spec = [('div', {'_label': 'root'}, ['t0', ('a', {'_label': 'a'}, []), ('#comment', 'c'), ('b', {'_label': 'b'}, [])])]
    doc, order, labels = build_tree(spec)
    el = labels['root']
    kids = el.get('contents')
    me = matcher_obj(is_xml=False, is_html=True, root=el)
    stubs = {'css_match.CSSMatch.supports_namespaces': lambda: False, 'util.lower': strict_lower}
    bad = None
    for fname in ('get_children', 'get_tag_children'):
        fnq = f'css_match._DocumentNav.{fname}'
        mod, fn = ctx.src.func(fnq)
        for start, reverse, tags in itertools.product((None, 0, 1, 3, 4, -1), (False, True), (False, True)):
            kw = {'start': start, 'reverse': reverse}
            if fname == 'get_children':
                kw['tags'] = tags
            elif tags is False:
                continue
            try:
                got = list(call_function(ctx, fnq, [el], kw, stubs, me))
            except Raised as e:
                got = f'raises {e.exc_name}'
            except Unsupported as e:
                raise AnalysisError(f'{fname}: outside the evaluable fragment: {e}')
            last = len(kids) - 1
            idx = (last if reverse else 0) if start is None else start
            seq = []
            if 0 <= idx <= last:
                rng = range(idx, -1, -1) if reverse else range(idx, last + 1)
                seq = [kids[i] for i in rng]
            only_tags = tags or fname == 'get_tag_children'
            exp = [n for n in seq if not only_tags or not isinstance(n, TextNode)]
            ok = isinstance(got, list) and len(got) == len(exp) and all(a is b for a, b in zip(got, exp))
            rule.instance({'accessor': fname, 'start': start, 'reverse': reverse, 'tags': only_tags, 'agrees': ok},
                          key=f'children|{fname}|{start}|{reverse}|{tags}', sample_cap=3)
            if not ok and bad is None:
                bad = (fname, start, reverse, only_tags, got, exp, mod.where(fn))
    rule.obligation(bad is None)
    if bad is not None:
        fname, start, reverse, tags, got, exp, where = bad
        rule.violation(f'css_match._DocumentNav.{fname} enumeration', where,
                       f'{fname}(el, start={start}, reverse={reverse}, tags={tags}) over the children [text, <a>, comment, <b>] yields '
                       f'{got if isinstance(got, str) else [repr(x) for x in got]}, expected {[repr(x) for x in exp]} (from index `start` - or '
                       f'the first/last child - towards the {"front" if reverse else "end"})')


def root_table(ctx, rule):
    """match_root over the documents in which an element is / is not the root: a root has no sibling that is an element, a
    non-blank text node or a CDATA section (comments, doctype, processing instructions and blank text are allowed)."""
    from ..tables import matcher_obj
    fnq = 'css_match.CSSMatch.match_root'
    mod, fn = ctx.src.func(fnq)
    R = ('html', {'_label': 'root'}, [('body', {'_label': 'body'}, [])])
    cases = {
        'root alone': ([R], True), 'blank text around': (['  \n', R, '\n'], True), 'comment before': ([('#comment', 'c'), R], True),
        'doctype and processing instruction': ([('#doctype', 'html'), R, ('#pi', 'x')], True),
        'text before': (['text', R], False), 'text after': ([R, ' tail '], False), 'CDATA after': ([R, ('#cdata', 'raw')], False),
        'CDATA before': ([('#cdata', 'raw'), R], False), 'another element after': ([R, ('p', {}, [])], False),
        'another element before': ([('p', {}, []), R], False), 'comment then text after': ([R, ('#comment', 'c'), 'x'], False),
    }
    bad = None
    for what, (spec, exp) in cases.items():
        doc, order, labels = build_tree(spec)
        me = matcher_obj(is_xml=False, is_html=True, root=labels['root'])
        stubs = {'css_match.CSSMatch.supports_namespaces': lambda: False, 'util.lower': strict_lower}
        for target, e_ in ((labels['root'], exp), (labels['body'], False)):
            try:
                got = bool(call_function(ctx, fnq, [target], {}, stubs, me))
            except Raised as e:
                got = f'raises {e.exc_name}'
            except Unsupported as e:
                raise AnalysisError(f'match_root: outside the evaluable fragment: {e}')
            rule.instance({'document': what, 'element': repr(target), ':root': got, 'expected': e_}, key=f'root|{what}|{target!r}', sample_cap=3)
            if got != e_ and bad is None:
                bad = (what, target, got, e_)
    # content of an iframe: its top element is a root of its own in HTML documents (HTML parsers, XHTML) only; in any other XML
    # document an element named iframe - in whatever namespace - is an ordinary element
    XH = 'http://www.w3.org/1999/xhtml'
    frames = {
        'HTML document, iframe content': (dict(is_xml=False, namespace=None), [('html', {'_label': 'root'}, [('body', {}, [('iframe', {}, [('html', {'_label': 'inner'}, [('p', {'_label': 'deep'}, [])])])])])], True),
        'XHTML document, iframe content': (dict(is_xml=True, namespace=XH), [('html', {'_label': 'root'}, [('body', {}, [('iframe', {}, [('html', {'_label': 'inner'}, [('p', {'_label': 'deep'}, [])])])])])], True),
        'XML document (root outside the XHTML namespace), XHTML-namespaced iframe element': (
            dict(is_xml=True, namespace=None), [('data', {'_label': 'root'}, [('iframe', {'_ns': XH}, [('item', {'_label': 'inner'}, [('p', {'_label': 'deep'}, [])])])])], False),
        'XML document, iframe element without namespace': (
            dict(is_xml=True, namespace=None), [('data', {'_label': 'root'}, [('iframe', {}, [('item', {'_label': 'inner'}, [('p', {'_label': 'deep'}, [])])])])], False),
    }
    for what, (kw, spec, exp) in frames.items():
        doc, order, labels = build_tree(spec, **kw)
        me = real_matcher(ctx, labels['root'])
        stubs = {'css_match.CSSMatch.supports_namespaces': lambda _x=kw['is_xml']: _x, 'util.lower': strict_lower}
        for target, e_ in ((labels['inner'], exp), (labels['deep'], False), (labels['root'], True)):
            try:
                got = bool(call_function(ctx, fnq, [target], {}, stubs, me))
            except Raised as e:
                got = f'raises {e.exc_name}'
            except Unsupported as e:
                raise AnalysisError(f'match_root: outside the evaluable fragment: {e}')
            rule.instance({'document': what, 'element': repr(target), ':root': got, 'expected': e_}, key=f'root|{what}|{target!r}', sample_cap=3)
            if got != e_ and bad is None:
                bad = (what, target, got, e_)
    rule.obligation(bad is None)
    if bad is not None:
        what, target, got, e_ = bad
        rule.violation('css_match.CSSMatch.match_root table', mod.where(fn),
                       f'match_root({target!r}) in the document "{what}" is {got}, expected {e_}: the root element is the only top-level '
                       f'node apart from comments, the doctype, processing instructions and blank text')


def nth_bounded_table(ctx, rule):
    """match_nth against the definition of An+B on small sibling lists (bounded: |a| <= 3, |b| <= 3, up to seven child nodes of
    mixed kinds).  The arithmetic over all integers is not decided by this table; it exercises every branch of the index
    search (variable / constant index, negative step, from the end, of-type, of S)."""
    from ..tables import matcher_obj
    fnq = 'css_match.CSSMatch.match_nth'
    mod, fn = ctx.src.func(fnq)
    lists = {
        'mixed': [('p', {}, []), 't', ('span', {}, []), ('p', {}, []), ('#comment', 'c'), ('p', {}, []), ('span', {}, [])],
        'single': [('p', {}, [])],
        'pair, text first': ['x', ('span', {}, []), ('p', {}, [])],
    }
    DEFAULT = Obj(_name='CSS_NTH_OF_S_DEFAULT', __bool__=True, __len__=1, __iter__=[Obj(_name='*|*')], names=None)
    ONLY_P = Obj(_name='of p', __bool__=True, __len__=1, __iter__=[Obj(_name='p')], names=('p',))
    EMPTY = Obj(_name='SelectorList()', __bool__=False, __len__=0, __iter__=[], names=None)
    specs = []
    for a, b in itertools.product((-2, -1, 0, 1, 2, 3), (-3, -1, 0, 1, 2, 4)):
        specs.append((a, True, b))
    for a in (0, 1, 2, 3, 6):
        specs.append((a, False, 0))
    bad = None
    n_cases = 0
    lists['detached element (no parent at all)'] = None
    for lname, kids in lists.items():
        if kids is None:
            # an extract()ed element: it is the only child of nothing, position 1 of 1
            doc, order, labels = build_tree([('p', {'_label': 'root'}, [('b', {}, [])])])
            parent = labels['root']
            parent.set('parent', None)
            parent.set('previous_sibling', None)
            parent.set('next_sibling', None)
            tags = [parent]
        else:
            doc, order, labels = build_tree([('div', {'_label': 'root'}, kids)])
            parent = labels['root']
            tags = [c for c in parent.get('contents') if not isinstance(c, TextNode)]
        me = matcher_obj(is_xml=False, is_html=True, root=parent)

        def match_selectors(el, sel):
            names = sel.get('names')
            return True if names is None else el.get('name') in names
        stubs = {'css_match.CSSMatch.supports_namespaces': lambda: False, 'util.lower': strict_lower,
                 'css_match.CSSMatch.match_selectors': match_selectors}
        for (a, var, b), last, mode in itertools.product(specs, (False, True), ('child', 'of-type', 'of p')):
            of_type = mode == 'of-type'
            sels = EMPTY if of_type else (ONLY_P if mode == 'of p' else DEFAULT)
            nth = Obj(_cls='css_types.SelectorNth', _name='SelectorNth', a=a, n=var, b=b, of_type=of_type, last=last, selectors=sels)
            for el in tags:
                try:
                    got = bool(call_function(ctx, fnq, [el, (nth,)], {}, stubs, me))
                except Raised as e:
                    got = f'raises {e.exc_name}'
                except Unsupported as e:
                    raise AnalysisError(f'match_nth: outside the evaluable fragment: {e}')
                if of_type:
                    cand = [c for c in tags if c.get('name') == el.get('name')]
                elif mode == 'of p':
                    cand = [c for c in tags if c.get('name') == 'p']
                else:
                    cand = list(tags)
                if last:
                    cand = cand[::-1]
                if not any(c is el for c in cand):
                    exp = False
                else:
                    pos = [i for i, c in enumerate(cand) if c is el][0] + 1
                    exp = (pos == a) if not var else any(a * k + b == pos for k in range(0, 12))
                n_cases += 1
                if got != exp and bad is None:
                    bad = (lname, a, var, b, last, mode, el, got, exp, [repr(c) for c in (parent.get('contents') if kids is not None else tags)])
        rule.instance({'siblings': lname, 'cases': n_cases}, key=f'nth-bounded|{lname}')
    rule.obligation(bad is None)
    if bad is not None:
        lname, a, var, b, last, mode, el, got, exp, kids = bad
        form = f'{a}n{b:+d}' if var else f'{a}'
        rule.violation('css_match.CSSMatch.match_nth table', mod.where(fn),
                       f'match_nth: :nth-{"last-" if last else ""}{"of-type" if mode == "of-type" else "child"}({form}'
                       f'{" of p" if mode == "of p" else ""}) on {el!r} among the children {kids} gives {got}, the definition gives {exp}')


def select_limit_table(ctx, rule):
    """CSSMatch.select(limit) over a target with four descendants and every match vector: the first `limit` matching
    descendants in document order (all of them for limit 0) - bounded in the number of candidates, exhaustive in the vector."""
    fnq = 'css_match.CSSMatch.select'
    mod, fn = ctx.src.func(fnq)
    from ..tables import el_obj, matcher_obj
    cands = [el_obj(f'c{i}') for i in range(4)]
    bad = None
    n = 0
    for vec in itertools.product((False, True), repeat=4):
        for limit in (0, 1, 2, 3, 4, 7, -1, -3):
            truth = {id(c): v for c, v in zip(cands, vec)}
            me = matcher_obj(is_xml=False, is_html=True, tag=el_obj('target'))
            stubs = {'css_match._DocumentNav.get_descendants': lambda el, *a, **k: list(cands),
                     'css_match._DocumentNav.get_tag_descendants': lambda el, *a, **k: list(cands),
                     'css_match.CSSMatch.match': lambda el: truth[id(el)]}
            try:
                got = list(call_function(ctx, fnq, [limit], {}, stubs, me))
            except Raised as e:
                got = f'raises {e.exc_name}'
            except Unsupported as e:
                raise AnalysisError(f'CSSMatch.select: outside the evaluable fragment: {e}')
            exp = [c for c in cands if truth[id(c)]]
            if limit > 0:
                exp = exp[:limit]
            ok = isinstance(got, list) and len(got) == len(exp) and all(a is b for a, b in zip(got, exp))
            n += 1
            if not ok and bad is None:
                bad = (vec, limit, got, exp)
    rule.instance({'CSSMatch.select(limit)': 'four candidates x every match vector x limits 0,1,2,3,4,7,-1,-3', 'cases': n}, key='select-limit')
    rule.obligation(bad is None)
    if bad is not None:
        vec, limit, got, exp = bad
        rule.violation('css_match.CSSMatch.select limit', mod.where(fn),
                       f'CSSMatch.select(limit={limit}) over descendants matching {list(vec)} yields '
                       f'{got if isinstance(got, str) else [repr(x) for x in got]}, expected {[repr(x) for x in exp]}: the first `limit` '
                       f'matches in document order (all of them for a limit below 1)')


def real_matcher(ctx, scope, selectors=None, namespaces=None, flags=0, xhtml=False):
    """A matcher object initialised by interpreting CSSMatch.__init__ itself on an abstract tree: every field the class defines
    (memo tables included) exists, whatever a change adds to it."""
    me = Obj(_cls='css_match.CSSMatch', _name='matcher')
    sel = selectors if selectors is not None else Obj(_cls='css_types.SelectorList', _name='SELECTORS', selectors=(), is_not=False,
                                                       is_html=False, __iter__=[], __len__=0)
    try:
        call_function(ctx, 'css_match.CSSMatch.__init__', [sel, scope, namespaces, flags], {}, {'util.lower': strict_lower}, me)
    except Raised as e:
        raise AnalysisError(f'CSSMatch.__init__ raises {e.exc_name} on a well-formed abstract tree')
    except Unsupported as e:
        raise AnalysisError(f'CSSMatch.__init__: outside the evaluable fragment: {e}')
    return me


def identity_table(ctx, rule):
    """:scope and :root designate ONE node: an element that merely looks like the scope / root element (bs4 tags compare by
    markup) is not it.  match_selectors is interpreted with a real matcher on a tree that contains look-alikes."""
    inv = ctx.consts
    fnq = 'css_match.CSSMatch.match_selectors'
    mod, fn = ctx.src.func(fnq)
    SEL_SCOPE = inv.folder.lookup('css_types', 'SEL_SCOPE')
    SEL_ROOT = inv.folder.lookup('css_types', 'SEL_ROOT')
    doc, order, L = build_tree([('ul', {'_label': 'root'}, [('li', {'_label': 'a', 'class': ['row']}, ['x']), ('li', {'_label': 'b', 'class': ['row']}, ['x']),
                                                            ('ul', {'_label': 'inner'}, [('li', {'class': ['row']}, ['x']), ('li', {'class': ['row']}, ['x'])])])])

    def sel(flags):
        s_ = Obj(_cls='css_types.Selector', _name='Selector', tag=None, ids=(), classes=(), attributes=(), nth=(), selectors=(),
                 relation=Obj(_name='rel', __len__=0, __iter__=[], __bool__=False), rel_type=None, contains=(), lang=(), flags=flags)
        return Obj(_cls='css_types.SelectorList', _name='list', selectors=(s_,), is_not=False, is_html=False, __iter__=[s_], __len__=1)
    bad = None
    for what, flag, scope, cases in ((':scope', SEL_SCOPE, L['a'], ((L['a'], True), (L['b'], False), (L['root'], False))),
                                     (':root', SEL_ROOT, L['a'], ((L['root'], True), (L['inner'], False), (L['a'], False)))):
        me = real_matcher(ctx, scope)
        for el, exp in cases:
            try:
                got = bool(call_function(ctx, fnq, [el, sel(flag)], {}, {'util.lower': strict_lower,
                                                                       'css_match.CSSMatch.supports_namespaces': lambda: False}, me))
            except Raised as e:
                got = f'raises {e.exc_name}'
            except Unsupported as e:
                raise AnalysisError(f'match_selectors ({what}): outside the evaluable fragment: {e}')
            rule.instance({'pseudo_class': what, 'element': repr(el), 'matches': got, 'expected': exp}, key=f'identity|{what}|{el!r}')
            if got != exp and bad is None:
                bad = (what, el, got, exp)
    rule.obligation(bad is None)
    if bad is not None:
        what, el, got, exp = bad
        rule.violation(f'css_match.CSSMatch.match_selectors {what} identity', mod.where(fn),
                       f'{what} on {el!r} is {got}, expected {exp}, in a tree that contains structurally identical elements (repeated rows): '
                       f'{what} designates one node - the comparison must be by identity, bs4 tags compare equal when their markup is equal')


def trailing_whitespace_table(ctx, rule):
    """selector_iter on `X` surrounded by each kind of CSS white space / comment: one token, nothing else.  The two trimming
    regexes are replaced by their definitions ((white space | comment)* at the start / up to the end), which C09-R6 checks."""
    import re as _re
    fnq = 'css_parser.CSSParser.selector_iter'
    mod, fn = ctx.src.func(fnq)
    run_re = _re.compile(r'(?:[ \t\r\n\f]|/\*(?:[^*]|\*+[^*/])*\*+/)*')
    begin = ctx.consts.by_name('css_parser.RE_WS_BEGIN')
    end_ = ctx.consts.by_name('css_parser.RE_WS_END')
    if begin is None or end_ is None:
        raise AnalysisError('RE_WS_BEGIN / RE_WS_END not found (anchor vanished)')
    pieces = [' ', '\t', '\n', '\r', '\f', '\r\n', '/**/', '/* c */', ' \f ', '\f/* c */\f']
    bad = None
    for w, where in itertools.product(pieces, ('after', 'before', 'both')):
        text = {'after': 'X' + w, 'before': w + 'X', 'both': w + 'X' + w}[where]

        def search(rx_obj, s_, pos=0, *a_):
            if rx_obj.get('pattern') == begin.pattern:
                m_ = run_re.match(s_, pos)
                return match_obj({0: m_.group(0)}, start=pos, end=m_.end())
            raise Unsupported('search on an unexpected regex')

        def match(rx_obj, s_, pos=0, *a_):
            if rx_obj.get('pattern') == end_.pattern:
                m_ = run_re.match(s_, pos)
                return match_obj({0: m_.group(0)}, start=pos, end=m_.end()) if m_.end() == len(s_) else None
            if rx_obj.get('pattern') == begin.pattern:
                m_ = run_re.match(s_, pos)
                return match_obj({0: m_.group(0)}, start=pos, end=m_.end())
            raise Unsupported('match on an unexpected regex')

        def tok_match(selector, index, flags=0):
            if selector[index:index + 1] == 'X':
                return match_obj({0: 'X'}, name='X', start=index, end=index + 1)
            return None
        me = parser_obj(pattern=text)
        me.set('css_tokens', (Obj(_name='tokenX', match=tok_match, get_name=lambda m=None: 'x', name='x'),))
        try:
            got = call_function(ctx, fnq, [text], {}, {'re.Pattern.search': search, 're.Pattern.match': match}, me)
            got = [(k, v.get('start')(0)) for k, v in got]
        except Raised as e:
            got = f'raises {e.exc_name}'
        except Unsupported as e:
            raise AnalysisError(f'selector_iter: outside the evaluable fragment: {e}')
        exp = [('x', text.index('X'))]
        rule.instance({'pattern': text, 'tokens': got, 'expected': exp}, key=f'ws|{text!r}', sample_cap=3)
        if got != exp and bad is None:
            bad = (text, got, exp)
    rule.obligation(bad is None)
    if bad is not None:
        text, got, exp = bad
        rule.violation('css_parser.CSSParser.selector_iter white space', mod.where(fn),
                       f'tokenising {text!r} (one token X surrounded by CSS white space / comments) gives {got}, expected {exp}: every '
                       f'CSS white-space character (space, tab, LF, CR, FF) and comment is insignificant at either end of a pattern')


def freeze_cost_table(ctx, rule):
    """Work done by _Selector.freeze() on a combinator chain of n compounds, measured in evaluation steps of the partial
    evaluator, for n = 4, 8, 12, 16: the growth must be polynomial (a chain frozen twice per level doubles with every level)."""
    fnq = 'css_parser._Selector.freeze'
    mod, fn = ctx.src.func(fnq)
    costs = {}
    for n in (4, 8, 12, 16):
        head = None
        for i in range(n):
            s_ = fresh_sel()
            s_.set('tag', Obj(_name=f'tag{i}'))
            if head is not None:
                s_.set('relations', [head])
                s_.set('rel_type', ' ')
            head = s_
        stats = {}
        try:
            call_function(ctx, fnq, [], {}, {}, head, options={'stats': stats, 'max_depth': 80})
        except Raised as e:
            raise AnalysisError(f'_Selector.freeze raises {e.exc_name} on a plain chain')
        except Unsupported as e:
            if 'step budget' in str(e):
                stats['steps'] = Interp.MAX_STEPS
            else:
                raise AnalysisError(f'_Selector.freeze: outside the evaluable fragment: {e}')
        costs[n] = stats.get('steps', 0)
    ratio = costs[16] / max(1, costs[8])
    ok = ratio < 6 and costs[16] < Interp.MAX_STEPS
    rule.instance({'function': '_Selector.freeze', 'chain_length -> evaluation_steps': costs, 'steps(16)/steps(8)': round(ratio, 2)},
                  key='freeze-cost')
    rule.obligation(ok)
    if not ok:
        rule.violation('css_parser._Selector.freeze cost', mod.where(fn),
                       f'freezing a combinator chain of 4/8/12/16 compounds takes {costs} evaluation steps (x{ratio:.1f} from 8 to 16): the '
                       f'work grows exponentially with the length of the chain (a sub-chain is frozen more than once per level), so a '
                       f'selector like "a a a a ... a" with a few dozen compounds never finishes compiling')


def default_button_table(ctx, rule):
    """match_default with ONE matcher over several forms (two of them with identical markup) in several visiting orders: an
    element is the default button iff it is the first <input>/<button> of type submit (any letter case) below its nearest
    form - whatever was asked before."""
    fnq = 'css_match.CSSMatch.match_default'
    mod, fn = ctx.src.func(fnq)

    def form(tag):
        return ('form', {'_label': f'{tag}form'}, [('button', {'_label': f'{tag}0'}, ['plain']), ('input', {'type': 'text', '_label': f'{tag}t'}, []),
                                                   ('input', {'type': 'submit', '_label': f'{tag}1'}, []),
                                                   ('button', {'type': 'SUBMIT', '_label': f'{tag}2'}, ['go'])])
    spec = [('html', {'_label': 'root'}, [('body', {}, [
        form('a'), form('b'),
        ('form', {'_label': 'cform'}, [('div', {}, [('button', {'type': 'Submit', '_label': 'c1'}, [])]), ('input', {'type': 'submit', '_label': 'c2'}, [])]),
        ('button', {'type': 'submit', '_label': 'x'}, [])])])]
    doc, order, L = build_tree(spec)
    expected = {'a0': False, 'at': False, 'a1': True, 'a2': False, 'b0': False, 'b1': True, 'b2': False, 'c1': True, 'c2': False, 'x': False}
    orders = [('a1', 'a2', 'b1', 'b2', 'c1', 'c2', 'x'), ('b2', 'b1', 'a2', 'a1', 'a0'), ('a0', 'b0', 'a1', 'b1'), ('c2', 'c1', 'x', 'at'),
              ('b1', 'a1'), ('a2', 'b1', 'a1')]
    bad = None
    for order_ in orders:
        me = real_matcher(ctx, L['root'])
        got = []
        for lab in order_:
            try:
                got.append(bool(call_function(ctx, fnq, [L[lab]], {}, {'util.lower': strict_lower,
                                                                     'css_match.CSSMatch.supports_namespaces': lambda: False}, me)))
            except Raised as e:
                got.append(f'raises {e.exc_name}')
            except Unsupported as e:
                raise AnalysisError(f'match_default: outside the evaluable fragment: {e}')
        exp = [expected[lab] for lab in order_]
        rule.instance({'visited': list(order_), 'default_button': got, 'expected': exp}, key=f'default|{order_}', sample_cap=3)
        if got != exp and bad is None:
            bad = (order_, got, exp)
    rule.obligation(bad is None)
    if bad is not None:
        order_, got, exp = bad
        rule.violation('css_match.CSSMatch.match_default table', mod.where(fn),
                       f'match_default with one matcher, visiting {list(order_)} (forms a and b have identical markup: '
                       f'<button>, <input type=text>, <input type=submit>, <button type=SUBMIT>; form c nests its first submit button in a '
                       f'<div>; x is outside any form): got {got}, expected {exp}. The default button of a form is its first input/button '
                       f'whose type is submit; the per-form memo must be keyed by the form object itself (bs4 tags compare by markup)')


# ---- string algorithms that apply one of the package's regexes: followed with the analyser's own matcher (sa.rematch) ----------
def rfc4647_extended(rng, tag):
    """RFC 4647 3.3.2 extended filtering with the conventions of the property: case-insensitive, '*' matches any subtag sequence
    including none, implicit wildcards do not skip singletons, the empty range matches only the explicitly empty language and
    '*' only a non-empty one."""
    rng, tag = rng.lower(), tag.lower()
    if rng == '':
        return tag == ''
    if tag == '':
        return False
    rs, ts = rng.split('-'), tag.split('-')
    if any(x == '' for x in rs):
        return False                 # an empty subtag is no language range
    if rs[0] != '*' and rs[0] != ts[0]:
        return False
    ri, ti = 1, 1
    while ri < len(rs):
        if rs[ri] == '*':
            ri += 1
            continue
        if ti >= len(ts):
            return False
        if rs[ri] == ts[ti]:
            ri += 1
            ti += 1
        elif len(ts[ti]) == 1:
            return False
        else:
            ti += 1
    return True


def lang_filter_table(ctx, rule, deep=False):
    """extended_language_filter against RFC 4647 extended filtering on every (range, tag) pair over small subtag alphabets
    (bounded: ranges of up to three subtags over {en, us, x, *}, tags of up to three - thorough tier: four - subtags)."""
    from ..tables import matcher_obj
    fnq = 'css_match.CSSMatch.extended_language_filter'
    mod, fn = ctx.src.func(fnq)
    r_alpha, t_alpha = ('en', 'us', 'x', '*'), ('en', 'us', 'x', 'de')
    ranges = [''] + ['-'.join(p) for n in (1, 2, 3) for p in itertools.product(r_alpha, repeat=n)] + ['EN-us', 'en-*-*-us', '*-*', 'en-*-*']
    tags = [''] + ['-'.join(p) for n in ((1, 2, 3, 4) if deep else (1, 2, 3)) for p in itertools.product(t_alpha, repeat=n)] + ['En-US', 'en-x-us-de']
    me = matcher_obj()
    bad = None
    n = 0
    # the value of a lang attribute is arbitrary text: subtags that no registry knows (long, with other characters, empty) are
    # subtags all the same, and are skipped like any other
    odd_tags = ['de-abcdefghi-ch', 'zh-cmn_hans-cn', 'de--ch', 'de-\u00e9-ch', 'de-ab.c-ch', 'en-abcdefghijklmnop', 'en-a1b2c3d4e-us', '-en', 'en-', '-', 'de-1996-ch',
                'de-latn-x-ch', 'de-abcdefgh-ch', 'de-ab-abcdefghi-cd-ch', 'en us', 'en-us ', 'de-CH-1901', 'DE-ch']
    odd_ranges = ['de-ch', 'zh-cn', 'en-us', '*-ch', 'de-*-ch', 'de', 'en', '*', 'de-latn-ch', 'de-1996', 'en-abcdefghijklmnop', 'de-abcdefghi']
    for r_, t_ in list(itertools.product(ranges, tags)) + list(itertools.product(odd_ranges, odd_tags)):
        try:
            got = bool(call_function(ctx, fnq, [r_, t_], {}, {'util.lower': strict_lower}, me, options={'regex_engine': True}))
        except Raised as e:
            got = f'raises {e.exc_name}'
        except Unsupported as e:
            raise AnalysisError(f'extended_language_filter: outside the evaluable fragment: {e}')
        exp = rfc4647_extended(r_, t_)
        n += 1
        if got != exp and bad is None:
            bad = (r_, t_, got, exp)
    rule.instance({'function': 'extended_language_filter', 'pairs_compared_with_RFC_4647': n, 'ranges': len(ranges), 'tags': len(tags)},
                  key='rfc4647')
    rule.obligation(bad is None)
    if bad is not None:
        r_, t_, got, exp = bad
        rule.violation('css_match.CSSMatch.extended_language_filter table', mod.where(fn),
                       f'extended_language_filter({r_!r}, {t_!r}) is {got}; RFC 4647 extended filtering gives {exp} (first of {n} compared '
                       f'pairs that differ): a wildcard subtag - also a trailing one - matches any sequence of subtags including none')


def pattern_context_table(ctx, rule):
    """get_pattern_context(pattern, index) for every offset 0..len(pattern) of short patterns with every line-break style:
    line = 1 + number of line breaks before the offset, column = offset within that line + 1, the context reproduces the lines
    and puts a caret under that column."""
    fnq = 'util.get_pattern_context'
    mod, fn = ctx.src.func(fnq)
    patterns = ['ab', 'ab\ncd', 'ab\r\ncd\nef', 'a\rb', '\nab', 'ab\n', 'a\n\nb', '', 'x\r\n',
                # columns count characters, whatever their width on a terminal: wide, full-width, combining, astral, tabs
                '\u65e5\u672cx', '\uff41b\ncd', 'a\u0301b', '\U0001f600x', 'a\tb', 'x\n\u65e5y']
    bad = None
    n = 0
    for pat in patterns:
        # reference line table
        lines, i, start = [], 0, 0
        while i < len(pat):
            if pat.startswith('\r\n', i):
                lines.append((start, i, i + 2))
                i += 2
                start = i
            elif pat[i] in '\r\n':
                lines.append((start, i, i + 1))
                i += 1
                start = i
            else:
                i += 1
        lines.append((start, len(pat), len(pat)))
        for index in range(0, len(pat) + 1):
            try:
                res = call_function(ctx, fnq, [pat, index], {}, {}, None, options={'regex_engine': True})
            except Raised as e:
                res = f'raises {e.exc_name}'
            except Unsupported as e:
                raise AnalysisError(f'get_pattern_context: outside the evaluable fragment: {e}')
            ln = next(k for k, (s0, e0, n0) in enumerate(lines) if s0 <= index < n0 or (k == len(lines) - 1))
            exp_line, exp_col = ln + 1, index - lines[ln][0] + 1
            ok = isinstance(res, (tuple, list)) and len(res) == 3 and res[1] == exp_line and res[2] == exp_col
            why = ''
            if ok:
                ctx_lines = res[0].split('\n')
                carets = [k for k, l in enumerate(ctx_lines) if l.strip() == '^']
                texts = [l for k, l in enumerate(ctx_lines) if k not in carets]
                want_texts = [pat[s0:e0] for s0, e0, n0 in lines]
                if len(carets) != 1 or [t[4:] if len(lines) > 1 else t for t in texts] != want_texts:
                    ok, why = False, 'the context does not reproduce the lines of the pattern with one caret'
                else:
                    under = ctx_lines[carets[0] - 1] if carets[0] > 0 else ''
                    indent = 4 if len(lines) > 1 else 0
                    caret_col = ctx_lines[carets[0]].index('^')
                    # the caret stands under the reported column (or under the last character when the offset points into a line break)
                    if caret_col not in (indent + exp_col - 1, indent + exp_col - 2) or (len(lines) > 1 and not under.startswith('--> ')) \
                            or texts.index(under) != ln:
                        ok, why = False, 'the caret is not under the reported column of the reported line'
            n += 1
            if not ok and bad is None:
                bad = (pat, index, res, exp_line, exp_col, why)
    rule.instance({'function': 'get_pattern_context', 'patterns': patterns, 'offsets_checked': n}, key='pattern-context')
    rule.obligation(bad is None)
    if bad is not None:
        pat, index, res, exp_line, exp_col, why = bad
        rule.violation('util.get_pattern_context table', mod.where(fn),
                       f'get_pattern_context({pat!r}, {index}) returns {res!r}; expected line {exp_line}, column {exp_col} and a context with '
                       f'the caret under that column{" (" + why + ")" if why else ""}: every offset 0..len(pattern), including the very end '
                       f'of a multi-line pattern, lies on a line')



def empty_table(ctx, rule):
    """match_empty over child lists of every node kind: :empty holds exactly when there is no element child and no content
    string with a character outside CSS white space (comments, CDATA, PIs, declarations and doctypes are not content)."""
    fnq = 'css_match.CSSMatch.match_empty'
    mod, fn = ctx.src.func(fnq)
    cases = {
        'no children': ([], True), 'CSS white space only': ([' \t\n\r\f'], True), 'text': (['x'], False), 'white space then text': (['  ', 'x'], False),
        'a comment with text': ([('#comment', 'x')], True), 'CDATA with text': ([('#cdata', 'x')], True),
        'a processing instruction': ([('#pi', 'x')], True), 'doctype and declaration': ([('#doctype', 'x'), ('#declaration', 'y')], True),
        'an element': ([('b', {}, [])], False), 'comment then element': ([('#comment', 'c'), ('b', {}, [])], False),
        'no-break space (not CSS white space)': (['\u00a0'], False), 'vertical tab': (['\x0b'], False),
        'comment, white space, comment': ([('#comment', 'a'), ' ', ('#comment', 'b')], True),
    }
    bad = None
    for what, (kids, exp) in cases.items():
        doc, order, L = build_tree([('div', {'_label': 'root'}, kids)])
        me = real_matcher(ctx, L['root'])

        def search(rx_obj, text, *a_):
            # RE_NOT_EMPTY is proved equal to [^ \t\n\r\f] by C19-R5 / C01-R8: answer with that definition
            return Obj(_name='m') if any(c not in ' \t\n\r\f' for c in text) else None
        try:
            got = bool(call_function(ctx, fnq, [L['root']], {}, {'re.Pattern.search': search, 'util.lower': strict_lower,
                                                                'css_match.CSSMatch.supports_namespaces': lambda: False}, me))
        except Raised as e:
            got = f'raises {e.exc_name}'
        except Unsupported as e:
            raise AnalysisError(f'match_empty: outside the evaluable fragment: {e}')
        rule.instance({'children': what, ':empty': got, 'expected': exp}, key=f'empty|{what}')
        if got != exp and bad is None:
            bad = (what, got, exp)
    rule.obligation(bad is None)
    if bad is not None:
        what, got, exp = bad
        rule.violation('css_match.CSSMatch.match_empty table', mod.where(fn),
                       f'match_empty on an element whose children are "{what}" is {got}, expected {exp}: :empty holds exactly when there '
                       f'is no element child and no text child with a character outside CSS white space; comments, CDATA sections, '
                       f'processing instructions, declarations and doctypes are never text')



def alternatives_table(ctx, rule):
    """match_selectors over every list of one to three alternatives, each of which passes, fails or is un-matchable (SelectorNull),
    plain and negated: the answer is (some alternative passes) xor is_not."""
    import itertools
    inv = ctx.consts
    mod, fn = ctx.src.func('css_match.CSSMatch.match_selectors')
    bad = None
    n_cases = 0
    for n in (1, 2, 3):
        for outcome in itertools.product(('pass', 'fail', 'null'), repeat=n):
            for is_not in (False, True):
                alts = []
                for i, o in enumerate(outcome):
                    if o == 'null':
                        alts.append(Obj(_cls='css_types.SelectorNull', _name='Null'))
                    else:
                        alts.append(Obj(_cls='css_types.Selector', _name=f'S{i}', tag=Obj(_name='tag', verdict=(o == 'pass')), ids=(), classes=(),
                                        attributes=(), nth=(), selectors=(), relation=Obj(_name='rel', __len__=0, __iter__=[], __bool__=False),
                                        rel_type=None, contains=(), lang=(), flags=0))
                lst = Obj(_cls='css_types.SelectorList', _name='list', selectors=tuple(alts), is_not=is_not, is_html=False,
                          __iter__=alts, __len__=len(alts))
                selfo = Obj(_cls='css_match.CSSMatch', _name='self', namespaces={}, iframe_restrict=False, is_html=True, is_xml=False,
                            scope=None, root=None, tag=None, has_html_namespace=False)
                stubs = {f'self.{c}': (lambda *a, **k: True) for c in CHECKS}
                stubs['self.match_tag'] = lambda el, tag: tag.get('verdict')
                try:
                    got = bool(call_function(ctx, 'css_match.CSSMatch.match_selectors', [Obj(_name='el'), lst], {}, stubs, selfo))
                except Raised as e:
                    got = f'raises {e.exc_name}'
                except Unsupported as e:
                    raise AnalysisError(f'match_selectors: outside the evaluable fragment: {e}')
                exp = ('pass' in outcome) != is_not
                n_cases += 1
                rule.instance({'alternatives': list(outcome), 'is_not': is_not, 'result': got, 'expected': exp},
                              key=f'alts|{",".join(outcome)}|{is_not}', sample_cap=12)
                if got != exp and bad is None:
                    bad = (outcome, is_not, got, exp)
    rule.obligation(bad is None)
    if bad is not None:
        outcome, is_not, got, exp = bad
        rule.violation('css_match.CSSMatch.match_selectors alternatives table', mod.where(fn),
                       f'match_selectors on the list of alternatives ({", ".join(outcome)}){" inside :not()" if is_not else ""} answers {got}, '
                       f'expected {exp}: a selector list matches when some alternative matches (un-matchable alternatives such as '
                       f':focus never do), and :not() negates exactly that')



def relations_table(ctx, rule):
    """match_relations for every combinator the matcher knows, on every element of a small tree (text, comments and a doctype
    between the elements): the nodes handed to match_selectors are exactly the elements the combinator designates - ancestors
    / parent (never the document object), preceding siblings / the preceding element sibling, and for the forward forms used
    by :has() descendants / children / following siblings / the following element sibling - and the answer is "some
    designated element matches"."""
    inv = ctx.consts
    fnq = 'css_match.CSSMatch.match_relations'
    mod, fn = ctx.src.func(fnq)
    rel = {n: inv.folder.lookup('css_match', n) for n in inv.folder.env_nodes['css_match'] if n.startswith('REL_')}
    rel = {k: v for k, v in rel.items() if isinstance(v, str)}
    doc, order, L = build_tree([('#doctype', 'html'), ('html', {'_label': 'root'}, [
        ('#comment', 'c'), ('head', {'_label': 'head'}, []), ' ',
        ('body', {'_label': 'body'}, ['t', ('p', {'_label': 'p1'}, [('b', {'_label': 'b'}, ['x'])]), ('#comment', 'c'), 'u',
                                      ('p', {'_label': 'p2'}, []), ('#cdata', 'd'), ('ul', {'_label': 'ul'}, [('li', {'_label': 'li'}, [('i', {'_label': 'i'}, [])])]),
                                      'tail'])])])
    els = [n for n in order if not isinstance(n, TextNode)]
    # ... and a detached fragment: its top node is an element (extract()ed, or built with new_tag), there is no document object
    doc2, order2, L2 = build_tree([('ul', {'_label': 'top'}, [('li', {'_label': 'item'}, ['x', ('em', {'_label': 'em'}, [])]), ('li', {'_label': 'item2'}, [])])])
    L2['top'].set('parent', None)
    L2['top'].set('previous_element', None)
    frag = [n for n in order2 if not isinstance(n, TextNode)]
    scope_of = {id(n): L['root'] for n in els}
    scope_of.update({id(n): L2['top'] for n in frag})
    els = els + frag

    def ancestors(n):
        out = []
        p = n.get('parent')
        while p is not None and p is not doc and p is not doc2:
            out.append(p)
            p = p.get('parent')
        return out

    def sibs(n, fwd):
        if n.get('parent') is None:
            return []
        cs = [c for c in n.get('parent').get('contents')]
        i = [k for k, c in enumerate(cs) if c is n][0]
        seq = cs[i + 1:] if fwd else cs[:i][::-1]
        return [c for c in seq if not isinstance(c, TextNode)]

    def desc(n):
        out = []
        for c in n.get('contents'):
            if not isinstance(c, TextNode):
                out.append(c)
                out += desc(c)
        return out

    def designated(r, n):
        fwd = r.startswith(':')
        c = r[1:] if fwd else r
        if c == ' ':
            return desc(n) if fwd else ancestors(n)
        if c == '>':
            return [k for k in n.get('contents') if not isinstance(k, TextNode)] if fwd else ancestors(n)[:1]
        if c == '~':
            return sibs(n, fwd)
        if c == '+':
            return sibs(n, fwd)[:1]
        raise AnalysisError(f'combinator constant {r!r} of css_match is not one of the eight known forms')
    bad = None
    n_rows = 0
    for cname, r in sorted(rel.items()):
        for el in els:
            want = designated(r, el)
            for target in [None] + want:
                tested = []

                def ms(node, relation, *a_, **k_):
                    tested.append(node)
                    return node is target
                r0 = Obj(_cls='css_types.Selector', _name='R0', rel_type=r)
                relation = Obj(_cls='css_types.SelectorList', _name='relation', selectors=(r0,), is_not=False, is_html=False, __iter__=[r0], __len__=1)
                me = real_matcher(ctx, scope_of[id(el)])
                try:
                    got = bool(call_function(ctx, fnq, [el, relation], {}, {'self.match_selectors': ms, 'util.lower': strict_lower,
                                                                            'css_match.CSSMatch.supports_namespaces': lambda: False}, me))
                except Raised as e:
                    got = f'raises {e.exc_name}'
                except Unsupported as e:
                    raise AnalysisError(f'match_relations({cname}): outside the evaluable fragment: {e}')
                n_rows += 1
                lab = (lambda n: 'document' if n is doc or n is doc2 else (repr(str(n))[:12] if isinstance(n, TextNode) else object.__getattribute__(n, '_name').strip('<>')))
                problem = None
                if got not in (True, False):
                    problem = f'{got}'
                elif target is None:
                    extra = [n for n in tested if not any(n is w for w in want)]
                    missing = [w for w in want if not any(w is n for n in tested)]
                    if extra:
                        problem = f'hands {", ".join(map(str, map(lab, extra)))} to match_selectors, which the combinator does not designate'
                    elif missing:
                        problem = f'never tests {", ".join(map(str, map(lab, missing)))}'
                    elif got:
                        problem = 'answers True although no designated element matches'
                elif not got:
                    problem = f'answers False although the designated element {lab(target)} matches'
                if target is None:
                    rule.instance({'combinator': r, 'element': str(lab(el)), 'designated': [str(lab(w)) for w in want],
                                   'tested': [str(lab(t)) for t in tested], 'ok': problem is None}, key=f'rel|{r}|{lab(el)}', sample_cap=16)
                if problem and bad is None:
                    bad = (cname, r, lab(el), problem)
    rule.obligation(bad is None)
    rule.instance({'rows': n_rows}, key='relations-rows')
    if bad is not None:
        cname, r, el, problem = bad
        rule.violation(f'css_match.CSSMatch.match_relations {cname} table', mod.where(fn),
                       f'match_relations with combinator {r!r} ({cname}) on element <{el}> {problem}: a combinator relates an element '
                       f'only to other ELEMENTS in the stated position (the BeautifulSoup document object, text and comments are not '
                       f'elements; "*  > html" must not match)')



def select_walk_table(ctx, rule):
    """CSSMatch.select() with a matcher that accepts every element, from several targets of an abstract tree (text, comments,
    CDATA between the elements; a target with following siblings; the document object; a leaf): the result is the list of
    element descendants of the target in document order."""
    fnq = 'css_match.CSSMatch.select'
    mod, fn = ctx.src.func(fnq)
    doc, order, L = build_tree([('#doctype', 'html'), ('html', {'_label': 'root'}, [
        ('head', {'_label': 'head'}, [('title', {}, ['t'])]), ' ',
        ('body', {'_label': 'body'}, ['x', ('div', {'_label': 'd'}, [('p', {}, [('b', {}, ['y']), ('#comment', 'c')]), 'z', ('p', {}, [])]),
                                      ('#cdata', 'q'), ('ul', {'_label': 'ul'}, [('li', {'_label': 'leaf'}, [])]), ('p', {'_label': 'after'}, [])])])])

    def desc(n):
        out = []
        for c in n.get('contents'):
            if not isinstance(c, TextNode):
                out.append(c)
                out += desc(c)
        return out
    lab = lambda n: object.__getattribute__(n, '_name')      # noqa: E731
    bad = None
    for what, target in (('the root element', L['root']), ('an inner element with following siblings', L['d']), ('a leaf', L['leaf']),
                         ('the document object', doc), ('the last child of its parent', L['after']), ('head', L['head'])):
        me = real_matcher(ctx, target)
        try:
            got = list(call_function(ctx, fnq, [0], {}, {'css_match.CSSMatch.match': lambda el: True, 'util.lower': strict_lower,
                                                         'css_match.CSSMatch.supports_namespaces': lambda: False}, me))
        except Raised as e:
            got = f'raises {e.exc_name}'
        except Unsupported as e:
            raise AnalysisError(f'CSSMatch.select: outside the evaluable fragment: {e}')
        exp = desc(target)
        ok = isinstance(got, list) and len(got) == len(exp) and all(a is b for a, b in zip(got, exp))
        rule.instance({'target': what, 'yielded': got if isinstance(got, str) else [lab(x) if isinstance(x, Obj) else repr(x) for x in got],
                       'expected': [lab(x) for x in exp], 'ok': ok}, key=f'select-walk|{what}')
        if not ok and bad is None:
            bad = (what, got, exp)
    rule.obligation(bad is None)
    if bad is not None:
        what, got, exp = bad
        rule.violation('css_match.CSSMatch.select walk', mod.where(fn),
                       f'CSSMatch.select() from {what}, every element accepted, yields '
                       f'{got if isinstance(got, str) else [lab(x) if isinstance(x, Obj) else repr(x) for x in got]}; the element descendants of the '
                       f'target in document order are {[lab(x) for x in exp]} (the target itself, its siblings and non-element nodes are '
                       f'never candidates)')



def closest_filter_table(ctx, rule):
    """CSSMatch.closest() / CSSMatch.filter() on an abstract tree, the per-element verdict supplied by a stand-in for match()."""
    mod = ctx.src.mod('css_match')
    doc, order, L = build_tree([('html', {'_label': 'root'}, [('body', {'_label': 'body'}, [
        ('div', {'_label': 'outer'}, ['t', ('div', {'_label': 'inner'}, [('#comment', 'c'), ('p', {'_label': 'p'}, [('b', {'_label': 'b'}, [])]), 'u',
                                                                       ('span', {'_label': 'span'}, [])]), ('i', {'_label': 'sib'}, [])])])])])
    lab = lambda n: None if n is None else (object.__getattribute__(n, '_name') if isinstance(n, Obj) else repr(n))      # noqa: E731
    chain = [L['p'], L['inner'], L['outer'], L['body'], L['root']]
    bad = None
    for fnq, cases in (
            ('css_match.CSSMatch.closest', [(L['p'], set(ms), next((n for n in chain if lab(n) in ms), None))
                                            for ms in ((), ('<p>',), ('<inner>',), ('<outer>', '<root>'), ('<p>', '<body>'), ('<root>',), ('<b>', '<sib>', '<span>'))]),
            ('css_match.CSSMatch.filter', [(L['inner'], set(ms), [n for n in (L['p'], L['span']) if lab(n) in ms])
                                           for ms in ((), ('<p>',), ('<span>',), ('<p>', '<span>', '<b>', '<inner>'), ('<b>',))]
             # the document object as the target: its element children (the root element), not the root's children
             + [(doc, set(ms), [n for n in (L['root'],) if lab(n) in ms]) for ms in (('<root>',), ('<body>',), ('<root>', '<body>'), ())])):
        if not ctx.src.try_func(fnq):
            rule.note(f'{fnq} does not exist on this tree: the entry point is decided by the SoupSieve method table alone')
            continue
        fmod, fn = ctx.src.func(fnq)
        for target, ms, exp in cases:
            me = real_matcher(ctx, target)
            try:
                got = call_function(ctx, fnq, [], {}, {'css_match.CSSMatch.match': lambda el, _ms=ms: lab(el) in _ms, 'util.lower': strict_lower,
                                                      'css_match.CSSMatch.supports_namespaces': lambda: False}, me)
                if fnq.endswith('filter'):
                    got = list(got)
            except Raised as e:
                got = f'raises {e.exc_name}'
            except Unsupported as e:
                raise AnalysisError(f'{fnq}: outside the evaluable fragment: {e}')
            if isinstance(exp, list):
                ok = isinstance(got, list) and len(got) == len(exp) and all(a is b for a, b in zip(got, exp))
            else:
                ok = got is exp
            show = (lambda v: v if isinstance(v, str) else ([lab(x) for x in v] if isinstance(v, list) else lab(v)))
            rule.instance({'function': fnq.split('.')[-1], 'target': lab(target), 'match_accepts': sorted(ms), 'result': show(got),
                           'expected': show(exp), 'ok': ok}, key=f'{fnq}|{lab(target)}|{sorted(ms)}')
            if not ok and bad is None:
                bad = (fnq, fmod.where(fn), lab(target), sorted(ms), show(got), show(exp))
    rule.obligation(bad is None)
    if bad is not None:
        fnq, where, target, ms, got, exp = bad
        rule.violation(f'{fnq} table', where,
                       f'{fnq.split(".", 1)[1]}() from target {target} when match() accepts exactly {ms}: result {got}, expected {exp} '
                       + ('(the nearest of the target and its ancestors that match() accepts, else None)' if fnq.endswith('closest') else
                          '(the element children of the target that match() accepts, in order)'))



def list_facts_table(ctx, rule):
    """The list-level facts of a compiled selector list (is_html: evaluate only in HTML documents / with the HTML namespace map;
    is_not) as a function of the list's own parse flags: parse_selectors is interpreted on `a , a<E>` for every kind of simple
    selector E (each parameterless pseudo-class, :dir(), :lang(), :-soup-contains(), a custom pseudo-class, id, class, attribute):
    whatever E is, the list must come out with is_html == bool(flags & FLG_HTML) and is_not == bool(flags & FLG_NOT) - a fact of
    the whole list that one alternative can switch on changes how its sibling alternatives are evaluated, and "A, B" is then no
    longer the union of A and B."""
    pmod, pfn = ctx.src.func('css_parser.CSSParser.parse_selectors')
    F = _flags(ctx)
    sl = Obj(_cls='css_types.SelectorList', _name='COMPILED_CUSTOM', selectors=(), is_not=False, is_html=False, __iter__=[], __len__=0)

    def values(text):
        return lambda rx_obj, s_, *a: [match_obj({'value': text, 'split': None, 0: text})]
    extras = [(name, tok('pseudo_class', whole=name, name=name, open=None), {}) for name in sorted(ctx.consts.const('css_parser', 'PSEUDO_SIMPLE'))]
    extras += [
        (':dir(ltr)', tok('pseudo_dir', whole=':dir(ltr)', name=':dir', dir='ltr', open='('), {}),
        (':lang(en)', tok('pseudo_lang', whole=':lang(en)', name=':lang', values='en', open='('), {'re.Pattern.finditer': values('en')}),
        (':-soup-contains(a)', tok('pseudo_contains', whole=':-soup-contains(a)', name=':-soup-contains', values='a', open='('),
         {'re.Pattern.finditer': values('a')}),
        (':--x', tok('pseudo_class_custom', whole=':--x', name=':--x'), {}),
        ('#i', tok('id', whole='#i'), {}), ('.c', tok('class', whole='.c'), {}),
        ('[href]', tok('attribute', whole='[href]', cmp=None, case=None, attr_ns=None, attr_name='href', value=None), {}),
    ]
    n = 0
    for flags, fname in ((0, 'no flags'), (F['FLG_HTML'], 'FLG_HTML')):
        for text, token, extra in extras:
            toks = [_tag('a'), _comb(','), _tag('a'), token]
            it = iter(toks)

            def nxt(x):
                try:
                    return next(x)
                except StopIteration:
                    raise Raised('StopIteration')
            stubs = dict(extra)
            stubs.update({'next': nxt, 'css_parser._Selector': lambda **kw: tables._sel_with(kw),
                          'css_types.SelectorNth': lambda *a_, **k_: Obj(_name='SelectorNth')})
            try:
                res = call_function(ctx, 'css_parser.CSSParser.parse_selectors', [it, 0, flags], {}, stubs, parser_obj(custom={':--x': sl}))
                got = (bool(res.get('is_html')), bool(res.get('is_not')))
            except Raised as e:
                got = f'raises {e.exc_name}'
            except Unsupported as e:
                raise AnalysisError(f'parse_selectors on `a, a{text}`: outside the evaluable fragment: {e}')
            exp = (bool(flags & F['FLG_HTML']), False)
            n += 1
            rule.instance({'selector': f'a, a{text}', 'parse_flags': fname, '(is_html, is_not)': got, 'expected': exp},
                          key=f'facts|{fname}|{text}', sample_cap=8)
            rule.obligation(got == exp)
            if got != exp:
                rule.violation(f'parse_selectors list facts of `a, a{text}`' + ('' if not flags else f' under {fname}'), pmod.where(pfn),
                               f'the list `a, a{text}` parsed with {fname} comes out with (is_html, is_not) = {got}, expected {exp}: the simple '
                               f'selector {text} of one alternative changes a fact of the WHOLE list, so the sibling alternative `a` is '
                               f'evaluated in a different context (HTML documents only, HTML namespace map, no iframe crossing) than when it '
                               f'stands alone, and "A, B" is no longer the union of A and B')
    if n < 20:
        raise AnalysisError('list facts table: fewer than 20 rows (PSEUDO_SIMPLE not found?)')



def resolve_compile_sites(ctx):
    """Second-stage resolution of re.compile sites the constant folder left unresolved, for the attribute-selector parser.

    parse_attribute_selector is interpreted for every operator and case flag with marker values: a plain marker (re.escape
    leaves it as it is), a hostile value full of regex metacharacters, the empty value and a value with white space.  If every
    pattern handed to re.compile is `A + re.escape(value) + B` for parts A, B that do not depend on the value (or a constant
    pattern), the site is entered into the regex inventory as the templates (A, <escaped hole>, B) and constants observed, and
    is no longer listed as unresolved.  Anything else stays unresolved."""
    from ..constfold import Opaque, Rx
    inv = ctx.consts
    # the compile site may sit in parse_attribute_selector itself or in a helper it calls (also a memoised one)
    try:
        from ..callgraph import CallGraph
        cg_ = ctx.get('callgraph', lambda: CallGraph(ctx.types, ctx.src))
        helpers = cg_.reachable(['css_parser.CSSParser.parse_attribute_selector'])
    except Exception:       # noqa: BLE001
        helpers = {'css_parser.CSSParser.parse_attribute_selector'}
    todo = [u for u in inv.unresolved if u[1] in helpers]
    if not todo:
        return
    sites = []
    for u in todo:
        try:
            pmod, pfn = ctx.src.func(u[1])
        except Exception:   # noqa: BLE001
            continue
        sites += [(pmod, c) for c in ast.walk(pfn) if isinstance(c, ast.Call) and ast.unparse(c.func) == 're.compile' and pmod.where(c) == u[0]]
    if not sites or len({id(c) for _, c in sites}) != len(todo):
        return
    pmod, site = sites[0]
    M1, M2, HOSTILE = 'Qq9Zz', 'Ww7Kk', 'x.*+?(y)[z]|^$'
    templates, consts = set(), set()
    ok = True
    for op in ('=', '!=', '^=', '$=', '*=', '~=', '|='):
        for case in (None, 'i', 's'):
            for attr in ('href', 'type'):
                seen = {}
                for value in (M1, M2, HOSTILE, '', 'a b'):
                    compiled = []

                    def rc(pat, flags=0, _c=compiled):
                        o = Obj(_name='re', pattern=pat, flags=flags, __isa__=('re.Pattern',))
                        _c.append(o)
                        return o
                    token = '"' + value.replace('"', '') + '"'
                    m = match_obj({'cmp': op, 'case': case, 'attr_ns': None, 'attr_name': attr, 'value': token})
                    ws_hit = lambda v, *a_: Obj(_name='m') if any(c in v for c in ' \t\r\n\f') else None    # noqa: E731
                    stubs = {'re.compile': rc, 'RE_WS.search': ws_hit, 're.Pattern.search': lambda rx_obj, v, *a_: ws_hit(v),
                             'css_parser._Selector': lambda **kw: fresh_sel(),
                             'css_parser.css_unescape': lambda t, string=False: t, 'css_unescape': lambda t, string=False: t}
                    try:
                        call_function(ctx, 'css_parser.CSSParser.parse_attribute_selector', [fresh_sel(), m, False], {}, stubs, parser_obj())
                    except (Unsupported, Raised):
                        return
                    seen[value] = [(o.get('pattern'), o.get('flags')) for o in compiled]
                n = len(seen[M1])
                if any(len(v) != n for v in seen.values()):
                    return
                for i in range(n):
                    p1, f1 = seen[M1][i]
                    if not isinstance(p1, str):
                        return
                    if M1 in p1:
                        if p1.count(M1) != 1:
                            return
                        a, b = p1.split(M1)
                        # the same parts for another marker, and the hostile value enters escaped
                        if seen[M2][i][0] != a + M2 + b or seen[HOSTILE][i][0] != a + re.escape(HOSTILE) + b:
                            ok = False
                        templates.add((a, b, int(f1) if isinstance(f1, int) else -1))
                        for special in ('', 'a b'):
                            ps_, fs_ = seen[special][i]
                            if ps_ != a + re.escape(special) + b:
                                consts.add((ps_, int(fs_) if isinstance(fs_, int) else -1))
                    else:
                        consts.add((p1, int(f1) if isinstance(f1, int) else -1))
    if not ok or not templates:
        return
    where = pmod.where(site)
    for i, (a, b, fl) in enumerate(sorted(templates)):
        inv.regexes.append(Rx(f'css_parser.CSSParser.parse_attribute_selector:template:{a}..{b}#i{i}', (a, Opaque('re.escape(value)'), b), fl,
                              'css_parser', where, 'template', site, 'CSSParser.parse_attribute_selector'))
    for i, (p_, fl) in enumerate(sorted(consts)):
        inv.regexes.append(Rx(f'css_parser.CSSParser.parse_attribute_selector:const#{i}', p_, fl if fl >= 0 else 0, 'css_parser', where,
                              'instance', site, 'CSSParser.parse_attribute_selector'))
    inv.unresolved = [u for u in inv.unresolved if u not in todo]



def context_restore_table(ctx, rule):
    """The per-call matcher is used for many elements: evaluating one element must leave it as it was.  match_selectors is
    interpreted on HTML-only lists (plain, nested inside one another through match_subselectors, with a passing / failing /
    un-matchable alternative) in HTML and non-HTML documents; afterwards the matcher's namespace map must be the caller's own
    object and iframe_restrict what it was, and during the evaluation of an HTML-only list both must be the internal ones."""
    fnq = 'css_match.CSSMatch.match_selectors'
    mod, fn = ctx.src.func(fnq)
    NSMAP = {'x': 'urn:x'}
    bad = None
    n = 0

    def sel_obj(passes, inner=None):
        return Obj(_cls='css_types.Selector', _name='S', tag=Obj(_name='tag', verdict=passes), ids=(), classes=(), attributes=(), nth=(),
                   selectors=(inner,) if inner is not None else (), relation=Obj(_name='rel', __len__=0, __iter__=[], __bool__=False),
                   rel_type=None, contains=(), lang=(), flags=0)

    def lst(alts, is_html, is_not=False):
        return Obj(_cls='css_types.SelectorList', _name='list', selectors=tuple(alts), is_not=is_not, is_html=is_html, __iter__=list(alts),
                   __len__=len(alts))
    for doc_html in (True, False):
        for outer_html in (True, False):
            for shape in ('plain', 'nested html-only list', 'nested html-only list in :not()', 'null first'):
                for passes in (True, False):
                    for restrict0 in (False, True):
                        me = Obj(_cls='css_match.CSSMatch', _name='self', namespaces=NSMAP, iframe_restrict=restrict0, is_html=doc_html,
                                 is_xml=not doc_html, scope=None, root=None, tag=None, has_html_namespace=False)
                        seen = []

                        def match_tag(el, tag, _me=me, _seen=seen):
                            _seen.append((_me.get('namespaces'), _me.get('iframe_restrict')))
                            return tag.get('verdict')
                        inner = None
                        if shape.startswith('nested'):
                            inner = lst([sel_obj(passes)], True, is_not='not' in shape)
                        alts = [sel_obj(passes if inner is None else True, inner)]
                        if shape == 'null first':
                            alts = [Obj(_cls='css_types.SelectorNull', _name='Null')] + alts
                        stubs = {f'self.{c}': (lambda *a, **k: True) for c in CHECKS if c != 'match_subselectors'}
                        stubs['self.match_tag'] = match_tag
                        try:
                            call_function(ctx, fnq, [Obj(_name='el'), lst(alts, outer_html)], {}, stubs, me)
                            after = (me.get('namespaces'), me.get('iframe_restrict'))
                            problem = None
                            if after[0] is not NSMAP or after[1] is not restrict0:
                                problem = (f'leaves the matcher with namespaces={after[0]!r}, iframe_restrict={after[1]!r}; before the call they '
                                           f'were the caller\'s map {NSMAP!r} and {restrict0!r}')
                        except Raised as e:
                            problem = f'raises {e.exc_name}'
                        except Unsupported as e:
                            raise AnalysisError(f'match_selectors: outside the evaluable fragment: {e}')
                        n += 1
                        if problem and bad is None:
                            bad = (doc_html, outer_html, shape, passes, problem)
    # ... and on a compound that carries every field and flag, with each single check failing in turn (every way out of the
    # per-compound chain of checks)
    inv = ctx.consts
    all_flags = 0
    for nm_ in inv.folder.env_nodes['css_types']:
        if nm_.startswith('SEL_'):
            all_flags |= inv.folder.lookup('css_types', nm_)
    for failing in [None] + list(CHECKS):
        for doc_html in (True, False):
            for is_not in (False, True):
                full = Obj(_cls='css_types.Selector', _name='Selector', tag=Obj(_name='tag'), ids=('i',), classes=('c',), attributes=(Obj(_name='attr'),),
                           nth=(Obj(_name='nth'),), selectors=(Obj(_name='sub'),), relation=Obj(_name='rel', __len__=1, __iter__=[Obj(_name='r0')], __bool__=True),
                           rel_type=None, contains=(Obj(_name='cont'),), lang=(Obj(_name='lang'),), flags=all_flags)
                me = Obj(_cls='css_match.CSSMatch', _name='self', namespaces=NSMAP, iframe_restrict=False, is_html=doc_html, is_xml=not doc_html,
                         scope=None, root=None, tag=None, has_html_namespace=False)
                stubs = {f'self.{c}': (lambda *a, _c=c, **k: _c != failing) for c in CHECKS}
                try:
                    call_function(ctx, fnq, [Obj(_name='el'), lst([full, full], True, is_not)], {}, stubs, me)
                    after = (me.get('namespaces'), me.get('iframe_restrict'))
                    problem = None if (after[0] is NSMAP and after[1] is False) else (
                        f'leaves the matcher with namespaces={after[0]!r}, iframe_restrict={after[1]!r} when the check {failing} fails')
                except Raised as e:
                    problem = f'raises {e.exc_name}'
                except Unsupported as e:
                    raise AnalysisError(f'match_selectors: outside the evaluable fragment: {e}')
                n += 1
                if problem and bad is None:
                    bad = (doc_html, True, f'a compound with every field, {failing or "no check"} failing', failing is None, problem)
    rule.instance({'match_selectors': 'matcher state before = after', 'cases': n}, key='context-restore')
    rule.obligation(bad is None)
    if bad is not None:
        doc_html, outer_html, shape, passes, problem = bad
        rule.violation('css_match.CSSMatch.match_selectors context restore', mod.where(fn),
                       f'match_selectors on {"an HTML-only" if outer_html else "an ordinary"} list ({shape}, the compound '
                       f'{"passes" if passes else "fails"}) in {"an HTML" if doc_html else "a non-HTML"} document {problem}. The same matcher '
                       f'evaluates the next element of select()/filter()/closest(): it would be evaluated with the wrong namespace map / '
                       f'iframe policy, so these entry points stop being views of match()')


def no_tree_recursion_rule(ctx, rule):
    """The tree-walking helpers of _DocumentNav (descendants, children, text collection, siblings) and the entry points that
    iterate over them are not part of a cycle of the call graph: a walk that recurses once per tree level raises RecursionError on
    documents nested deeper than the interpreter's recursion limit (about a thousand levels), where an iterative walk answers."""
    from ..callgraph import CallGraph
    cg = ctx.get('callgraph', lambda: CallGraph(ctx.types, ctx.src))
    mmod = ctx.src.mod('css_match')
    # normalize_value recurses over nested attribute-value lists (the depth of a list literal given through the bs4 API), not over
    # the tree: reviewed, exempt
    nav = [f'css_match.{q}' for q in mmod.functions if q.startswith('_DocumentNav.') and q.count('.') == 1 and q != '_DocumentNav.normalize_value']
    nav += [f'css_match.CSSMatch.{m}' for m in ('select', 'closest', 'filter') if f'CSSMatch.{m}' in mmod.functions]
    if len(nav) < 10:
        raise AnalysisError('fewer than ten navigation helpers found in css_match._DocumentNav (anchor vanished)')
    bad = None
    for q in sorted(nav):
        reach = set()
        stack = list(cg.edges.get(q, ()))
        while stack:
            f = stack.pop()
            if f in reach or f == 'css_match._DocumentNav.normalize_value':
                continue        # cycles through normalize_value are recursion over nested value lists (exempt, see above)
            reach.add(f)
            stack.extend(cg.edges.get(f, ()))
        cyc = q in reach
        rule.instance({'function': q, 'part_of_a_call_cycle': cyc}, key=f'recursion|{q}', sample_cap=4)
        if cyc and bad is None:
            bad = q
    rule.obligation(bad is None)
    if bad is not None:
        mn, _, rest = bad.partition('.')
        rule.violation(f'{bad} recurses', mmod.where(mmod.functions[rest]),
                       f'{bad} can call itself (directly or through the functions it calls): a tree walk that recurses per level of the '
                       f'document raises RecursionError on trees nested deeper than the recursion limit (e.g. 1500 nested <div>), which an '
                       f'iterative walk handles')


def util_lower_table(ctx, rule):
    """util.lower interpreted on every ASCII code point and on non-ASCII letters that str.lower() would change: it folds exactly
    A-Z.  (Every table replaces util.lower - which sits behind lru_cache - by a reference with that behaviour; this is the check
    that the replacement is faithful.)"""
    umod, lower_fn = ctx.src.func('util.lower')
    bad = None
    for ch in [chr(c) for c in range(128)] + ['\xc9', 'İ', 'K', 'Σ', '\U0001d400', 'ß', 'ǅ']:
        text = 'x' + ch + 'y'
        try:
            got = call_function(ctx, 'util.lower', [text], {}, {}, None)
        except Raised as e:
            got = f'raises {e.exc_name}'
        except Unsupported as e:
            raise AnalysisError(f'util.lower: outside the evaluable fragment: {e}')
        exp = 'x' + (chr(ord(ch) + 32) if 'A' <= ch <= 'Z' else ch) + 'y'
        rule.instance({'char': repr(ch), 'lower': repr(got)}, key=f'lower|{ch!r}', sample_cap=3)
        if got != exp and bad is None:
            bad = (text, got, exp)
    rule.obligation(bad is None)
    if bad is not None:
        rule.violation('util.lower ascii fold', umod.where(lower_fn),
                       f'util.lower({bad[0]!r}) = {bad[1]!r}, expected {bad[2]!r}: ASCII case folding must map exactly A-Z to a-z and leave every '
                       f'other character alone (names that differ in a non-ASCII letter are different names)')


def memo_container_problem(ctx, mmod, name, init_value):
    """A per-matcher memo is a list (scanned by identity) or a dict / set whose keys are never tags: bs4 tags hash and compare by
    markup, so a table keyed by a tag merges look-alike elements; keys built from id(...) (ints), strings or tuples of those are
    fine.  Returns None or a description of the offending key."""
    if isinstance(init_value, ast.List):
        return None
    tf = ctx.types
    base = name.split('.', 1)[1] if name.startswith('self.') else name

    def is_memo(e):
        return isinstance(e, ast.Attribute) and e.attr == base and isinstance(e.value, ast.Name)
    keys = []
    for q, fn in mmod.functions.items():
        for n in ast.walk(fn):
            if isinstance(n, ast.Subscript) and is_memo(n.value):
                keys.append((q, n.slice))
            elif isinstance(n, ast.Call) and isinstance(n.func, ast.Attribute) and is_memo(n.func.value) and n.func.attr in ('get', 'setdefault', 'pop', 'add', 'discard', '__contains__') and n.args:
                keys.append((q, n.args[0]))
            elif isinstance(n, ast.Compare) and len(n.ops) == 1 and isinstance(n.ops[0], (ast.In, ast.NotIn)) and is_memo(n.comparators[0]):
                keys.append((q, n.left))
    for q, k in keys:
        parts = k.elts if isinstance(k, ast.Tuple) else [k]
        for part in parts:
            t = tf.type_of(mmod.name, part)
            if t is not None and tf.is_bs4(t):
                return f'{q} uses `{ast.unparse(k)}` (a tag, by inferred type {tf.show(t)}) as key of {name}'
            if t is not None and any(x == 'tuple' for x in tf.instance_names(t)) and 'Tag' in tf.show(t):
                return f'{q} uses `{ast.unparse(k)}` (type {tf.show(t)}) as key of {name}'
    return None


def fresh_memo(ctx, name, default=None):
    """The value CSSMatch.__init__ gives the per-matcher memo self.<name> (an empty list, dict or set), built afresh."""
    try:
        _, init = ctx.src.func('css_match.CSSMatch.__init__')
    except Exception:
        return [] if default is None else default
    for st in ast.walk(init):
        if isinstance(st, (ast.Assign, ast.AnnAssign)):
            tg = st.targets[0] if isinstance(st, ast.Assign) else st.target
            if isinstance(tg, ast.Attribute) and tg.attr == name and isinstance(tg.value, ast.Name) and tg.value.id == 'self' and st.value is not None:
                v = st.value
                if isinstance(v, ast.Call) and isinstance(v.func, ast.Name) and v.func.id in ('dict', 'list', 'set') and not v.args and not v.keywords:
                    return {'dict': dict, 'list': list, 'set': set}[v.func.id]()
                try:
                    return ast.literal_eval(v)
                except (ValueError, SyntaxError):
                    break
    return [] if default is None else default
