"""C01 - select() returns exactly the elements CSS semantics designate (decided clauses only).

R1  the document object is never handed to match_selectors as a parent / ancestor
R2  an empty operand of ^= $= *= (and ~=) compiles to an unmatchable pattern
R3  tokenizer <-> parser <-> regex tables agree (token names, dispatch keys, group names, pseudo-class tables)
R4  combinator tables agree between parser and matcher
R5  every IR field is consulted, conjunctively (guard chain of match_selectors; AND-folds of the helpers)
R6  each attribute operator pattern is, as a language over attribute values, the operator's Selectors definition
R7  a comma resets every piece of per-alternative parser state
R8  class splitting and emptiness use exactly the CSS whitespace characters
"""
from __future__ import annotations

import ast
import re
import re._parser as sp

from .. import rx
from ..boolpaths import BoolEnv, norm_atom
from ..constfold import Opaque
from ..core import AnalysisError, Report
from ..pathwalk import Domain, Walker
from ..srcmodel import call_name, unparse, walk_no_nested

WSCH = r'[ \t\n\r\f]'


def op_reference(op: str, lit: str) -> str | None:
    """Reference language (regex source, DOTALL) of attribute operator `op` for the non-empty literal value."""
    v = re.escape(lit)
    has_ws = bool(re.search(r'[ \t\n\r\f]', lit))
    return {
        '=': f'(?s){v}',
        '!': f'(?s){v}',
        '^': f'(?s){v}.*',
        '$': f'(?s).*{v}',
        '*': f'(?s).*{v}.*',
        '|': f'(?s){v}(?:-.*)?',
        '~': '(?s)[^\\s\\S]' if has_ws else f'(?s)(?:.*{WSCH})?{v}(?:{WSCH}.*)?',
    }.get(op)


def run(ctx, report: Report) -> None:
    src, inv = ctx.src, ctx.consts
    report.explanation = (
        'Necessary conditions of soundness/completeness that live in the shape of the code: a taint rule for the '
        'document object, exhaustiveness/agreement of the token, dispatch, group, pseudo-class and combinator tables, '
        'the conjunctive guard chain over every IR field, exact language equality of every attribute-operator pattern '
        'template (per operator, per flags variant, per literal shape, with the semantics of re.match) with the '
        "operator's definition in Selectors, a path rule that a comma resets all per-alternative parser state, and the "
        'CSS whitespace set.')
    report.not_decided = ('sibling/descendant walk correctness over all trees, :root/:empty beyond the node-kind and '
                          'whitespace rules, freezing order of relation chains, Unicode (vs ASCII) case folding of the '
                          'i flag.')
    report.trusted_base = ['re._parser.parse', 'ast']
    mmod = src.mod('css_match')
    pmod = src.mod('css_parser')

    # ---- R1 --------------------------------------------------------------------------------------------
    r1 = report.rule('C01-R1', 'the document object is never matched as a parent/ancestor element', floor=26)
    from .sem import relations_table
    relations_table(ctx, r1)

    # ---- R2 + R6: attribute operator patterns (extracted by partial evaluation of parse_attribute_selector) ----------
    r2 = report.rule('C01-R2', 'an empty operand of ^= $= *= ~= designates nothing', floor=23)
    r6 = report.rule('C01-R6', 'attribute operator patterns equal the operator definitions (as languages)', floor=74)
    from .sem import attribute_patterns
    rows = attribute_patterns(ctx)
    report.analysed['attribute_pattern_rows'] = len(rows)
    reported = set()
    seen_lang = {}
    for row in rows:
        op = row['op']
        if op is None:
            ok = row['pattern'] is None
            r6.instance({'selector': f'[{row["attr"]}]', 'pattern': row['pattern'], 'presence_only': ok}, key=f'presence|{row["attr"]}',
                        sample_cap=2)
            if not ok:
                r6.violation('parse_attribute_selector presence pattern', 'soupsieve/css_parser.py (parse_attribute_selector)',
                             f'[{row["attr"]}] compiles a value pattern {row["pattern"]!r}; a bare attribute selector must only test presence')
            continue
        ch = op[0] if op != '=' else '='
        if ch == '!':
            ch = '='
            if not row['inverse']:
                r6.violation('parse_attribute_selector != not negated', 'soupsieve/css_parser.py (parse_attribute_selector)',
                             '[attr!=v] is not compiled as :not([attr=v])')
        elif row['inverse']:
            r6.violation(f'parse_attribute_selector {op} negated', 'soupsieve/css_parser.py (parse_attribute_selector)', f'[attr{op}v] is negated')
        pats = [(row['pattern'], row['flags'], 'pattern')]
        if row['twin_pattern'] is not None:
            pats.append((row['twin_pattern'], row['twin_flags'], 'case-sensitive twin'))
        for pat, fl, which in pats:
            if pat is None:
                r6.violation(f'parse_attribute_selector {op} no pattern', 'soupsieve/css_parser.py (parse_attribute_selector)',
                             f'[attr{op}"{row["value"]}"] compiles no pattern')
                continue
            key = (ch, row['value'], pat, fl)
            if key not in seen_lang:
                try:
                    sysm = rx.System()
                    A = sysm.add('code', pat, fl)
                    A.prefix_lang = True
                    empty_needed = row['value'] == '' and ch in '^$*~'
                    ws_value = bool(re.search(r'[ \t\n\r\f]', row['value']))
                    if empty_needed or (ch == '~' and ws_value):
                        sysm.freeze()
                        n, w = A.shortest()
                        seen_lang[key] = ('empty', None if n is None else w)
                    else:
                        B = sysm.add('ref', op_reference(ch, row['value']) if row['value'] else {
                            '=': '(?s)', '|': '(?s)(?:-.*)?'}[ch], fl & re.I)
                        sysm.freeze()
                        seen_lang[key] = ('equiv', rx.equivalent(A, B))
                except rx.Unsupported as e:
                    raise AnalysisError(f'attribute pattern {pat!r}: {e}')
            kind, res = seen_lang[key]
            desc = {'selector': f'[{row["attr"]}{op}"{row["value"]}"{" " + row["case"] if row["case"] else ""}]', 'which': which,
                    'pattern': pat, 'flags': fl}
            if kind == 'empty':
                r2.instance({**desc, 'matches_something': res}, key=f'{ch}|{row["value"]}|{pat}|{fl}', sample_cap=4)
                r2.obligation(res is None)
                if res is not None and ('empty', ch, which) not in reported:
                    reported.add(('empty', ch, which))
                    what = 'an empty value' if row['value'] == '' else 'a value containing whitespace'
                    r2.violation(f'parse_attribute_selector {ch}= empty', 'soupsieve/css_parser.py (parse_attribute_selector)',
                                 f'{desc["selector"]}: the {which} {pat!r} can match (e.g. {res!r}); {what} given to {ch}= must designate nothing')
            else:
                r6.instance({**desc, 'difference': res}, key=f'{ch}|{row["value"]}|{pat}|{fl}', sample_cap=4)
                r6.obligation(res is None)
                if res is not None and (ch, res[0], which) not in reported:
                    reported.add((ch, res[0], which))
                    side = 'the pattern matches, the operator does not' if res[0] == 'only-in-first' else 'the operator matches, the pattern does not'
                    r6.violation(f'parse_attribute_selector {ch}= {res[0]}', 'soupsieve/css_parser.py (parse_attribute_selector)',
                                 f'{desc["selector"]} ({which}, flags={fl}): value {res[1]!r} - {side}')

    # ---- R3 --------------------------------------------------------------------------------------------
    r3 = report.rule('C01-R3', 'tokenizer, dispatch and regex-group tables agree', floor=11)
    # every token kind the tokenizer can produce has a handler that records it (or refuses it), and the handler reads only groups
    # the token's pattern defines: parse_selectors interpreted on one token of each kind
    from .sem import single_token_table
    single_token_table(ctx, r3)
    # pseudo-class tables: what `:name` does to the selector under construction (partial evaluation of parse_pseudo_class)
    from .sem import pseudo_table
    _, pc = src.func('css_parser.CSSParser.parse_pseudo_class')
    ptab = pseudo_table(ctx)
    sel_flag = {':root': 'SEL_ROOT', ':defined': 'SEL_DEFINED', ':scope': 'SEL_SCOPE', ':empty': 'SEL_EMPTY'}
    nth_names = {':first-child', ':last-child', ':first-of-type', ':last-of-type', ':only-child', ':only-of-type'}
    for name, row in sorted(ptab.items()):
        effect = bool(row['flags'] or row['consts'] or row['nth'] or row['other'])
        if name in sel_flag:
            want = {'flags': inv.folder.lookup('css_types', sel_flag[name]), 'consts': []}
        elif name in nth_names:
            want = None         # the An+B records are compared by C02-R3
        else:
            want = {'flags': 0, 'consts': ['CSS_LINK' if name == ':any-link' else 'CSS_' + name[1:].upper().replace('-', '_')]}
        ok = effect and row['raises'] is None and not row['other'] and (
            want is None or (row['flags'] == want['flags'] and row['consts'] == want['consts'] and not row['nth']))
        r3.instance({'simple_pseudo': name, 'flags_set': row['flags'], 'definitions_appended': row['consts'],
                     'nth_records': len(row['nth']), 'raises': row['raises'], 'expected': want}, key='ps-' + name)
        r3.obligation(ok)
        if not effect and row['raises'] is None:
            r3.violation(f'PSEUDO_SIMPLE {name} no branch', pmod.where(pc),
                         f'{name} is listed in PSEUDO_SIMPLE but parsing it leaves the selector unchanged: it is accepted and '
                         f'matches like the universal selector')
        elif not ok:
            r3.violation(f'PSEUDO_SIMPLE {name} effect', pmod.where(pc),
                         f'parsing {name} sets flags {row["flags"]:#x}, appends {row["consts"]}, {len(row["nth"])} nth record(s)'
                         f'{", raises " + row["raises"] if row["raises"] else ""}{", touches " + str(row["other"]) if row["other"] else ""}; '
                         f'expected {want}: the pseudo-class is bound to the wrong definition')
    special_names = set()
    for row in getattr(inv, 'special_table', ()):
        special_names.update(row[1])
    special = inv.const('css_parser', 'PSEUDO_SPECIAL')
    contains_names = {n for n in inv.const('css_parser', 'PSEUDO_COMPLEX') if 'contains' in n}
    want = set(special) | contains_names
    r3.instance({'special_table_names': sorted(special_names), 'PSEUDO_SPECIAL+contains': sorted(want)}, key='special')
    r3.obligation(special_names == want)
    if special_names != want:
        r3.violation('special pseudo table', pmod.where(pmod.classes['CSSParser']),
                     f'the special token table covers {sorted(special_names)}, PSEUDO_SPECIAL + contains are {sorted(want)}')
    _, po = src.func('css_parser.CSSParser.parse_pseudo_open')
    complex_names = {n for n in inv.const('css_parser', 'PSEUDO_COMPLEX') if 'contains' not in n}
    r3.instance({'complex_pseudo': sorted(complex_names)}, key='complex', nontrivial=False)

    # ---- R4 --------------------------------------------------------------------------------------------
    r4 = report.rule('C01-R4', 'combinator tables agree between parser and matcher', floor=1)
    comb = inv.by_name('token:combine')
    s = rx.System()
    G = s.add('rel', comb.pattern, comb.flags, group='relation')
    s.freeze()
    chars = set()
    for ai in range(s.nat):
        if G.accepts_at_end(G.step(G.init(), ai)) or G.matched_now(G.step(G.init(), ai)):
            at = s.atoms[ai]
            if at.size() > 8:
                raise AnalysisError('combinator group accepts an open-ended character class')
            for lo, hi in at.iv:
                chars.update(chr(c) for c in range(lo, hi))
    stored = {c.strip() or inv.const('css_parser', 'WS_COMBINATOR') for c in chars}
    comma = inv.const('css_parser', 'COMMA_COMBINATOR')
    stored.discard(comma)
    parser_set = set(stored) | {':' + c for c in stored}
    rel_consts = {k: v for k, v in ((n, inv.folder.try_ev('css_match', ast.Name(id=n, ctx=ast.Load()))) for n in
                                    inv.folder.env_nodes['css_match'] if n.startswith('REL_')) if isinstance(v, str)}
    matcher_set = set(rel_consts.values())
    r4.instance({'parser_can_store': sorted(parser_set), 'matcher_constants': rel_consts}, key='sets')
    r4.obligation(parser_set == matcher_set)
    if parser_set != matcher_set:
        r4.violation('combinator sets differ', comb.where,
                     f'the parser can store rel_type values {sorted(parser_set)}; the matcher knows {sorted(matcher_set)}: '
                     f'{sorted(parser_set ^ matcher_set)} never match')
    # what each of these combinators designates is decided by the relations table of R1, whatever the dispatch looks like

    # ---- R5 (decision tables by partial evaluation) ------------------------------------------------------
    r5 = report.rule('C01-R5', 'every IR field is consulted, conjunctively (decision tables)', floor=140)
    from .sem import helper_tables, match_selectors_table
    match_selectors_table(ctx, r5)
    helper_tables(ctx, r5)
    from .sem import root_table, same_type_table
    same_type_table(ctx, r5)
    root_table(ctx, r5)
    from .sem import identity_table
    identity_table(ctx, r5)

    r7 = report.rule('C01-R7', 'a comma resets every piece of per-alternative parser state (parsed token sequences)', floor=1)
    from .sem import comma_tables
    comma_tables(ctx, r7)

    # ---- R8 --------------------------------------------------------------------------------------------
    r8 = report.rule('C01-R8', 'class splitting and emptiness use the CSS whitespace set', floor=1)
    for name, ref in (('RE_NOT_WS', '[^ \\t\\n\\r\\f]+'), ('RE_NOT_EMPTY', '[^ \\t\\n\\r\\f]')):
        r = inv.find(f'css_match.{name}')
        d = 'missing'
        if r is not None:
            s = rx.System()
            A = s.add('a', r.pattern, r.flags)
            B = s.add('b', ref, 0)
            s.freeze()
            d = rx.equivalent(A, B)
        r8.instance({'regex': name, 'reference': ref, 'difference': d}, key=name)
        r8.obligation(d is None)
        if d is not None:
            r8.violation(f'css_match.{name} whitespace', r.where if r else 'soupsieve/css_match.py',
                         f'{name} is {"missing" if r is None else "not the complement of CSS whitespace"} ({d}): class '
                         f'lists / emptiness are decided with a different whitespace set than CSS (space, tab, LF, CR, FF)')
    _, gc = src.func('css_match._DocumentNav.get_classes')
    ok = any(isinstance(c, ast.Call) and unparse(c.func) == 'RE_NOT_WS.findall' for c in ast.walk(gc))
    bad = [c for c in ast.walk(gc) if isinstance(c, ast.Call) and isinstance(c.func, ast.Attribute)
           and c.func.attr in ('split', 'strip') and not c.args]
    r8.instance({'get_classes': 'splits a string value with RE_NOT_WS.findall', 'ok': ok and not bad}, key='get_classes')
    r8.obligation(ok and not bad)
    if not ok or bad:
        r8.violation('css_match._DocumentNav.get_classes split', mmod.where(gc),
                     'get_classes does not split a string-valued class attribute with the CSS-whitespace regex (str.split() '
                     'also splits on NBSP, U+2003, VT ...): ".a" and [class~=a] disagree')

    # ---- R9 (the whole pipeline by interpretation, bounded) --------------------------------------------------------------
    r9 = report.rule('C01-R9', 'selectors of a pool designate what the Selectors specification says, on a reference tree (whole pipeline; bounded)', floor=356)
    from .e2ematch import core_semantics_table
    core_semantics_table(ctx, r9)

    # a select() that raises RecursionError on a deeply nested document returns nothing at all: the walk helpers are iterative
    from .sem import no_tree_recursion_rule
    no_tree_recursion_rule(ctx, r9)

    # names are compared exactly, up to ASCII case in HTML trees: the case table (document flavours, foreign elements, non-ASCII letters)
    from .e2ematch import case_rules_table
    case_rules_table(ctx, r9)

    from .sem import util_lower_table
    util_lower_table(ctx, r9)

    # elements are told apart by identity, not by markup; comments and empty strings between elements change nothing
    from .e2ematch import lookalike_table
    lookalike_table(ctx, r9)

    # a compound designates the intersection of its simple selectors, whatever families they come from and in either order
    from .e2ematch import compound_conjunction_table
    compound_conjunction_table(ctx, r9, deep=(ctx.tier == 'thorough'))



def comma_reset_rule(ctx, r7):
    """On every path taken for a comma the per-alternative parser state is reset (shared with C05)."""
    src, inv = ctx.src, ctx.consts
    pmod = src.mod('css_parser')
    _, ps = src.func('css_parser.CSSParser.parse_selectors')
    # ---- R7 --------------------------------------------------------------------------------------------
    comma_name = 'COMMA_COMBINATOR'
    default_rel = None
    for st in walk_no_nested(ps):
        if isinstance(st, ast.Assign) and isinstance(st.targets[0], ast.Name) and st.targets[0].id == 'rel_type':
            default_rel = unparse(st.value)
    if default_rel is None:
        raise AnalysisError('parse_selectors: initial rel_type not found')

    class Ev(Domain):
        """state = (facts frozenset, events frozenset)."""
        def is_state(self, x):
            return isinstance(x, tuple) and len(x) == 2 and isinstance(x[0], frozenset)

        def branch(self, state, test):
            facts, ev = state
            v = BoolEnv(facts).ev(test)
            from ..boolpaths import BoolDomain
            bd = BoolDomain()
            a = (bd._learn(facts, test, True), ev) if v is not False else None
            b = (bd._learn(facts, test, False), ev) if v is not True else None
            return a, b

        def stmt(self, state, node):
            facts, ev = state
            txt = unparse(node)
            if isinstance(node, ast.Delete) and txt.replace(' ', '') in ('delrelations[:]',):
                ev = ev | {'relations cleared'}
            if isinstance(node, ast.Expr) and isinstance(node.value, ast.Call) and call_name(node.value) == 'selectors.append':
                ev = ev | {'alternative appended'}
            if isinstance(node, ast.Expr) and isinstance(node.value, ast.Call) and call_name(node.value).endswith('relations.append'):
                ev = ev | {'relation appended'}
            if isinstance(node, ast.Assign) and isinstance(node.targets[0], ast.Name):
                nm = node.targets[0].id
                if nm == 'rel_type':
                    ev = (ev - {e for e in ev if e.startswith('rel_type=')}) | {'rel_type=' + unparse(node.value)}
                if nm == 'sel' and isinstance(node.value, ast.Call) and call_name(node.value) == '_Selector':
                    ev = ev | {'fresh sel'}
                if nm == 'has_selector':
                    ev = (ev - {e for e in ev if e.startswith('has_selector=')}) | {'has_selector=' + unparse(node.value)}
            return (facts, ev)

        def on_return(self, state, node):
            return ('ret', state[1])

        def on_raise(self, state, node):
            return ('raise', state[1])
    for fname, need in (('parse_combinator', {'relations cleared', 'alternative appended', 'fresh sel', 'has_selector=False'}),
                        ('parse_has_combinator', {'alternative appended', 'fresh sel', 'has_selector=False',
                                                  'rel_type=' + default_rel})):
        _, f = src.func(f'css_parser.CSSParser.{fname}')
        atom = norm_atom(ast.parse(f'combinator == {comma_name}', mode='eval').body)[0]
        w = Walker(Ev())
        out = w.block(f.body, {(frozenset({atom: True}.items()), frozenset())})
        rets = [s for s in out.ret]
        missing_all = set()
        for tag, ev in rets:
            miss = need - ev
            missing_all |= miss
        r7.instance({'function': fname, 'comma_paths_to_return': len(rets), 'required_resets': sorted(need),
                     'missing_on_some_path': sorted(missing_all)}, key=fname)
        r7.obligation(bool(rets) and not missing_all)
        if not rets:
            raise AnalysisError(f'{fname}: no path returns when the combinator is a comma')
        for m_ in sorted(missing_all):
            r7.violation(f'css_parser.CSSParser.{fname} comma {m_}', pmod.where(f),
                         f'{fname}: on some path taken for a comma the per-alternative state is not reset ({m_} missing): the '
                         f'next alternative of the list inherits combinators / relation chains of the previous one')

