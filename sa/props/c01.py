"""C01 - select() returns exactly the elements CSS semantics designate (decided clauses only).

R1  the document object is never handed to match_selectors as a parent / ancestor
R2  an empty operand of ^= $= *= (and ~=) compiles to an unmatchable pattern
R3  tokenizer <-> parser <-> regex tables agree (token names, dispatch keys, group names, pseudo-class tables)
R4  combinator tables agree between parser and matcher
R5  every IR field is consulted, conjunctively (guard chain of match_selectors; AND-folds of the helpers)
R6  each attribute operator pattern is, as a language over attribute values, the operator's Selectors definition
R7  a comma resets every piece of per-alternative parser state
R8  class splitting and emptiness use exactly the CSS whitespace characters
"""
from __future__ import annotations

import ast
import re
import re._parser as sp

from .. import rx
from ..boolpaths import BoolEnv, norm_atom
from ..constfold import Opaque
from ..core import AnalysisError, Report
from ..pathwalk import Domain, Walker
from ..srcmodel import call_name, unparse, walk_no_nested

WSCH = r'[ \t\n\r\f]'


def op_reference(op: str, lit: str) -> str | None:
    """Reference language (regex source, DOTALL) of attribute operator `op` for the non-empty literal value."""
    v = re.escape(lit)
    has_ws = bool(re.search(r'[ \t\n\r\f]', lit))
    return {
        '=': f'(?s){v}',
        '!': f'(?s){v}',
        '^': f'(?s){v}.*',
        '$': f'(?s).*{v}',
        '*': f'(?s).*{v}.*',
        '|': f'(?s){v}(?:-.*)?',
        '~': '(?s)[^\\s\\S]' if has_ws else f'(?s)(?:.*{WSCH})?{v}(?:{WSCH}.*)?',
    }.get(op)


def run(ctx, report: Report) -> None:
    src, inv = ctx.src, ctx.consts
    report.explanation = (
        'Necessary conditions of soundness/completeness that live in the shape of the code: a taint rule for the '
        'document object, exhaustiveness/agreement of the token, dispatch, group, pseudo-class and combinator tables, '
        'the conjunctive guard chain over every IR field, exact language equality of every attribute-operator pattern '
        'template (per operator, per flags variant, per literal shape, with the semantics of re.match) with the '
        "operator's definition in Selectors, a path rule that a comma resets all per-alternative parser state, and the "
        'CSS whitespace set.')
    report.not_decided = ('sibling/descendant walk correctness over all trees, :root/:empty beyond the node-kind and '
                          'whitespace rules, freezing order of relation chains, Unicode (vs ASCII) case folding of the '
                          'i flag.')
    report.trusted_base = ['re._parser.parse', 'ast']
    mmod = src.mod('css_match')
    pmod = src.mod('css_parser')

    # ---- R1 --------------------------------------------------------------------------------------------
    r1 = report.rule('C01-R1', 'the document object is never matched as a parent/ancestor element', floor=2)
    n_parent_sites = 0
    for q, fn in mmod.functions.items():
        parents_vars = set()
        for st in walk_no_nested(fn):
            if isinstance(st, ast.Assign) and isinstance(st.value, ast.Call) and call_name(st.value).endswith('get_parent') \
                    and isinstance(st.targets[0], ast.Name):
                parents_vars.add(st.targets[0].id)
        for c in [n for n in walk_no_nested(fn) if isinstance(n, ast.Call)]:
            if not call_name(c).endswith('match_selectors') or not c.args:
                continue
            a0 = c.args[0]
            tainted = (isinstance(a0, ast.Name) and a0.id in parents_vars) or (
                isinstance(a0, ast.Call) and call_name(a0).endswith('get_parent'))
            if not tainted:
                continue
            n_parent_sites += 1
            var = unparse(a0)
            guarded = False
            cur, child = mmod.parents.get(c), c
            while cur is not None and cur is not fn:
                if isinstance(cur, (ast.While, ast.If)) and any(child is x or child in ast.walk(x) for x in cur.body):
                    conj = cur.test.values if isinstance(cur.test, ast.BoolOp) and isinstance(cur.test.op, ast.And) else [cur.test]
                    for t in conj:
                        if norm_atom(t) == (f'self.is_doc({var})', False):
                            guarded = True
                child, cur = cur, mmod.parents.get(cur)
            r1.instance({'site': f'css_match.{q}: {unparse(c)}', 'value_from': 'get_parent', 'guarded_by_not_is_doc': guarded},
                        key=f'{q}|{unparse(c)}|{c.lineno - fn.lineno}')
            r1.obligation(guarded)
            if not guarded:
                r1.violation(f'css_match.{q} {unparse(c)} unguarded', mmod.where(c),
                             f'{q}: `{unparse(c)}` evaluates selectors on a value obtained from get_parent() without excluding '
                             f'the BeautifulSoup document object: "* > html" / ":not(p) > html" match the root element')
    if n_parent_sites < 2:
        raise AnalysisError('fewer than two parent -> match_selectors flows found (anchor vanished)')

    # ---- R2 + R6: attribute operator patterns ------------------------------------------------------------
    r2 = report.rule('C01-R2', 'an empty operand of ^= $= *= ~= designates nothing', floor=4)
    r6 = report.rule('C01-R6', 'attribute operator patterns equal the operator definitions (as languages)', floor=30)
    _, pfn = src.func('css_parser.CSSParser.parse_attribute_selector')
    op_var = None
    for st in walk_no_nested(pfn):
        if isinstance(st, ast.Assign) and isinstance(st.targets[0], ast.Name) and "group('cmp')" in unparse(st.value):
            op_var = st.targets[0].id
    if op_var is None:
        raise AnalysisError("parse_attribute_selector: operator variable (m.group('cmp')) not found")
    # branch -> operator character
    branches = {}       # op char -> (If node or 'else', list of compile calls)
    chain = None
    for n in walk_no_nested(pfn):
        if isinstance(n, ast.If) and unparse(n.test) == f'not {op_var}':
            chain = n
    if chain is None:
        raise AnalysisError('parse_attribute_selector: operator if/elif chain not found')
    node = chain
    while True:
        t = node.test
        ch = None
        if isinstance(t, ast.Call) and call_name(t) == f'{op_var}.startswith' and t.args and isinstance(t.args[0], ast.Constant):
            ch = t.args[0].value
        compiles = [c for st in node.body for c in ast.walk(st) if isinstance(c, ast.Call) and call_name(c) == 're.compile']
        if ch:
            branches[ch] = (node, compiles, node.body)
        if len(node.orelse) == 1 and isinstance(node.orelse[0], ast.If):
            node = node.orelse[0]
        else:
            compiles = [c for st in node.orelse for c in ast.walk(st) if isinstance(c, ast.Call) and call_name(c) == 're.compile']
            branches['='] = (node, compiles, node.orelse)
            break
    if set(branches) != {'^', '$', '*', '~', '|', '='}:
        raise AnalysisError(f'parse_attribute_selector: operator branches {sorted(branches)} (expected ^ $ * ~ | =)')
    # flags variants of the function
    from .c07 import flag_variants
    tpl = [r for r in inv.regexes if r.kind == 'template' and r.func == 'CSSParser.parse_attribute_selector']
    if not tpl:
        raise AnalysisError('no attribute pattern templates in the inventory')
    flags_all = sorted(set(flag_variants(ctx, tpl[0])) | {0 | re.DOTALL})
    # `re.compile(pattern.pattern)` (the XML `type` twin) drops the flags argument entirely
    derived = [r for r in inv.regexes if r.kind == 'derived' and r.func == 'CSSParser.parse_attribute_selector']

    def hole_alternatives(call, body):
        """[(selected_when_value_empty: bool|None, piece)] for the `%s` hole of one compile call."""
        a0 = call.args[0]
        if not (isinstance(a0, ast.BinOp) and isinstance(a0.op, ast.Mod)):
            raise AnalysisError(f'{pmod.where(call)}: attribute pattern is not a `%` template')
        fmt = inv.folder.try_ev('css_parser', a0.left, default=None)
        hole = a0.right
        if isinstance(hole, ast.Name):
            defs = [st.value for st in body if isinstance(st, ast.Assign) and isinstance(st.targets[0], ast.Name)
                    and st.targets[0].id == hole.id]
            if len(defs) != 1:
                raise AnalysisError(f'{pmod.where(call)}: hole variable {hole.id} not defined once in the branch')
            hole = defs[0]
        alts = []

        def walk(e, cond_when_empty):
            if isinstance(e, ast.IfExp):
                # which branch is selected when the value is the empty string?
                env = BoolEnv(frozenset({'var:value': False, 'value': False}.items()))
                v = env.ev(e.test)
                walk(e.body, (v is True) if cond_when_empty is not False else False)
                walk(e.orelse, (v is False) if cond_when_empty is not False else False)
                return
            val = inv.folder.try_ev('css_parser', e, default=None)
            if not isinstance(val, (str, Opaque)):
                raise AnalysisError(f'{pmod.where(call)}: hole alternative {unparse(e)} is neither literal text nor re.escape(...)')
            alts.append((cond_when_empty, val))
        walk(hole, None)
        return fmt, alts

    reported = set()
    lits = ['ab', 'a', 'a-b', 'A'] + (['a b', '-', 'a\nb'] if ctx.tier == 'thorough' else ['a b'])
    for ch, (node, compiles, body) in sorted(branches.items()):
        main = [c for c in compiles if isinstance(c.args[0], ast.BinOp)]
        if len(main) != 1:
            raise AnalysisError(f'parse_attribute_selector: branch {ch!r} has {len(main)} template compile calls')
        call = main[0]
        fmt, alts = hole_alternatives(call, body)
        a, b = fmt.split('%s')
        # R2: what is compiled when the value is empty
        if ch in '^$*~':
            sel = [p for w, p in alts if w is True] if any(w is not None for w, _ in alts) else [p for _, p in alts]
            ok = bool(sel) and all(isinstance(p, str) for p in sel)
            witness = None
            if ok:
                for p in sel:
                    for f in flags_all:
                        s = rx.System()
                        A = s.add('r', a + p + b, f)
                        A.prefix_lang = True
                        s.freeze()
                        n, w = A.shortest()
                        if n is not None:
                            ok, witness = False, w
            r2.instance({'operator': ch + '=', 'pattern_when_value_empty': [a + (p if isinstance(p, str) else '<escaped value>') + b for p in sel],
                         'unmatchable': ok, 'witness': witness}, key=ch)
            r2.obligation(ok)
            if not ok:
                how = (f'a pattern that can match (e.g. {witness!r})' if witness is not None else
                       'the same template as for a non-empty value, which then matches every value')
                r2.violation(f'parse_attribute_selector {ch}= empty', pmod.where(call),
                             f'[attr{ch}=""] compiles to {how}: an empty value given to {ch}= must designate nothing')
        # R6: non-empty literal values
        opaque = [p for _, p in alts if isinstance(p, Opaque)]
        if len(opaque) != 1:
            raise AnalysisError(f'parse_attribute_selector: branch {ch!r} has no single re.escape(...) alternative')
        for lit in lits:
            if ch == '~' and re.search(r'[ \t\n\r\f]', lit):
                continue      # handled by the unmatchable alternative (R2)
            for f in flags_all:
                ref = op_reference(ch, lit)
                s = rx.System()
                try:
                    A = s.add('code', a + re.escape(lit) + b, f)
                    A.prefix_lang = True
                    B = s.add('ref', ref, f & re.I)
                    s.freeze()
                    d = rx.equivalent(A, B)
                except rx.Unsupported as e:
                    raise AnalysisError(f'attribute template {ch}=: {e}')
                r6.instance({'operator': ch + '=', 'literal': lit, 'flags': f, 'difference': d}, key=f'{ch}|{lit}|{f}',
                            sample_cap=4)
                r6.obligation(d is None)
                if d is not None and (ch, d[0]) not in reported:
                    reported.add((ch, d[0]))
                    side = 'the pattern matches, the operator does not' if d[0] == 'only-in-first' else 'the operator matches, the pattern does not'
                    r6.violation(f'parse_attribute_selector {ch}= {d[0]}', pmod.where(call),
                                 f'[attr{ch}="{lit}"] compiled with flags={f}: value {d[1]!r} - {side}')
    for r in derived:
        r6.note(f'{r.where}: {unparse(r.node)} recompiles a template without flags (XML type twin): covered by the flags=0|DOTALL variant only if DOTALL is kept')
    # the XML twin must keep DOTALL: it is compiled from pattern.pattern with no flags
    for r in derived:
        c = r.node
        has_flags = len(c.args) > 1 or any(k.arg == 'flags' for k in c.keywords)
        fl = inv.folder.try_ev('css_parser', c.args[1], default=None) if len(c.args) > 1 else None
        ok = has_flags and isinstance(fl, int) and bool(fl & re.DOTALL) and not (fl & re.I)
        r6.instance({'xml_type_twin': unparse(c), 'keeps_DOTALL_drops_IGNORECASE': ok}, key='twin')
        r6.obligation(ok)
        if not ok:
            r6.violation('parse_attribute_selector xml twin flags', pmod.where(c),
                         f'the case-sensitive twin of the type pattern is compiled as `{unparse(c)}`: without re.DOTALL '
                         f'"." stops at a line feed, so [type$="x"] / [type*="x"] miss multi-line values in XML documents')

    # ---- R3 --------------------------------------------------------------------------------------------
    r3 = report.rule('C01-R3', 'tokenizer, dispatch and regex-group tables agree', floor=30)
    _, ps = src.func('css_parser.CSSParser.parse_selectors')
    token_names = [r.name.split(':', 1)[1] for r in inv.regexes if r.kind in ('token', 'special-token')]
    dispatch = {}        # key -> list of handler method names called in that branch
    for n in ast.walk(ps):
        if isinstance(n, ast.If) and isinstance(n.test, ast.Compare) and isinstance(n.test.left, ast.Name) \
                and n.test.left.id == 'key':
            v = inv.folder.try_ev('css_parser', n.test.comparators[0], default=None)
            keys = [v] if isinstance(v, str) else list(v or [])
            handlers = [call_name(c).split('.')[-1] for st in n.body for c in ast.walk(st)
                        if isinstance(c, ast.Call) and call_name(c).startswith('self.parse_')]
            for k in keys:
                dispatch[k] = handlers
    for t in token_names:
        ok = t in dispatch
        r3.instance({'token': t, 'dispatched': ok}, key='tok-' + t)
        r3.obligation(ok)
        if not ok:
            r3.violation(f'token {t} not dispatched', pmod.where(ps),
                         f'token {t!r} is produced by the tokenizer but parse_selectors has no branch for it: that part of '
                         f'the selector is silently dropped')
    for k in dispatch:
        if k not in token_names:
            r3.instance({'dispatch_key': k, 'produced_by_tokenizer': False}, key='key-' + k)
            r3.violation(f'dispatch key {k} never produced', pmod.where(ps),
                         f'parse_selectors dispatches on {k!r} but no token pattern carries that name')
    # groups used by each handler exist in every regex that can carry the key
    groups_of = {r.name.split(':', 1)[1]: set(sp.parse(r.pattern, r.flags).state.groupdict)
                 for r in inv.regexes if r.kind in ('token', 'special-token')}
    for k, handlers in sorted(dispatch.items()):
        if k not in groups_of:
            continue
        for h in handlers:
            hfn = pmod.functions.get(f'CSSParser.{h}')
            if hfn is None:
                continue
            mparam = hfn.args.args[2].arg if len(hfn.args.args) > 2 else 'm'
            used = set()
            for c in ast.walk(hfn):
                if isinstance(c, ast.Call) and isinstance(c.func, ast.Attribute) and c.func.attr == 'group' \
                        and isinstance(c.func.value, ast.Name) and c.func.value.id == mparam and c.args \
                        and isinstance(c.args[0], ast.Constant) and isinstance(c.args[0].value, str):
                    used.add(c.args[0].value)
            missing = sorted(g for g in used if g not in groups_of[k])
            # groups that only exist for a sibling key handled by the same function are read through groupdict/get
            r3.instance({'key': k, 'handler': h, 'groups_read': sorted(used), 'missing_in_regex': missing}, key=f'{k}|{h}')
            r3.obligation(not missing)
            for g in missing:
                # `of` is only defined for pseudo_nth_child; the handler guards it by postfix
                if g == 'of' and k == 'pseudo_nth_type':
                    continue
                r3.violation(f'{k} -> {h} group {g}', pmod.where(hfn),
                             f'{h} reads m.group({g!r}) but the {k} token pattern defines no such group (IndexError at parse time)')
    # pseudo-class tables
    simple = inv.const('css_parser', 'PSEUDO_SIMPLE')
    _, pc = src.func('css_parser.CSSParser.parse_pseudo_class')
    compared = set()
    for n in ast.walk(pc):
        if isinstance(n, ast.Compare) and isinstance(n.left, ast.Name) and n.left.id == 'pseudo':
            v = inv.folder.try_ev('css_parser', n.comparators[0], default=None)
            if isinstance(v, str):
                compared.add(v)
            elif isinstance(v, (tuple, frozenset)) and len(v) < 6:
                compared.update(v)
    for name in sorted(simple):
        ok = name in compared
        r3.instance({'simple_pseudo': name, 'has_branch': ok}, key='ps-' + name)
        r3.obligation(ok)
        if not ok:
            r3.violation(f'PSEUDO_SIMPLE {name} no branch', pmod.where(pc),
                         f'{name} is listed in PSEUDO_SIMPLE but parse_pseudo_class has no branch for it: it is accepted and '
                         f'matches like the universal selector')
    special_names = set()
    for row in getattr(inv, 'special_table', ()):
        special_names.update(row[1])
    special = inv.const('css_parser', 'PSEUDO_SPECIAL')
    contains_names = {n for n in inv.const('css_parser', 'PSEUDO_COMPLEX') if 'contains' in n}
    want = set(special) | contains_names
    r3.instance({'special_table_names': sorted(special_names), 'PSEUDO_SPECIAL+contains': sorted(want)}, key='special')
    r3.obligation(special_names == want)
    if special_names != want:
        r3.violation('special pseudo table', pmod.where(pmod.classes['CSSParser']),
                     f'the special token table covers {sorted(special_names)}, PSEUDO_SPECIAL + contains are {sorted(want)}')
    _, po = src.func('css_parser.CSSParser.parse_pseudo_open')
    complex_names = {n for n in inv.const('css_parser', 'PSEUDO_COMPLEX') if 'contains' not in n}
    r3.instance({'complex_pseudo': sorted(complex_names)}, key='complex', nontrivial=False)

    # ---- R4 --------------------------------------------------------------------------------------------
    r4 = report.rule('C01-R4', 'combinator tables agree between parser and matcher', floor=3)
    comb = inv.by_name('token:combine')
    s = rx.System()
    G = s.add('rel', comb.pattern, comb.flags, group='relation')
    s.freeze()
    chars = set()
    for ai in range(s.nat):
        if G.accepts_at_end(G.step(G.init(), ai)) or G.matched_now(G.step(G.init(), ai)):
            at = s.atoms[ai]
            if at.size() > 8:
                raise AnalysisError('combinator group accepts an open-ended character class')
            for lo, hi in at.iv:
                chars.update(chr(c) for c in range(lo, hi))
    stored = {c.strip() or inv.const('css_parser', 'WS_COMBINATOR') for c in chars}
    comma = inv.const('css_parser', 'COMMA_COMBINATOR')
    stored.discard(comma)
    parser_set = set(stored) | {':' + c for c in stored}
    rel_consts = {k: v for k, v in ((n, inv.folder.try_ev('css_match', ast.Name(id=n, ctx=ast.Load()))) for n in
                                    inv.folder.env_nodes['css_match'] if n.startswith('REL_')) if isinstance(v, str)}
    matcher_set = set(rel_consts.values())
    r4.instance({'parser_can_store': sorted(parser_set), 'matcher_constants': rel_consts}, key='sets')
    r4.obligation(parser_set == matcher_set)
    if parser_set != matcher_set:
        r4.violation('combinator sets differ', comb.where,
                     f'the parser can store rel_type values {sorted(parser_set)}; the matcher knows {sorted(matcher_set)}: '
                     f'{sorted(parser_set ^ matcher_set)} never match')
    for fn_name, prefix in (('match_past_relations', ''), ('match_future_relations', ':')):
        _, f = src.func(f'css_match.CSSMatch.{fn_name}')
        used = {n.comparators[0].id for n in ast.walk(f) if isinstance(n, ast.Compare) and isinstance(n.comparators[0], ast.Name)
                and n.comparators[0].id.startswith('REL_')}
        need = {k for k, v in rel_consts.items() if v.startswith(':') == bool(prefix)}
        r4.instance({'function': fn_name, 'constants_compared': sorted(used), 'expected': sorted(need)}, key=fn_name)
        r4.obligation(used == need)
        if used != need:
            r4.violation(f'css_match.CSSMatch.{fn_name} combinators', mmod.where(f),
                         f'{fn_name} has branches for {sorted(used)}, expected {sorted(need)}')
    _, mr = src.func('css_match.CSSMatch.match_relations')
    ok = any(isinstance(c, ast.Call) and isinstance(c.func, ast.Attribute) and c.func.attr == 'startswith'
             and c.args and inv.folder.try_ev('css_match', c.args[0], default=None) == ':' for c in ast.walk(mr))
    r4.instance({'match_relations': 'routes on the ":" prefix', 'ok': ok}, key='route')
    r4.obligation(ok)
    if not ok:
        r4.violation('css_match.CSSMatch.match_relations routing', mmod.where(mr),
                     'match_relations no longer routes forward (":"-prefixed) combinators to match_future_relations')

    # ---- R5 --------------------------------------------------------------------------------------------
    r5 = report.rule('C01-R5', 'every IR field is consulted, conjunctively', floor=30)
    _, ms = src.func('css_match.CSSMatch.match_selectors')
    loops = [n for n in ast.walk(ms) if isinstance(n, ast.For)]
    if len(loops) != 1:
        raise AnalysisError('match_selectors: expected exactly one loop over the alternatives')
    loop = loops[0]
    alt = loop.target.id
    success = None
    guards = []
    for st in loop.body:
        if isinstance(st, ast.Assign) and unparse(st) == 'match = not is_not':
            success = st
            break
        if isinstance(st, ast.If):
            guards.append(st)
    if success is None:
        raise AnalysisError('match_selectors: success assignment `match = not is_not` not found at loop level')
    after = loop.body[loop.body.index(success) + 1:]
    if not (after and isinstance(after[0], ast.Break)):
        r5.violation('match_selectors no break after success', mmod.where(success),
                     'match_selectors: the success assignment is not followed by `break`: a later alternative can overwrite it')
    fields_read, flags_read = set(), set()
    for g in guards:
        txt = unparse(g.test)
        body_ok = len(g.body) == 1 and isinstance(g.body[0], ast.Continue) and not g.orelse
        # the test must be falsifiable only by a failing check: <precondition> and not <check>  |  not <check> | isinstance(...)
        t = g.test
        conj = t.values if isinstance(t, ast.BoolOp) and isinstance(t.op, ast.And) else [t]
        neg_calls = [c for c in conj if isinstance(c, ast.UnaryOp) and isinstance(c.op, ast.Not)
                     and isinstance(c.operand, ast.Call) and call_name(c.operand).startswith('self.match_')]
        is_null_guard = 'isinstance' in txt and 'SelectorNull' in txt
        shape_ok = body_ok and (is_null_guard or (len(neg_calls) == 1 and not any(
            isinstance(x, ast.BoolOp) and isinstance(x.op, ast.Or) for x in ast.walk(t))))
        for x in ast.walk(t):
            if isinstance(x, ast.Attribute) and isinstance(x.value, ast.Name) and x.value.id == alt:
                fields_read.add(x.attr)
            if isinstance(x, ast.Attribute) and x.attr.startswith('SEL_'):
                flags_read.add(x.attr)
            if isinstance(x, ast.Name) and x.id in ('RANGES', 'DIR_FLAGS'):
                v = inv.folder.env_nodes['css_match'].get(x.id)
                flags_read.update(a.attr for a in ast.walk(v) if isinstance(a, ast.Attribute))
        r5.instance({'guard': txt[:90], 'conjunctive_continue_shape': shape_ok}, key=txt)
        r5.obligation(shape_ok)
        if not shape_ok:
            r5.violation(f'match_selectors guard {txt[:60]}', mmod.where(g),
                         f'match_selectors: guard `if {txt[:80]}` is not of the form `if [<precondition> and] not '
                         f'self.match_X(...): continue` - a failed check no longer rejects the alternative (or ends the list)')
    for st in loop.body:
        for x in ast.walk(st):
            if isinstance(x, (ast.Return,)) or (isinstance(x, ast.Break) and st is not after[0] if after else False):
                r5.violation('match_selectors early exit in loop', mmod.where(x),
                             'match_selectors: return/break inside the alternative loop before the success assignment')
    slots = [e for e in inv.folder.ev('css_types', [st.value for st in src.cls('css_types.Selector')[1].body
                                                    if isinstance(st, ast.Assign) and unparse(st.targets[0]) == '__slots__'][0])
             if e != '_hash']
    for f in slots:
        ok = f in fields_read or f == 'rel_type'
        r5.instance({'Selector_field': f, 'read_in_guard_chain': ok}, key='f-' + f)
        r5.obligation(ok)
        if not ok:
            r5.violation(f'match_selectors field {f}', mmod.where(ms),
                         f'match_selectors never consults Selector.{f}: that part of every compound selector is ignored')
    # rel_type is consulted by the relation matchers
    rt = any(isinstance(x, ast.Attribute) and x.attr == 'rel_type' for x in ast.walk(mr))
    if not rt:
        r5.violation('match_relations rel_type', mmod.where(mr), 'match_relations no longer reads rel_type')
    sel_flags = [n for n in inv.folder.env_nodes['css_types'] if n.startswith('SEL_')]
    for f in sel_flags:
        ok = f in flags_read
        r5.instance({'flag': f, 'tested_in_guard_chain': ok}, key='fl-' + f)
        r5.obligation(ok)
        if not ok:
            r5.violation(f'match_selectors flag {f}', mmod.where(ms),
                         f'match_selectors never tests ct.{f}: the pseudo-class that sets it has no effect')
    # AND-folds: result variable starts True and is only ever lowered to False
    for fname in ('match_subselectors', 'match_attributes', 'match_id', 'match_classes', 'match_contains', 'match_tag'):
        _, f = src.func(f'css_match.CSSMatch.{fname}')
        rets = [n for n in ast.walk(f) if isinstance(n, ast.Return) and isinstance(n.value, ast.Name)]
        if len(rets) != 1:
            raise AnalysisError(f'{fname}: expected a single `return <name>`')
        rv = rets[0].value.id
        assigns = [st for st in ast.walk(f) if isinstance(st, ast.Assign) and any(
            isinstance(t, ast.Name) and t.id == rv for t in st.targets)]
        vals = [inv.folder.try_ev('css_match', a.value, default='?') for a in assigns]
        ok = bool(vals) and vals[0] is True and all(v is False for v in vals[1:])
        r5.instance({'helper': fname, 'result_var': rv, 'assignments': [unparse(a.value) for a in assigns], 'and_fold': ok}, key=fname)
        r5.obligation(ok)
        if not ok:
            r5.violation(f'css_match.CSSMatch.{fname} and-fold', mmod.where(f),
                         f'{fname}: `{rv}` is not an AND-fold (initialised True, only ever set to False): one failing item no '
                         f'longer makes the whole check fail')

    r7 = report.rule('C01-R7', 'a comma resets every piece of per-alternative parser state', floor=2)
    comma_reset_rule(ctx, r7)

    # ---- R8 --------------------------------------------------------------------------------------------
    r8 = report.rule('C01-R8', 'class splitting and emptiness use the CSS whitespace set', floor=3)
    for name, ref in (('RE_NOT_WS', '[^ \\t\\n\\r\\f]+'), ('RE_NOT_EMPTY', '[^ \\t\\n\\r\\f]')):
        r = inv.find(f'css_match.{name}')
        d = 'missing'
        if r is not None:
            s = rx.System()
            A = s.add('a', r.pattern, r.flags)
            B = s.add('b', ref, 0)
            s.freeze()
            d = rx.equivalent(A, B)
        r8.instance({'regex': name, 'reference': ref, 'difference': d}, key=name)
        r8.obligation(d is None)
        if d is not None:
            r8.violation(f'css_match.{name} whitespace', r.where if r else 'soupsieve/css_match.py',
                         f'{name} is {"missing" if r is None else "not the complement of CSS whitespace"} ({d}): class '
                         f'lists / emptiness are decided with a different whitespace set than CSS (space, tab, LF, CR, FF)')
    _, gc = src.func('css_match._DocumentNav.get_classes')
    ok = any(isinstance(c, ast.Call) and unparse(c.func) == 'RE_NOT_WS.findall' for c in ast.walk(gc))
    bad = [c for c in ast.walk(gc) if isinstance(c, ast.Call) and isinstance(c.func, ast.Attribute)
           and c.func.attr in ('split', 'strip') and not c.args]
    r8.instance({'get_classes': 'splits a string value with RE_NOT_WS.findall', 'ok': ok and not bad}, key='get_classes')
    r8.obligation(ok and not bad)
    if not ok or bad:
        r8.violation('css_match._DocumentNav.get_classes split', mmod.where(gc),
                     'get_classes does not split a string-valued class attribute with the CSS-whitespace regex (str.split() '
                     'also splits on NBSP, U+2003, VT ...): ".a" and [class~=a] disagree')


def comma_reset_rule(ctx, r7):
    """On every path taken for a comma the per-alternative parser state is reset (shared with C05)."""
    src, inv = ctx.src, ctx.consts
    pmod = src.mod('css_parser')
    _, ps = src.func('css_parser.CSSParser.parse_selectors')
    # ---- R7 --------------------------------------------------------------------------------------------
    comma_name = 'COMMA_COMBINATOR'
    default_rel = None
    for st in walk_no_nested(ps):
        if isinstance(st, ast.Assign) and isinstance(st.targets[0], ast.Name) and st.targets[0].id == 'rel_type':
            default_rel = unparse(st.value)
    if default_rel is None:
        raise AnalysisError('parse_selectors: initial rel_type not found')

    class Ev(Domain):
        """state = (facts frozenset, events frozenset)."""
        def is_state(self, x):
            return isinstance(x, tuple) and len(x) == 2 and isinstance(x[0], frozenset)

        def branch(self, state, test):
            facts, ev = state
            v = BoolEnv(facts).ev(test)
            from ..boolpaths import BoolDomain
            bd = BoolDomain()
            a = (bd._learn(facts, test, True), ev) if v is not False else None
            b = (bd._learn(facts, test, False), ev) if v is not True else None
            return a, b

        def stmt(self, state, node):
            facts, ev = state
            txt = unparse(node)
            if isinstance(node, ast.Delete) and txt.replace(' ', '') in ('delrelations[:]',):
                ev = ev | {'relations cleared'}
            if isinstance(node, ast.Expr) and isinstance(node.value, ast.Call) and call_name(node.value) == 'selectors.append':
                ev = ev | {'alternative appended'}
            if isinstance(node, ast.Expr) and isinstance(node.value, ast.Call) and call_name(node.value).endswith('relations.append'):
                ev = ev | {'relation appended'}
            if isinstance(node, ast.Assign) and isinstance(node.targets[0], ast.Name):
                nm = node.targets[0].id
                if nm == 'rel_type':
                    ev = (ev - {e for e in ev if e.startswith('rel_type=')}) | {'rel_type=' + unparse(node.value)}
                if nm == 'sel' and isinstance(node.value, ast.Call) and call_name(node.value) == '_Selector':
                    ev = ev | {'fresh sel'}
                if nm == 'has_selector':
                    ev = (ev - {e for e in ev if e.startswith('has_selector=')}) | {'has_selector=' + unparse(node.value)}
            return (facts, ev)

        def on_return(self, state, node):
            return ('ret', state[1])

        def on_raise(self, state, node):
            return ('raise', state[1])
    for fname, need in (('parse_combinator', {'relations cleared', 'alternative appended', 'fresh sel', 'has_selector=False'}),
                        ('parse_has_combinator', {'alternative appended', 'fresh sel', 'has_selector=False',
                                                  'rel_type=' + default_rel})):
        _, f = src.func(f'css_parser.CSSParser.{fname}')
        atom = norm_atom(ast.parse(f'combinator == {comma_name}', mode='eval').body)[0]
        w = Walker(Ev())
        out = w.block(f.body, {(frozenset({atom: True}.items()), frozenset())})
        rets = [s for s in out.ret]
        missing_all = set()
        for tag, ev in rets:
            miss = need - ev
            missing_all |= miss
        r7.instance({'function': fname, 'comma_paths_to_return': len(rets), 'required_resets': sorted(need),
                     'missing_on_some_path': sorted(missing_all)}, key=fname)
        r7.obligation(bool(rets) and not missing_all)
        if not rets:
            raise AnalysisError(f'{fname}: no path returns when the combinator is a comma')
        for m_ in sorted(missing_all):
            r7.violation(f'css_parser.CSSParser.{fname} comma {m_}', pmod.where(f),
                         f'{fname}: on some path taken for a comma the per-alternative state is not reset ({m_} missing): the '
                         f'next alternative of the list inherits combinators / relation chains of the previous one')

