"""C02 - positional pseudo-classes implement An+B exactly (decided clauses only).

R1  the range beliefs about the candidate index in match_nth agree (all lower bounds equal, all upper bounds equal)
R2  NTH (token grammar) and RE_NTH (splitter) accept the same strings
R3  keyword forms are the named An+B instances; even/odd constants; functional names -> (of_type, last)
R4  -of-type sibling equality is a conjunction of name equality and namespace equality; every SelectorNth field is read
"""
from __future__ import annotations

import ast

from .. import boolpaths, rx
from ..core import AnalysisError, Report
from ..srcmodel import call_name, unparse, walk_no_nested


# ---- linear forms -----------------------------------------------------------------------------------------------
class Lin:
    def __init__(self, const=0, terms=None):
        self.const = const
        self.terms = {k: v for k, v in (terms or {}).items() if v}

    def __add__(self, o):
        t = dict(self.terms)
        for k, v in o.terms.items():
            t[k] = t.get(k, 0) + v
        return Lin(self.const + o.const, t)

    def scale(self, k):
        return Lin(self.const * k, {a: v * k for a, v in self.terms.items()})

    def key(self):
        return (self.const, tuple(sorted(self.terms.items())))

    def __repr__(self):
        parts = [f'{"" if v == 1 else v}{k}' if v != -1 else f'-{k}' for k, v in sorted(self.terms.items())]
        if self.const or not parts:
            parts.append(str(self.const))
        return ' + '.join(parts).replace('+ -', '- ')

    def is_const(self):
        return not self.terms


def single_defs(fn: ast.FunctionDef) -> dict[str, ast.AST]:
    """Locals assigned exactly once in the function (candidates for substitution)."""
    count, val = {}, {}
    for n in walk_no_nested(fn):
        if isinstance(n, ast.Assign):
            for t in n.targets:
                for nm in ast.walk(t):
                    if isinstance(nm, ast.Name):
                        count[nm.id] = count.get(nm.id, 0) + 1
                        if isinstance(t, ast.Name):
                            val[nm.id] = n.value
        elif isinstance(n, (ast.AugAssign, ast.AnnAssign)):
            for nm in ast.walk(n.target):
                if isinstance(nm, ast.Name):
                    count[nm.id] = count.get(nm.id, 0) + 2
        elif isinstance(n, ast.For):
            for nm in ast.walk(n.target):
                if isinstance(nm, ast.Name):
                    count[nm.id] = count.get(nm.id, 0) + 2
    return {k: v for k, v in val.items() if count.get(k) == 1}


def lin(e: ast.AST, defs: dict[str, ast.AST], depth=0) -> Lin | None:
    if depth > 8:
        return None
    if isinstance(e, ast.Constant) and isinstance(e.value, int) and not isinstance(e.value, bool):
        return Lin(e.value)
    if isinstance(e, ast.Name):
        if e.id in defs:
            r = lin(defs[e.id], defs, depth + 1)
            if r is not None:
                return r
        return Lin(0, {e.id: 1})
    if isinstance(e, ast.BinOp) and isinstance(e.op, (ast.Add, ast.Sub)):
        a, b = lin(e.left, defs, depth + 1), lin(e.right, defs, depth + 1)
        if a is None or b is None:
            return None
        return a + (b if isinstance(e.op, ast.Add) else b.scale(-1))
    if isinstance(e, ast.UnaryOp) and isinstance(e.op, ast.USub):
        a = lin(e.operand, defs, depth + 1)
        return a.scale(-1) if a else None
    if isinstance(e, ast.Call) and isinstance(e.func, ast.Name) and e.func.id == 'len' and len(e.args) == 1:
        return Lin(0, {f'len({unparse(e.args[0])})': 1})
    return None


def comparisons_on(test: ast.AST, var: str):
    """Yield (op, other_expr, var_on_left) for each comparison link in `test` that has `var` on one side."""
    for c in ast.walk(test):
        if isinstance(c, ast.Compare):
            items = [c.left] + c.comparators
            for left, op, right in zip(items, c.ops, items[1:]):
                if isinstance(left, ast.Name) and left.id == var:
                    yield op, right, True
                elif isinstance(right, ast.Name) and right.id == var:
                    yield op, left, False


FLIP = {ast.Lt: ast.Gt, ast.Gt: ast.Lt, ast.LtE: ast.GtE, ast.GtE: ast.LtE}


def bound_of(op, other: Lin, var_left: bool):
    """Classify a comparison as a belief about the first (lo) or last (hi) in-range value of the index."""
    t = type(op)
    if t not in FLIP:
        return None
    if not var_left:
        t = FLIP[t]
    upper = not other.is_const()          # bounds derived from the sibling count are upper bounds
    if upper:
        if t is ast.Gt or t is ast.LtE:     # idx > e (out) / idx <= e (in)  -> last in-range value e
            return 'hi', other
        return 'hi', other + Lin(-1)        # idx >= e (out) / idx < e (in)  -> last in-range value e - 1
    if t is ast.Lt or t is ast.GtE:         # idx < e (out) / idx >= e (in)  -> first in-range value e
        return 'lo', other
    return 'lo', other + Lin(1)             # idx <= e (out) / idx > e (in)  -> first in-range value e + 1


def run(ctx, report: Report) -> None:
    src, inv = ctx.src, ctx.consts
    report.explanation = (
        'Necessary conditions of the An+B property that are visible in the shape of the code: (R1) internal '
        'consistency of the interval beliefs about the candidate index in match_nth (normalised to linear forms over '
        'len(parent)); (R2) language equivalence of the token grammar NTH and the splitter RE_NTH; (R3) the keyword '
        'pseudo-classes build exactly the records of the corresponding An+B instances; (R4) the -of-type sibling '
        'predicate compares name AND namespace and every SelectorNth field is consulted by the matcher.')
    report.not_decided = ('the arithmetic itself (existence of n >= 0 with A*n+B = position for all A, B and sibling '
                          'sequences), the counting loop and the "of S" filtering: statements about integers computed '
                          'in nested loops, out of reach without a loop-invariant proof.')
    report.trusted_base = ['re._parser.parse', 'ast']

    # ---- R1 ---------------------------------------------------------------------------------------------------
    r1 = report.rule('C02-R1', 'interval beliefs about the nth candidate index agree', floor=1)
    mod, fn0 = src.func('css_match.CSSMatch.match_nth')
    # the index search lives in match_nth or in helper functions it calls: every function of css_match that compares one
    # variable with a bound in two or more while-loop tests is examined on its own
    cg = ctx.get('callgraph', lambda: __import__('sa.callgraph', fromlist=['CallGraph']).CallGraph(ctx.types, src))
    fns = []
    for q in sorted(cg.reachable(['css_match.CSSMatch.match_nth'])):
        if q.startswith('css_match.') and '<' not in q:
            try:
                fns.append((q, src.func(q)[1]))
            except Exception:  # noqa: BLE001
                pass
    examined = 0
    for q, fn in fns:
        whiles = [n for n in ast.walk(fn) if isinstance(n, ast.While)]
        cand = {}
        for w in whiles:
            for nm in {n.id for n in ast.walk(w.test) if isinstance(n, ast.Name)}:
                if any(True for _ in comparisons_on(w.test, nm)):
                    cand[nm] = cand.get(nm, 0) + 1
        if not cand or max(cand.values()) < 2:
            continue
        idx = max(cand, key=lambda k: cand[k])
        params = {a_.arg for a_ in fn.args.args}
        defs = single_defs(fn)
        defs.pop(idx, None)
        beliefs = {'lo': {}, 'hi': {}}
        for node in ast.walk(fn):
            test = None
            if isinstance(node, (ast.While, ast.If)):
                test = node.test
            elif isinstance(node, ast.IfExp):
                test = node.test
            if test is None:
                continue
            for op, other, left in comparisons_on(test, idx):
                if isinstance(op, (ast.Eq, ast.NotEq, ast.Is, ast.IsNot)):
                    continue
                lf = lin(other, defs)
                if lf is None:
                    continue
                if not lf.is_const() and not all(k.startswith('len(') or k in params for k in lf.terms):
                    # comparison with another run-time quantity (e.g. a previous index): not a range belief
                    continue
                b_ = bound_of(op, lf, left)
                if b_ is None:
                    continue
                kind, val = b_
                beliefs[kind].setdefault(val.key(), []).append((repr(val), unparse(test), mod.where(node)))
                r1.instance({'function': q, 'where': mod.where(node), 'test': unparse(test), 'belief': f'{kind} = {val!r}'},
                            key=f'{q}|{kind}|{unparse(test)}|{val!r}')
        examined += 1
        for kind in ('lo', 'hi'):
            r1.obligation(len(beliefs[kind]) <= 1)
            if len(beliefs[kind]) > 1:
                groups = sorted(beliefs[kind].values(), key=lambda g: -len(g))
                major = groups[0][0][0]
                for g in groups[1:]:
                    for val, test, where in g:
                        r1.violation(
                            f'{q} {kind} {test}', where,
                            f'{q.split(".")[-1]}: `{test}` treats the {"first" if kind == "lo" else "last"} in-range value of '
                            f'{idx} as {val}, other tests as {major}; positions equal to the disputed bound are mishandled')
    if not examined:
        r1.note('no function reachable from match_nth compares an index with its bounds in two loop tests: the consistency rule has '
                'nothing to compare on this tree; the bounded An+B table below is the deciding part')

    # ---- R2 ---------------------------------------------------------------------------------------------------
    r2 = report.rule('C02-R2', 'NTH (token grammar) and RE_NTH (splitter) are the same language', floor=1)
    nth = inv.const('css_parser', 'NTH')
    re_nth = inv.by_name('css_parser.RE_NTH')
    tok_flags = inv.by_name('token:pseudo_nth_child').flags
    s = rx.System()
    try:
        A = s.add('NTH', nth, tok_flags)
        B = s.add('RE_NTH', re_nth.pattern, re_nth.flags)
        s.freeze()
        diff = rx.equivalent(A, B)
    except rx.Unsupported as e:
        raise AnalysisError(f'NTH/RE_NTH outside the exact regex model: {e}')
    r2.instance({'NTH': nth, 'RE_NTH': re_nth.pattern, 'difference': diff}, key='nth-equiv')
    r2.obligation(diff is None)
    if diff is not None:
        side, w = diff
        r2.violation(f'NTH~RE_NTH {side} {w!r}', re_nth.where,
                     f'NTH and RE_NTH disagree on {w!r} ({"token accepts, splitter does not" if side == "only-in-first" else "splitter accepts, token does not"}): '
                     f'the splitter then reads a prefix and silently drops the rest, or yields None')
    # the groups s1/a/s2/b used by parse_pseudo_nth exist in RE_NTH; token patterns use NTH|even|odd
    pmod, pfn = src.func('css_parser.CSSParser.parse_pseudo_nth')
    used = set()
    for c in ast.walk(pfn):
        if isinstance(c, ast.Call) and isinstance(c.func, ast.Attribute) and c.func.attr == 'group' and c.args \
                and isinstance(c.args[0], ast.Constant) and isinstance(c.func.value, ast.Name) \
                and c.func.value.id == 'nth_parts':
            used.add(c.args[0].value)
    import re._parser as sp
    groups = set(sp.parse(re_nth.pattern, re_nth.flags).state.groupdict)
    r2.instance({'groups_used': sorted(used), 'groups_defined': sorted(groups)}, key='nth-groups')
    for g in sorted(used - groups):
        r2.violation(f'RE_NTH group {g}', pmod.where(pfn), f'parse_pseudo_nth reads group {g!r} that RE_NTH does not define')
    # each nth token group is exactly NTH|even|odd
    for tok, grp in (('token:pseudo_nth_child', 'nth_child'), ('token:pseudo_nth_type', 'nth_type')):
        t = inv.by_name(tok)
        s = rx.System()
        G = s.add('g', t.pattern, t.flags, group=grp)
        R = s.add('ref', f'(?:{re_nth.pattern}|even|odd)', re_nth.flags)
        s.freeze()
        d = rx.equivalent(G, R)
        r2.instance({'token_group': f'{tok}:{grp}', 'reference': 'RE_NTH|even|odd', 'difference': d}, key=tok)
        r2.obligation(d is None)
        if d is not None:
            r2.violation(f'{tok}:{grp} {d[0]} {d[1]!r}', t.where,
                         f'group {grp} of {tok} and (RE_NTH|even|odd) disagree on {d[1]!r}')

    # ---- R3 (tables by partial evaluation of parse_pseudo_nth / parse_pseudo_class) ------------------------
    r3 = report.rule('C02-R3', 'every An+B spelling and keyword form builds the record of the An+B it denotes', floor=19)
    from .sem import nth_table
    from ..interp import Obj, Raised, call_function
    from ..miniev import Unsupported
    from ..tables import fresh_sel, match_obj, parser_obj
    nth_table(ctx, r3)
    pmod, pfn = src.func('css_parser.CSSParser.parse_pseudo_nth')
    kw = {':first-child': [(1, False, 0, False, False)], ':last-child': [(1, False, 0, False, True)],
          ':first-of-type': [(1, False, 0, True, False)], ':last-of-type': [(1, False, 0, True, True)],
          ':only-child': [(1, False, 0, False, False), (1, False, 0, False, True)],
          ':only-of-type': [(1, False, 0, True, False), (1, False, 0, True, True)]}
    for name, exp in kw.items():
        for spelled in (name, name.upper()):
            rec = []

            def rec_nth(a_, n_, b_, ot, la, sel_, _r=rec):
                _r.append((a_, n_, b_, ot, la))
                return Obj(_name='SelectorNth')
            sel = fresh_sel()
            m = match_obj({'name': spelled, 'open': None})
            try:
                call_function(ctx, 'css_parser.CSSParser.parse_pseudo_class', [sel, m, False, iter(()), False], {},
                              {'ct.SelectorNth': rec_nth}, parser_obj())
            except Raised as e:
                rec.append(f'raises {e.exc_name}')
            except Unsupported as e:
                raise AnalysisError(f'parse_pseudo_class: outside the evaluable fragment: {e}')
            ok = sorted(map(repr, rec)) == sorted(map(repr, exp))
            r3.instance({'pseudo_class': spelled, 'records': rec, 'expected': exp}, key=spelled, sample_cap=3)
            r3.obligation(ok)
            if not ok:
                r3.violation(f'parse_pseudo_class {name}', 'soupsieve/css_parser.py (parse_pseudo_class)',
                             f'{spelled} builds nth records {rec}; the An+B instance it names is {exp} (a, n, b, of_type, last)')

    # ---- R4 ---------------------------------------------------------------------------------------------------
    r4 = report.rule('C02-R4', '-of-type equality = name AND namespace; every SelectorNth field is read', floor=28)
    from .sem import same_type_table
    same_type_table(ctx, r4)
    # the siblings that are counted are the children of the real parent, whatever the document kind
    from .sem import iframe_policy
    from ..interp import Obj as _Obj
    from ..tables import el_obj
    from ..tables import build_tree as _bt
    _doc, _order, _lab = _bt([('html', {}, [('iframe', {}, [('a', {}, []), ('b', {'_label': 'e'}, []), ('c', {}, [])])])])
    iframe_policy(ctx, r4, 'css_match.CSSMatch.match_nth',
                  lambda: [_lab['e'], (_Obj(_name='SelectorNth', a=2, n=True, b=1, of_type=False, last=False,
                                              selectors=_Obj(_name='SelectorList', __bool__=False, __len__=0, __iter__=[])),)],
                  lambda html, restrict: False,
                  'An+B counts the element among ALL element children of its parent (an iframe element is an ordinary parent)', required=False)
    # plain :nth-child(An+B) counts every element sibling: its implicit "of S" is the namespace-wildcard universal selector
    from .sem import selector_constants
    dflt = selector_constants(ctx).get('CSS_NTH_OF_S_DEFAULT', {}).get('text')
    if not isinstance(dflt, str):
        raise AnalysisError('CSS_NTH_OF_S_DEFAULT: selector text not found (anchor vanished)')
    import re as _re
    norm = _re.sub(r'/\*.*?\*/|\s+', '', dflt, flags=_re.S)
    r4.instance({'CSS_NTH_OF_S_DEFAULT': dflt, 'is_namespace_wildcard_universal': norm == '*|*'}, key='of-s-default')
    r4.obligation(norm == '*|*')
    if norm != '*|*':
        r4.violation('css_parser.CSS_NTH_OF_S_DEFAULT', 'soupsieve/css_parser.py (CSS_NTH_OF_S_DEFAULT)',
                     f'the implicit "of S" of :nth-child()/:nth-last-child() is `{dflt}`; it must be `*|*`: anything else filters the '
                     f'siblings that are counted (`*` alone is subject to the default namespace of the caller\'s map)')
    # every field of a SelectorNth record (a, n, b, of_type, last, selectors) is varied by the bounded table of R1: a field that
    # match_nth ignored would show there as a wrong row
    from .sem import children_table
    children_table(ctx, r4)

    from .sem import nth_bounded_table
    nth_bounded_table(ctx, r1)

    # ---- R5 (the whole pipeline by interpretation, bounded) --------------------------------------------------------------
    r5 = report.rule('C02-R5', 'An+B through the whole pipeline equals the formula (bounded)', floor=1)
    from .e2ematch import nth_formula_table
    nth_formula_table(ctx, r5)

    # the An+B pseudo-classes under every spelling of their names and keywords
    from .e2etab import equivalent_spellings_table
    equivalent_spellings_table(ctx, r5, only=('nth', 'even', 'odd'))




