"""C16 - importing works in either order and Beautiful Soup can always select.

R1  no import-time code of the package dereferences a bs4 name that is not yet bound when bs4 imports soupsieve
R2  the intra-package module-level import graph is acyclic
R3  importing has no visible effect (no print / warning reachable at import time)
"""
from __future__ import annotations

import ast

from ..bs4facts import Bs4Facts
from ..callgraph import CallGraph
from ..core import AnalysisError, Report
from ..srcmodel import call_name, unparse


def import_time_nodes(mod, future_ann: bool):
    """AST nodes evaluated while the module body runs: everything except the bodies of functions (their decorators,
    defaults and - without `from __future__ import annotations` - annotations are evaluated)."""
    out = []

    def fn_header(fn):
        out.extend(fn.decorator_list)
        out.extend(d for d in fn.args.defaults if d is not None)
        out.extend(d for d in fn.args.kw_defaults if d is not None)
        if not future_ann:
            for a in fn.args.args + fn.args.kwonlyargs + fn.args.posonlyargs:
                if a.annotation is not None:
                    out.append(a.annotation)
            if fn.returns is not None:
                out.append(fn.returns)

    def block(body):
        for st in body:
            if isinstance(st, (ast.FunctionDef, ast.AsyncFunctionDef)):
                fn_header(st)
            elif isinstance(st, ast.ClassDef):
                out.extend(st.bases)
                out.extend(k.value for k in st.keywords)
                out.extend(st.decorator_list)
                block(st.body)
            elif isinstance(st, ast.AnnAssign):
                if st.value is not None:
                    out.append(st.value)
                if not future_ann:
                    out.append(st.annotation)
            elif isinstance(st, (ast.If, ast.Try, ast.With, ast.For, ast.While)):
                for fld in ('test', 'iter', 'items'):
                    v = getattr(st, fld, None)
                    if isinstance(v, ast.AST):
                        out.append(v)
                    elif isinstance(v, list):
                        out.extend(i.context_expr for i in v)
                for fld in ('body', 'orelse', 'finalbody'):
                    block(getattr(st, fld, []) or [])
                for h in getattr(st, 'handlers', []) or []:
                    block(h.body)
            else:
                out.append(st)
    block(mod.tree.body)
    return out


def function_body_nodes(fn, future_ann: bool):
    out = []
    for st in fn.body:
        out.append(st)
    return out


def run(ctx, report: Report) -> None:
    src = ctx.src
    report.explanation = (
        'The installed bs4 sources are parsed (never imported) to compute which names of bs4 and of its submodules '
        'are already bound at the moment bs4 imports soupsieve (bs4/__init__ -> bs4.builder -> bs4.element -> '
        'bs4.css -> soupsieve). Import-time code of soupsieve = module- and class-level statements, base lists, '
        'decorators, defaults, plus every function reachable from them in the type-resolved call graph. None of it '
        'may evaluate bs4.<name> or `from bs4... import name` for a name outside that safe set; annotations are '
        'exempt when the module has `from __future__ import annotations`. R3 checks that the same code reaches no '
        'print/warn outside debug guards.')
    report.not_decided = 'equality of select() results between import orders (follows from R1 only informally).'
    report.trusted_base = ['the installed bs4 sources as the premise (import chain bs4 -> bs4.css -> soupsieve)',
                           'mypy receiver types for the call graph']
    facts = Bs4Facts()
    safe = facts.safe_names_when_soupsieve_loads()
    report.extra['bs4_safe_names'] = {k: (v if v == 'complete' else sorted(v)) for k, v in safe.items()}
    cg = ctx.get('callgraph', lambda: CallGraph(ctx.types, src))
    reach = cg.reachable(cg.import_entries())
    report.analysed['import_reachable_functions'] = len(reach)
    report.analysed['fallback_edges'] = sorted(set(map(str, cg.fallback_edges)))[:20]

    # ---- R1 ----------------------------------------------------------------------------------------------
    r1 = report.rule('C16-R1', 'no import-time dereference of a bs4 name that is not bound yet', floor=1)

    def bs4_aliases(mod):
        """local name -> bs4 module path it denotes ('bs4', 'bs4.element')."""
        out = {}
        for local, a in mod.aliases.items():
            if a[0] == 'module' and not a[2] and (a[1] == 'bs4' or a[1].startswith('bs4.')):
                out[local] = 'bs4' if local == 'bs4' else a[1]
        return out

    def check_nodes(mn, mod, nodes, owner):
        nonlocal r1
        aliases = bs4_aliases(mod)
        n_sites = 0
        for root in nodes:
            for n in ast.walk(root):
                if isinstance(n, ast.ImportFrom) and n.module and (n.module == 'bs4' or n.module.startswith('bs4.')) \
                        and not n.level:
                    s = safe.get(n.module)
                    for a in n.names:
                        ok = s == 'complete' or (isinstance(s, set) and a.name in s) or (
                            facts.path_of(f'{n.module}.{a.name}') is not None)
                        n_sites += 1
                        r1.instance({'owner': owner, 'import': f'from {n.module} import {a.name}', 'safe': ok},
                                    key=f'{owner}|from {n.module} import {a.name}')
                        r1.obligation(ok)
                        if not ok:
                            r1.violation(f'{owner} from {n.module} import {a.name}', mod.where(n),
                                         f'`from {n.module} import {a.name}` runs while {mn} is imported; when bs4 is '
                                         f'imported first, {n.module} is only partially initialised and {a.name} is not '
                                         f'bound yet (ImportError - or a silently different fallback if it is caught)')
                if isinstance(n, ast.Call) and isinstance(n.func, ast.Name) and n.func.id in ('getattr', 'hasattr', 'vars', 'dir') and n.args:
                    # reflective access to the bs4 module object: what it finds depends on how far bs4 has been initialised
                    tgt = n.args[0]
                    chain = unparse(tgt)
                    root_name = chain.split('.')[0]
                    if root_name in aliases and (isinstance(tgt, ast.Name) or facts.path_of(aliases[root_name] + chain[len(root_name):]) is not None):
                        modpath = aliases[root_name] + chain[len(root_name):]
                        nm = ctx.consts.folder.try_ev(mn, n.args[1], default=None) if len(n.args) > 1 else None
                        s_ = safe.get(modpath)
                        ok = isinstance(nm, str) and (s_ == 'complete' or (isinstance(s_, set) and nm in s_))
                        n_sites += 1
                        r1.instance({'owner': owner, 'reflective_access': unparse(n)[:60], 'safe': ok}, key=f'{owner}|{unparse(n)[:60]}')
                        r1.obligation(ok)
                        if not ok:
                            r1.violation(f'{owner} {unparse(n)[:50]}', mod.where(n),
                                         f'`{unparse(n)[:70]}` is evaluated while the package is imported (in {owner}); when bs4 is imported '
                                         f'first, {modpath} is only partially initialised: the lookup fails or - with a default - silently '
                                         f'finds nothing, so the package behaves differently depending on which of the two was imported first')
                if isinstance(n, ast.Attribute) and isinstance(n.ctx, ast.Load):
                    # longest dotted chain rooted at a bs4 alias
                    parts = []
                    x = n
                    while isinstance(x, ast.Attribute):
                        parts.append(x.attr)
                        x = x.value
                    if isinstance(x, ast.Name) and x.id in aliases:
                        par = mod.parents.get(n)
                        if isinstance(par, ast.Attribute) and par.value is n:
                            continue       # inner part of a longer chain
                        parts = parts[::-1]
                        modpath = aliases[x.id]
                        i = 0
                        while i < len(parts) and facts.path_of(f'{modpath}.{parts[i]}') is not None:
                            modpath = f'{modpath}.{parts[i]}'
                            i += 1
                        if i >= len(parts):
                            continue       # a module object, not a name inside it
                        name = parts[i]
                        s = safe.get(modpath)
                        ok = s == 'complete' or (isinstance(s, set) and name in s)
                        n_sites += 1
                        r1.instance({'owner': owner, 'dereference': unparse(n), 'safe': ok}, key=f'{owner}|{unparse(n)}')
                        r1.obligation(ok)
                        if not ok:
                            r1.violation(f'{owner} {unparse(n)}', mod.where(n),
                                         f'`{unparse(n)}` is evaluated while the package is imported (in {owner}); when bs4 is '
                                         f'imported first, {modpath} is only partially initialised and has no attribute '
                                         f'{name} yet: `import bs4` fails with AttributeError')
        return n_sites

    # positive control: the rule must fire on a tiny module that does what the property forbids
    import os
    import tempfile
    from ..core import Rule
    from ..srcmodel import Module
    with tempfile.TemporaryDirectory() as td:
        pth = os.path.join(td, 'ctl.py')
        with open(pth, 'w') as fh:
            fh.write('import bs4\nfrom bs4.element import NavigableString\nclass P(bs4.Tag):\n    pass\n'
                     'X = (bs4.Comment, bs4.element.Tag)\ndef f(a: bs4.Tag = bs4.Doctype): return bs4.CData\n')
        ctl = Module('ctl', pth)
    saved, r1_real = r1, r1
    probe = Rule('control', 'positive control')
    r1 = probe
    check_nodes('ctl', ctl, import_time_nodes(ctl, True), 'ctl.<module>')
    r1 = r1_real
    keys = sorted(f.key for f in probe.findings)
    if len(keys) != 5:
        raise AnalysisError(f'C16-R1 positive control: expected 5 findings on the control module, got {keys}')
    r1.instance({'positive_control': 'module with 5 forbidden import-time dereferences', 'reported': keys}, key='control')

    total_nodes = 0
    for mn, mod in src.mods.items():
        nodes = import_time_nodes(mod, mod.future_annotations)
        total_nodes += len(nodes)
        check_nodes(mn, mod, nodes, f'{mn}.<module>')
        r1.instance({'module': mn, 'import_time_statements': len(nodes),
                     'annotations_deferred': mod.future_annotations}, key=f'{mn}-module', nontrivial=False)
    for q in sorted(reach):
        if q.endswith('>'):
            continue
        mn, _, rest = q.partition('.')
        mod = src.mods.get(mn)
        fn = mod.functions.get(rest) if mod else None
        if fn is None:
            continue
        body_nodes = list(fn.body)
        check_nodes(mn, mod, body_nodes, q)
    report.analysed['import_time_statements'] = total_nodes

    # ---- R2 ----------------------------------------------------------------------------------------------
    r2 = report.rule('C16-R2', 'module-level imports inside the package are acyclic', floor=1)
    graph = {}
    for mn, mod in src.mods.items():
        deps = set()
        for st in mod.tree.body:
            if isinstance(st, ast.ImportFrom) and st.level:
                if st.module is None:
                    deps.update(a.name for a in st.names if a.name in src.mods)
                elif st.module.split('.')[0] in src.mods:
                    deps.add(st.module.split('.')[0])
        graph[mn] = deps
        r2.instance({'module': mn, 'imports': sorted(deps)}, key=mn)
    color = {}

    def dfs(u, stack):
        color[u] = 1
        for v in sorted(graph.get(u, ())):
            if color.get(v) == 1:
                cyc = stack[stack.index(v):] + [v] if v in stack else [u, v]
                r2.violation('import cycle ' + '->'.join(cyc), f'soupsieve/{u}.py', f'module-level import cycle {" -> ".join(cyc)}')
            elif v not in color:
                dfs(v, stack + [v])
        color[u] = 2
    for m in sorted(graph):
        if m not in color:
            dfs(m, [m])

    # ---- R3 ----------------------------------------------------------------------------------------------
    r3 = report.rule('C16-R3', 'importing has no visible effect', floor=3)
    effect_calls = {'print', 'warnings.warn', 'warn', 'warn_deprecated', 'util.warn_deprecated', 'sys.stdout.write',
                    'sys.stderr.write', 'logging.warning', 'logging.info', 'logging.basicConfig', 'logging.error',
                    # process-wide state other programs can observe after `import soupsieve`
                    'warnings.filterwarnings', 'warnings.simplefilter', 'warnings.resetwarnings', 'filterwarnings', 'simplefilter',
                    'sys.setrecursionlimit', 'sys.path.insert', 'sys.path.append', 'os.environ.setdefault', 'os.putenv',
                    'locale.setlocale', 'atexit.register', 'signal.signal', 'sys.setswitchinterval', 'gc.disable', 'gc.enable'}
    from .sem import selector_constants
    import_consts = [v['text'] for v in selector_constants(ctx).values()]
    has_contains = [v for v in import_consts if ':contains(' in v.lower()]

    def guards(mod, node):
        out = []
        cur = mod.parents.get(node)
        child = node
        while cur is not None and not isinstance(cur, (ast.FunctionDef, ast.AsyncFunctionDef)):
            if isinstance(cur, ast.If) and child in cur.body:
                out.append(unparse(cur.test))
            child = cur
            cur = mod.parents.get(cur)
        return out
    for mn, mod in src.mods.items():
        nodes = import_time_nodes(mod, True)
        for root in nodes:
            for c in ast.walk(root):
                if isinstance(c, ast.Call) and call_name(c) in effect_calls:
                    r3.instance({'site': f'{mn} module level', 'call': unparse(c)[:60]}, key=f'{mn}|{unparse(c)[:60]}')
                    r3.violation(f'{mn}.<module> {call_name(c)}', mod.where(c), f'{call_name(c)}() runs when {mn} is imported')
    for q in sorted(reach):
        if q.endswith('>'):
            continue
        mn, _, rest = q.partition('.')
        mod = src.mods.get(mn)
        fn = mod.functions.get(rest) if mod else None
        if fn is None:
            continue
        for c in [n for st in fn.body for n in ast.walk(st) if isinstance(n, ast.Call)]:
            cn = call_name(c)
            if cn not in effect_calls:
                continue
            if mod.enclosing_function(c) != rest:
                continue
            gs = guards(mod, c)
            ok = any('debug' in g for g in gs)
            why = 'under a debug guard (flags default to 0 at import time)'
            if not ok:
                # a helper that prints, all of whose call sites in the package sit under a debug guard
                sites = [x for m2 in src.mods.values() for x in ast.walk(m2.tree) if isinstance(x, ast.Call) and call_name(x).split('.')[-1] == fn.name
                         and x is not c]
                site_mods = {id(x): m2 for m2 in src.mods.values() for x in ast.walk(m2.tree) if isinstance(x, ast.Call)}
                if sites and all(any('debug' in g for g in guards(site_mods[id(x)], x)) for x in sites):
                    ok = True
                    gs = gs + [f'every call of {fn.name}() is under a debug guard']
            if not ok and any("':contains'" in g or '":contains"' in g for g in gs):
                ok = not has_contains
                why = 'only for the deprecated :contains() alias, which no import-time selector constant uses'
            r3.instance({'function': q, 'call': unparse(c)[:50], 'guards': gs, 'silent_at_import': ok}, key=f'{q}|{unparse(c)[:50]}')
            r3.obligation(ok)
            if not ok:
                r3.violation(f'{q} {cn} {gs}', mod.where(c),
                             f'{q} is reachable from import-time code and calls {cn}() outside a debug guard: importing '
                             f'the package can print or warn')
    if len(import_consts) < 10:
        raise AnalysisError('fewer than 10 import-time selector constants found (anchor vanished)')

    # ---- R4 ----------------------------------------------------------------------------------------------
    r4 = report.rule('C16-R4', 'every name exported by __all__ is bound (star-import works)', floor=3)
    for mn, mod in src.mods.items():
        for st in mod.tree.body:
            if not (isinstance(st, (ast.Assign, ast.AnnAssign)) and any(
                    isinstance(t, ast.Name) and t.id == '__all__' for t in (st.targets if isinstance(st, ast.Assign) else [st.target]))):
                continue
            names = ctx.consts.folder.try_ev(mn, st.value, default=None)
            if not isinstance(names, (tuple, list)) or not all(isinstance(x, str) for x in names):
                raise AnalysisError(f'{mn}.__all__ is not a constant sequence of strings')
            bound = set(mod.functions) | set(mod.classes) | set(mod.aliases) | set(ctx.consts.folder.env_nodes.get(mn, {}))
            for x in ast.walk(mod.tree):
                if isinstance(x, ast.Name) and isinstance(x.ctx, ast.Store) and mod.enclosing_function(x) is None:
                    bound.add(x.id)
            for nm in names:
                ok = nm in bound
                r4.instance({'module': mn, 'exported': nm, 'bound_at_module_level': ok}, key=f'{mn}|{nm}', sample_cap=4)
                r4.obligation(ok)
                if not ok:
                    r4.violation(f'{mn}.__all__ exports unbound {nm}', mod.where(st),
                                 f'{mn}.__all__ lists {nm!r}, which the module never binds (adjacent string literals without a comma '
                                 f'concatenate): `from soupsieve import *` raises AttributeError')
            dup = sorted({x for x in names if list(names).count(x) > 1})
            if dup:
                r4.note(f'{mn}.__all__ lists {dup} more than once')


    # ---- R5 ----------------------------------------------------------------------------------------------
    r5 = report.rule('C16-R5', 'the shortcut functions take their positional arguments in the order Beautiful Soup passes them', floor=2)
    bs4_call_order_rule(ctx, r5, facts)

    # ---- R6 ----------------------------------------------------------------------------------------------
    r6 = report.rule('C16-R6', 'import-time code does not operate on docstrings (None under -OO)')
    docstring_rule(ctx, r6, reach)

    # ---- R7 ----------------------------------------------------------------------------------------------
    r7 = report.rule('C16-R7', 'text is never compared with bytes (BytesWarning under -b at import time)')
    str_bytes_rule(ctx, r7)


def bs4_call_order_rule(ctx, rule, facts):
    """Every call `self.api.<function>(...)` in bs4/css.py: each positional argument that is a parameter of the calling bs4 method
    (limit, flags, ...) or the prefix map reaches a parameter of the same name of soupsieve.<function>; keyword arguments name
    parameters that exist.  BeautifulSoup(...).select(s, limit=2) and soupsieve.select(s, soup, limit=2) then mean the same."""
    src = ctx.src
    tree = facts.tree('bs4.css')
    if tree is None:
        raise AnalysisError('bs4/css.py not found (the premise of this rule)')
    imod = src.mod('__init__')
    n = 0
    for fdef in [x for x in ast.walk(tree) if isinstance(x, ast.FunctionDef)]:
        own = {a.arg for a in fdef.args.args + fdef.args.kwonlyargs}
        for call in [c for c in ast.walk(fdef) if isinstance(c, ast.Call)]:
            f = call.func
            if not (isinstance(f, ast.Attribute) and isinstance(f.value, ast.Attribute) and f.value.attr == 'api'
                    and isinstance(f.value.value, ast.Name) and f.value.value.id == 'self'):
                continue
            if f.attr not in imod.functions:
                if f.attr[:1].islower():
                    rule.violation(f'bs4 calls soupsieve.{f.attr}', 'soupsieve/__init__.py', f'bs4.css calls soupsieve.{f.attr}(), which the package does not define')
                continue
            target = imod.functions[f.attr]
            params = [a.arg for a in target.args.posonlyargs + target.args.args]
            kwonly = {a.arg for a in target.args.kwonlyargs}
            for i, a in enumerate(call.args):
                if isinstance(a, ast.Starred):
                    break
                role = None
                if isinstance(a, ast.Name) and a.id in own and a.id in ('limit', 'flags', 'namespaces', 'custom'):
                    role = a.id
                elif isinstance(a, ast.Call) and isinstance(a.func, ast.Attribute) and a.func.attr == '_ns':
                    role = 'namespaces'
                if role is None:
                    continue
                n += 1
                got = params[i] if i < len(params) else None
                rule.instance({'bs4_method': fdef.name, 'calls': f'soupsieve.{f.attr}', 'position': i, 'passes': role, 'parameter_there': got},
                              key=f'{fdef.name}|{f.attr}|{i}')
                rule.obligation(got == role)
                if got != role:
                    rule.violation(f'soupsieve.{f.attr} positional {role}', imod.where(target),
                                   f'bs4.css.{fdef.name}() passes its {role} as positional argument {i} of soupsieve.{f.attr}(), where the parameter is '
                                   f'{got!r}: tag.select(..., {role}=v) through Beautiful Soup and soupsieve.{f.attr}(..., {role}=v) mean different things')
            for k in call.keywords:
                if k.arg is not None and k.arg not in params and k.arg not in kwonly and target.args.kwarg is None:
                    rule.violation(f'soupsieve.{f.attr} keyword {k.arg}', imod.where(target),
                                   f'bs4.css.{fdef.name}() passes {k.arg}= to soupsieve.{f.attr}(), which has no such parameter')
    if n < 5:
        raise AnalysisError(f'only {n} role-carrying positional arguments found in the calls of bs4/css.py (anchor vanished)')


def docstring_rule(ctx, rule, reach):
    """Import-time code never operates on a docstring: under `python -OO` (PYTHONOPTIMIZE=2) every __doc__ is None, so `f.__doc__ +=
    ...`, `__doc__.format(...)`, `cls.__doc__ % ...` at module level raise TypeError / AttributeError and the package cannot be
    imported at all.  Reading a docstring into a value, testing it, or formatting it into an f-string is harmless."""
    src = ctx.src
    n = 0
    for mn, mod in src.mods.items():
        scopes = [(f'{mn} (module level)', [st for st in mod.tree.body if not isinstance(st, (ast.FunctionDef, ast.AsyncFunctionDef))])]
        for q in reach:
            if q.startswith(mn + '.'):
                try:
                    m_, fn = src.func(q)
                except Exception:
                    continue
                if m_ is mod:
                    scopes.append((q, fn.body))
        for where, body in scopes:
            for st in body:
                nodes = ast.walk(st) if not isinstance(st, ast.ClassDef) else ast.walk(ast.Module(body=[x for x in st.body if not isinstance(x, (ast.FunctionDef, ast.AsyncFunctionDef))], type_ignores=[]))
                for x in nodes:
                    is_doc = (isinstance(x, ast.Attribute) and x.attr == '__doc__') or (isinstance(x, ast.Name) and x.id == '__doc__')
                    if not is_doc:
                        continue
                    n += 1
                    par = mod.parents.get(x)
                    risky = None
                    if isinstance(par, ast.AugAssign) and par.target is x:
                        risky = f'`{unparse(par)[:70]}`'
                    elif isinstance(par, ast.BinOp):
                        risky = f'`{unparse(par)[:70]}`'
                    elif isinstance(par, ast.Attribute) and par.value is x:
                        risky = f'`{unparse(par)[:70]}` (a method of the docstring)'
                    elif isinstance(par, ast.Subscript) and par.value is x:
                        risky = f'`{unparse(par)[:70]}`'
                    elif isinstance(par, ast.Call) and any(a is x for a in par.args) and call_name(par) in ('len', 'textwrap.dedent', 'inspect.cleandoc', 'dedent', 'cleandoc'):
                        risky = f'`{unparse(par)[:70]}`'
                    if risky:
                        # a guard `if X.__doc__` / `X.__doc__ is not None` around the statement discharges it
                        cur, guarded = par, False
                        while cur is not None:
                            if isinstance(cur, (ast.If, ast.IfExp)) and '__doc__' in unparse(cur.test):
                                guarded = True
                                break
                            cur = mod.parents.get(cur)
                        rule.instance({'where': where, 'operation': risky, 'guarded': guarded}, key=f'doc|{where}|{risky}')
                        rule.obligation(guarded)
                        if not guarded:
                            rule.violation(f'{where} operates on __doc__', mod.where(x),
                                           f'{where}: {risky} runs while the package is imported; with docstrings stripped (python -OO) __doc__ is None and the '
                                           f'import of soupsieve - and of bs4, which imports it - fails')
    rule.instance({'docstring_reads_at_import_time': n}, key='doc-census', nontrivial=False)


def str_bytes_rule(ctx, rule):
    """No comparison of text with bytes anywhere in the package: `'x' == b'x'`, `text in (.., b'..')`, `text.startswith(b'..')` are
    False / TypeError at best and print a BytesWarning under `python -b` (raise under -bb) - also while the package is imported,
    since the selector tables are compiled at import time.  Decided from the inferred types (mypy) of both sides."""
    src, tf = ctx.src, ctx.types

    def kinds(t):
        """{'str', 'bytes'} found in a type, looking into tuples / unions / containers one level deep."""
        out = set()
        if t is None:
            return out
        text = tf.show(t)
        for x in tf.items(t):
            nm = type(x).__name__
            if nm == 'Instance':
                fn = x.type.fullname
                if fn == 'builtins.str':
                    out.add('str')
                elif fn in ('builtins.bytes', 'builtins.bytearray'):
                    out.add('bytes')
                for a in getattr(x, 'args', ()) or ():
                    out |= kinds(a)
            elif nm == 'TupleType':
                for a in x.items:
                    out |= kinds(a)
            elif nm == 'LiteralType':
                out |= kinds(x.fallback)
        return out
    n = 0
    for mn, mod in src.mods.items():
        for x in ast.walk(mod.tree):
            pairs = []
            if isinstance(x, ast.Compare) and len(x.ops) == 1 and isinstance(x.ops[0], (ast.Eq, ast.NotEq, ast.In, ast.NotIn)):
                pairs.append((x.left, x.comparators[0], unparse(x)))
            elif isinstance(x, ast.Call) and isinstance(x.func, ast.Attribute) and x.func.attr in ('startswith', 'endswith', 'find', 'index', 'count', 'replace', 'split') and x.args:
                pairs.append((x.func.value, x.args[0], unparse(x)))
            for a, b, text in pairs:
                ka, kb = kinds(tf.type_of(mn, a)), kinds(tf.type_of(mn, b))
                if not ka or not kb:
                    continue
                n += 1
                mixed = (ka == {'str'} and 'bytes' in kb) or (ka == {'bytes'} and 'str' in kb)
                if mixed:
                    rule.instance({'where': mod.where(x), 'expression': text[:70], 'left': sorted(ka), 'right': sorted(kb)}, key=f'strbytes|{mod.where(x)}')
                    rule.obligation(False)
                    rule.violation(f'{mn} compares text with bytes: {text[:50]}', mod.where(x),
                                   f'`{text[:80]}` compares a {sorted(ka)[0]} value with {sorted(kb)}: never equal, and a BytesWarning under `python -b` '
                                   f'(an exception under -bb) - the selector tables of the package are compiled at import time, so importing soupsieve (and bs4) '
                                   f'prints warnings / fails')
    rule.instance({'comparisons_with_inferred_string_types': n}, key='strbytes-census', nontrivial=False)
