"""C06 - compile() accepts or rejects every string with a documented error only (exception-escape analysis).

R1  the exception types that can leave compile(): explicit raises over the type-resolved call graph, filtered by the
    handlers around each call site; only SelectorSyntaxError / NotImplementedError and the documented, enumerated
    exceptions (KeyError for duplicate custom names, ValueError/TypeError for non-string arguments) remain
R2  every partial operation reachable from compile() is discharged (language inclusion, interval, escaping, handler)
R3  custom-selector recursion is cut: the name is removed before its definition is compiled and restored after
R4  the arguments of the memoised compiler are hashable for every str pattern / str->str map / None
R5  escape hatches of the type system in the reachable code are listed (soft: evidence only)
"""
from __future__ import annotations

import ast

from ..callgraph import CallGraph
from ..core import AnalysisError, Report
from ..excflow import ExcFlow
from ..srcmodel import call_name, unparse, walk_no_nested

ALLOWED = {'SelectorSyntaxError', 'NotImplementedError'}
# (exception, originating function) pairs that are documented or lie outside the property's input domain
DOCUMENTED = {
    ('KeyError', 'css_parser.process_custom'): 'documented: two custom names that differ only in case',
    ('ValueError', '__init__.compile'): 'already-compiled pattern with extra arguments: outside the domain (str patterns)',
    ('TypeError', 'css_types.ImmutableDict._validate'): 'non-hashable map values: outside the domain (str -> str maps)',
    ('TypeError', 'css_types.Namespaces._validate'): 'non-string map entries: outside the domain',
    ('TypeError', 'css_types.CustomSelectors._validate'): 'non-string map entries: outside the domain',
}


def run(ctx, report: Report) -> None:
    src, inv = ctx.src, ctx.consts
    report.explanation = (
        'Exception-escape analysis from soupsieve.compile over the type-resolved call graph. Events are explicit raise '
        'statements and the partial operations of a catalogue (int, float, chr, datetime, bytes.decode, next, '
        're.compile of non-constant text, subscripts of constant tables with run-time keys, possibly-unbound locals). An '
        'event is discharged at its site by an enclosing handler, by regular-language inclusion of the regex group that '
        'feeds the conversion in the conversion\'s domain (incl. the 4300-digit limit of int), by an interval argument '
        '(chr, datetime), or by the escaping discipline of pattern templates; otherwise it propagates to every caller and '
        'is filtered by the handlers around that call site. What reaches compile() must be a documented type.')
    report.not_decided = ('which inputs are rejected (C09/C01); recursion depth (excluded by the quantifier); warnings '
                          'configured as errors; exceptions from operations outside the catalogue (subscripts with run-time '
                          'indices and cast()/Any sites are listed as unproven, not as violations).')
    report.trusted_base = ['mypy receiver types (call graph)', 're._parser.parse', "CPython's int() digit limit of 4300"]
    cg = ctx.get('callgraph', lambda: CallGraph(ctx.types, src))
    ef = ExcFlow(ctx, cg)
    entry = '__init__.compile'
    reach = cg.reachable([entry])
    report.analysed['reachable_functions'] = len(reach)
    report.analysed['fallback_edges'] = sorted(set(map(str, cg.fallback_edges)))

    # ---- R1 / R2 ---------------------------------------------------------------------------------------
    r1 = report.rule('C06-R1', 'only documented exception types leave compile()', floor=3)
    r2 = report.rule('C06-R2', 'partial operations reachable from compile() are discharged', floor=2)
    esc = ef.escapes(entry)
    for q in sorted(reach):
        for e in ef.events(q):
            if e.kind == 'raise':
                continue
            r2.instance({'function': e.func, 'operation': e.text[:80], 'may_raise': e.exc, 'discharged_by': e.discharged},
                        key=f'{e.func}|{e.kind}|{e.text[:60]}')
    for key, e in sorted(esc.items()):
        exc, origin, where = key
        if e.kind == 'raise':
            doc = DOCUMENTED.get((exc, origin))
            if doc is None and exc == 'TypeError' and origin.startswith('css_types.') and any(
                    p.startswith('css_types.') and p.endswith('._validate') for p in tuple(e.path) + (origin,)):
                # the argument validation of the immutable maps, wherever its body lives
                doc = 'map entries that are not str / not hashable: outside the domain (str -> str maps)'
            if doc is None and exc == 'KeyError' and 'css_parser.process_custom' in tuple(e.path):
                # the duplicate-name check of process_custom, wherever its body lives
                doc = DOCUMENTED[('KeyError', 'css_parser.process_custom')]
            ok = exc in ALLOWED or doc is not None
            r1.instance({'raise': e.text[:80], 'type': exc, 'in': origin,
                         'status': 'allowed' if exc in ALLOWED else (doc or 'UNDOCUMENTED')},
                        key=f'{origin}|{exc}|{e.text[:50]}')
            r1.obligation(ok)
            if not ok:
                r1.violation(f'{origin} raises {exc}', where,
                             f'`{e.text[:80]}` in {origin} can propagate out of compile() along {" -> ".join(e.path)}: {exc} is not '
                             f'SelectorSyntaxError / NotImplementedError nor one of the documented exceptions')
        else:
            r2.obligation(False)
            r2.violation(f'{origin} {e.kind} {e.text[:50]}', where,
                         f'{origin}: `{e.text[:110]}` can raise {exc} and nothing between it and compile() handles that '
                         f'(path {" -> ".join(e.path)})')
    for q in sorted(reach):
        for e in ef.events(q):
            if e.kind != 'raise' and e.discharged:
                r2.obligation(True)
    r1.instance({'escaping_events': len(esc), 'reachable_functions': len(reach)}, key='summary', nontrivial=False)

    # ---- R3 ------------------------------------------------------------------------------------------------
    r3 = report.rule('C06-R3', 'custom-selector recursion is cut', floor=2)
    # cyclic, self-referential, undefined and repeatedly referenced custom selectors: compiled by interpretation
    from .e2etab import custom_cycle_table
    custom_cycle_table(ctx, r3)

    # the text handed to a (nested) parser is text: a value read from the shared custom table may already be compiled
    tf = ctx.types
    n_ctor = 0
    for mn, mod in src.mods.items():
        for c in [n for n in ast.walk(mod.tree) if isinstance(n, ast.Call)]:
            if src.resolve_class_ref(mod, c.func) != 'css_parser.CSSParser' or not (c.args or c.keywords):
                continue
            arg = c.args[0] if c.args else next((k.value for k in c.keywords if k.arg == 'selector'), None)
            if arg is None:
                continue
            t = tf.type_of(mn, arg)
            kinds = sorted(set(tf.instance_names(t))) if t is not None else None
            const = inv.folder.try_ev(mn, arg, default=None)
            ok = isinstance(const, str) or kinds == ['builtins.str']
            n_ctor += 1
            r3.instance({'site': f'{mn}.{mod.enclosing_function(c) or "<module>"}', 'pattern_argument': unparse(arg)[:50],
                         'static_type': kinds if not isinstance(const, str) else 'constant str'}, key=f'ctor|{mod.where(c)}',
                        sample_cap=4)
            r3.obligation(ok)
            if not ok:
                r3.violation(f'{mn}.{mod.enclosing_function(c)} CSSParser({unparse(arg)[:30]}) type', mod.where(c),
                             f'CSSParser({unparse(arg)[:40]}, ...) in {mod.enclosing_function(c)}: the pattern argument has static type '
                             f'{kinds} at this point - not narrowed to str. An entry of the custom table that was already compiled '
                             f'(a SelectorList) would be parsed as text and raise AttributeError/TypeError out of compile()')
    if n_ctor < 1:
        raise AnalysisError('no CSSParser(...) construction found')

    # ---- R4 ------------------------------------------------------------------------------------------------
    r4 = report.rule('C06-R4', 'arguments of the memoised compiler are hashable', floor=3)
    from .sem import compile_table
    compile_table(ctx, r4, None)

    # ---- R5 ------------------------------------------------------------------------------------------------
    r5 = report.rule('C06-R5', 'escape hatches of the type system in the reachable code (listed, soft)')
    hatches = []
    for q in sorted(reach):
        mn, _, rest = q.partition('.')
        mod = src.mods.get(mn)
        fn = mod.functions.get(rest) if mod else None
        if fn is None:
            continue
        for n in walk_no_nested(fn):
            if isinstance(n, ast.Call) and call_name(n) in ('cast', 'typing.cast'):
                hatches.append({'function': q, 'site': unparse(n)[:70], 'kind': 'cast'})
    for h in hatches:
        r5.instance(h, nontrivial=False, key=f'{h["function"]}|{h["site"]}')
    r5.note('cast(Match, RE_NTH.match(content)) is discharged by C02-R2 (NTH and RE_NTH accept the same strings)')

    # ---- R6 (texts compiled by interpretation, bounded) -----------------------------------------------------------------
    r6 = report.rule('C06-R6', 'every text over an alphabet of selector fragments compiles or is refused with a documented error (bounded)', floor=1)
    from .e2etab import error_type_table
    error_type_table(ctx, r6, depth=2 if ctx.tier == 'quick' else 3)
    r6.findings[:] = [f for f in r6.findings if 'error offset' not in f.key]

    # ---- R7 --------------------------------------------------------------------------------------------------------------
    # "returns or raises" presupposes that compile() comes back at all: no regex the parser applies to the pattern text (or to a
    # custom definition) may be exponentially ambiguous - the same analysis as C07-R1, restricted to css_parser and util
    r7 = report.rule('C06-R7', 'compile() comes back: no parser-side regex has exponential ambiguity', floor=23)
    from .c07 import eda_scan
    for r_ in [r for r in inv.regexes if r.module in ('css_parser', 'util')]:
        try:
            eda_scan(ctx, r7, [r_])
        except AnalysisError as e:
            r7.note(f'{r_.name}: not analysed here ({e}); C07-R1 is the deciding rule for this regex')


