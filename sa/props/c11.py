"""C11 - name and value case rules follow the document type (decided clauses only).

R1  tag and attribute name comparison: decision tables over (document kind x spelling of selector name x spelling of
    document name) for match_tagname/get_tag, match_attribute_name and get_attribute_by_name
R2  the type attribute: parser-side flag table and matcher-side twin selection
R3  HTML-only gating: the list loop of match_selectors runs for an HTML-only list only if the document is HTML;
    every pseudo-class documented as HTML-only is compiled with FLG_HTML or sets the marker itself
R4  util.lower folds exactly A-Z
"""
from __future__ import annotations

import ast
import os
import re

from .. import miniev
from ..boolpaths import BoolDomain, BoolEnv
from ..core import AnalysisError, Report
from ..pathwalk import Walker
from ..srcmodel import call_name, unparse, walk_no_nested
from .c12 import ATTR_KINDS, U1, ascii_lower


def run(ctx, report: Report) -> None:
    src, inv = ctx.src, ctx.consts
    report.explanation = (
        'The name-comparison functions touch their operands only through ==, membership in a constant tuple, '
        'util.lower and is None, so a finite table over spellings (lower / upper / mixed) and document kinds is '
        'exhaustive for them; the rule interprets their ASTs over that table and compares with the case rules of the '
        'property. util.lower itself is evaluated on every ASCII code point and on non-ASCII letters that str.lower() '
        'would change. The HTML-only gate is a reachability query on the path walker.')
    report.not_decided = 'document-type detection from a tree (root namespace, parser flag) and results on whole documents.'
    report.trusted_base = ['ast', 'docs/src/markdown/selectors/pseudo-classes.md marks HTML-only pseudo-classes with the html5 icon']
    mmod = src.mod('css_match')
    umod, lower_fn = src.func('util.lower')

    def consts_util(name):
        return inv.folder.lookup('util', name)

    def eval_lower(sv):
        ev = miniev.MiniEval({lower_fn.args.args[0].arg: sv}, consts=lambda n: _util_const(n))
        return ev.run(lower_fn.body)
    _memo = {}

    def _util_const(name):
        if name in _memo:
            return _memo[name]
        try:
            v = inv.folder.lookup('util', name)
        except Exception:  # noqa: BLE001
            node = inv.folder.env_nodes['util'].get(name)
            if node is None:
                raise KeyError(name)
            v = miniev.MiniEval({}, consts=_util_const).ev(node)
        _memo[name] = v
        return v

    # ---- R4 ----------------------------------------------------------------------------------------------
    r4 = report.rule('C11-R4', 'util.lower folds exactly A-Z', floor=33)
    from .sem import util_lower_table
    util_lower_table(ctx, r4)

    # ---- R1 ----------------------------------------------------------------------------------------------
    r1 = report.rule('C11-R1', 'name comparison follows the document type', floor=42)
    _, tagname = src.func('css_match.CSSMatch.match_tagname')
    _, get_tag = src.func('css_match.CSSMatch.get_tag')
    _, gtn = src.func('css_match._DocumentNav.get_tag_name')
    spellings = ['div', 'DIV', 'Div']
    first_bad = None
    from ..interp import Obj, Raised, call_function
    from ..tables import NSKey, el_obj, matcher_obj
    for is_xml in (False, True, 'xhtml'):          # 'xhtml': an XML tree whose root is in the XHTML namespace (is_xml and is_html)
        for sel_name in spellings + ['*', 'span']:
            for doc_name in spellings:
                try:
                    got = bool(call_function(ctx, 'css_match.CSSMatch.match_tagname',
                                             [el_obj(doc_name, is_xml=bool(is_xml)), Obj(_name='SelectorTag', name=sel_name, prefix=None)],
                                             {}, {}, matcher_obj(is_xml=bool(is_xml), is_html=(not is_xml) or is_xml == 'xhtml', has_html_namespace=is_xml == 'xhtml')))
                except Raised as e:
                    got = f'raises {e.exc_name}'
                except miniev.Unsupported as e:
                    raise AnalysisError(f'match_tagname/get_tag: outside the evaluable fragment: {e}')
                if sel_name == '*':
                    exp = True
                elif is_xml:
                    exp = sel_name == doc_name
                else:
                    exp = sel_name.lower() == doc_name.lower()
                r1.instance({'kind': 'tag', 'xml': is_xml, 'selector': sel_name, 'element': doc_name, 'matches': got,
                             'expected': exp}, key=f'tag|{is_xml}|{sel_name}|{doc_name}', sample_cap=3)
                if got != exp and first_bad is None:
                    first_bad = ('tag name', is_xml, sel_name, doc_name, got, exp)
    # attribute names through match_attribute_name (no prefix and wildcard prefix, with and without namespace support)
    _, man = src.func('css_match.CSSMatch.match_attribute_name')
    _, p_el, p_attr, p_prefix = [a.arg for a in man.args.args]
    kinds = dict(ATTR_KINDS)
    kinds.update({'HREF': (None, None), 'href': (None, None), 'x:HREF': (U1, 'HREF')})
    for supports in (False, True):
        for is_xml in ((False, True, 'xhtml') if supports else (False,)):
            for prefix in ('', '*', 'p'):
                for sel_attr in ('href', 'HREF', 'Href'):
                    for key in ('href', 'HREF', 'x:HREF'):
                        nsmap = {'p': U1}
                        k_ = NSKey(key, *kinds[key]) if kinds[key][0] is not None else key
                        try:
                            got = call_function(ctx, 'css_match.CSSMatch.match_attribute_name',
                                                [el_obj('e', attrs={k_: 'v'}, is_xml=bool(is_xml)), sel_attr, prefix], {},
                                                {'css_match.CSSMatch.supports_namespaces': lambda _s=supports: _s},
                                                matcher_obj(is_xml=bool(is_xml), is_html=(not is_xml) or is_xml == 'xhtml', has_html_namespace=is_xml == 'xhtml', namespaces=nsmap))
                        except Raised as e:
                            got = f'raises {e.exc_name}'
                        except miniev.Unsupported as e:
                            raise AnalysisError(f'match_attribute_name: outside the evaluable fragment: {e}')

                        def same(a, b, _x=is_xml):
                            return a == b if _x else a.lower() == b.lower()
                        ns, local = kinds[key]
                        if not supports:
                            exp = same(sel_attr, key)
                        elif not prefix:
                            exp = same(sel_attr, key)
                        elif prefix == '*':
                            exp = same(sel_attr, local if ns is not None else key)
                        else:
                            exp = ns == U1 and same(sel_attr, local)
                        gotb = got is not None
                        r1.instance({'kind': 'attribute', 'namespaces': supports, 'xml': is_xml, 'prefix': prefix,
                                     'selector': sel_attr, 'attribute': key, 'matches': gotb, 'expected': exp},
                                    key=f'attr|{supports}|{is_xml}|{prefix}|{sel_attr}|{key}', sample_cap=3)
                        if gotb != exp and first_bad is None:
                            first_bad = (f'attribute name (prefix {prefix!r}, namespaces {"on" if supports else "off"})',
                                         is_xml, sel_attr, key, gotb, exp)
    # get_attribute_by_name (used by id/class/state pseudo-classes) - the selector side passes lower-case literals
    _, gabn = src.func('css_match._DocumentNav.get_attribute_by_name')
    pe, pn, pd = [a.arg for a in gabn.args.args[1:4]]
    for is_xml in (False, True):
        for key in ('id', 'ID', 'Id'):
            try:
                got = call_function(ctx, 'css_match._DocumentNav.get_attribute_by_name',
                                    [el_obj('e', attrs={key: 'v'}, is_xml=is_xml), 'id', None], {}, {}, None)
            except Raised as e:
                got = f'raises {e.exc_name}'
            except miniev.Unsupported as e:
                raise AnalysisError(f'get_attribute_by_name: outside the evaluable fragment: {e}')
            exp = (key == 'id') if is_xml else True
            r1.instance({'kind': 'attribute-by-name', 'xml': is_xml, 'attribute': key, 'found': got is not None,
                         'expected': exp}, key=f'gabn|{is_xml}|{key}', sample_cap=2)
            if (got is not None) != exp and first_bad is None:
                first_bad = ('attribute lookup by literal name', is_xml, 'id', key, got is not None, exp)
    r1.obligation(first_bad is None)
    if first_bad is not None:
        what, is_xml, a, b, got, exp = first_bad
        r1.violation(f'css_match {what} case table', mmod.where(man if 'attribute' in what else tagname),
                     f'{what}: selector spelling {a!r} against document spelling {b!r} in {"an XML" if is_xml else "an HTML"} '
                     f'document gives {got}, the case rules prescribe {exp}')
    # literal attribute names passed to get_attribute_by_name are lower-case
    for q, f in mmod.functions.items():
        for c in [n for n in walk_no_nested(f) if isinstance(n, ast.Call) and call_name(c_ := n).endswith('get_attribute_by_name')]:
            if len(c.args) >= 2 and isinstance(c.args[1], ast.Constant) and isinstance(c.args[1].value, str):
                v = c.args[1].value
                r1.instance({'literal_attribute_name': v, 'lower_case': v == v.lower()}, key=f'lit|{q}|{v}', nontrivial=False)
                if v != v.lower():
                    r1.violation(f'css_match.{q} literal attribute {v}', mmod.where(c),
                                 f'{q} looks up the attribute {v!r}; HTML lookups compare against the lower-cased document name')

    # ---- R2 (tables by partial evaluation of parse_attribute_selector and match_attributes) -----------------
    r2 = report.rule('C11-R2', 'the type attribute: flag table and case-sensitive twin', floor=187)
    from .sem import attribute_patterns, helper_tables
    I, S = int(re.I), int(re.S)
    bad = None
    for row in attribute_patterns(ctx):
        if row['op'] is None:
            continue
        case = row['case'].lower() if row['case'] else None
        is_t = row['attr'].lower() == 'type'
        exp_flags = ((I if case == 'i' else 0) | S) if case else ((I | S) if is_t else S)
        exp_twin = bool(is_t and not case)
        got_twin = row['twin_pattern'] is not None
        ok = row['flags'] == exp_flags and got_twin == exp_twin and (not got_twin or (
            row['twin_pattern'] == row['pattern'] and not (row['twin_flags'] & I)))
        r2.instance({'selector': f'[{row["attr"]}{row["op"]}"{row["value"]}"{" " + row["case"] if row["case"] else ""}]',
                     'flags': row['flags'], 'twin': got_twin, 'expected_flags': exp_flags, 'expected_twin': exp_twin},
                    key=f'{row["attr"]}|{row["op"]}|{row["value"]}|{row["case"]}', sample_cap=3)
        if not ok and bad is None:
            bad = (row, exp_flags, exp_twin)
    r2.obligation(bad is None)
    if bad is not None:
        row, ef, et = bad
        r2.violation('parse_attribute_selector case flags', 'soupsieve/css_parser.py (parse_attribute_selector)',
                     f'[{row["attr"]}{row["op"]}"{row["value"]}"{" " + row["case"] if row["case"] else ""}] is compiled with flags '
                     f'{row["flags"]} and {"a" if row["twin_pattern"] is not None else "no"} case-sensitive twin (twin flags '
                     f'{row["twin_flags"]}); expected flags {ef} (IGNORECASE={I}, DOTALL={S}) and {"a" if et else "no"} twin: the i/s '
                     f'flags force the comparison, an unflagged type attribute is insensitive in HTML and gets a case-sensitive twin '
                     f'(same pattern, no IGNORECASE) for XML, for every operator')
    n0 = len(r2.findings)
    helper_tables(ctx, r2)
    r2.findings[n0:] = [f for f in r2.findings[n0:] if 'match_attributes' in f.key]

    # ---- R3 ----------------------------------------------------------------------------------------------
    r3 = report.rule('C11-R3', 'HTML-only pseudo-classes never match in non-HTML XML', floor=3)
    _, ms = src.func('css_match.CSSMatch.match_selectors')
    html_var = None
    for st in ms.body:
        if isinstance(st, ast.Assign) and isinstance(st.targets[0], ast.Name) and unparse(st.value).endswith('.is_html'):
            html_var = st.targets[0].id
    if html_var is None:
        raise AnalysisError('match_selectors: local copy of selectors.is_html not found')

    class Probe(BoolDomain):
        def __init__(self):
            self.loop_entered = False

        def stmt(self, state, node):
            # keep the assumption about the marker through its own definition
            if isinstance(node, ast.Assign) and isinstance(node.targets[0], ast.Name) and node.targets[0].id == html_var:
                return state
            return super().stmt(state, node)

        def for_header(self, state, node):
            if unparse(node.iter) in ('selectors',):
                self.loop_entered = True
            return super().for_header(state, node)
    for doc_html, expect_loop in ((False, False), (True, True)):
        dom = Probe()
        init = frozenset({f'var:{html_var}': True, 'self.is_html': doc_html}.items())
        Walker(dom).block(ms.body, {init})
        ok = dom.loop_entered == expect_loop
        r3.instance({'HTML-only list': True, 'document_is_html': doc_html, 'alternatives_evaluated': dom.loop_entered,
                     'expected': expect_loop}, key=f'gate|{doc_html}')
        r3.obligation(ok)
        if not ok:
            r3.violation(f'match_selectors html gate doc_html={doc_html}', mmod.where(ms),
                         f'match_selectors {"evaluates" if dom.loop_entered else "skips"} an HTML-only selector list when '
                         f'self.is_html is {doc_html}: the gate must depend on the document type '
                         f'(`not is_html or self.is_html`), not on the element')
    docs = os.path.join(ctx.root, 'docs', 'src', 'markdown', 'selectors', 'pseudo-classes.md')
    if os.path.exists(docs):
        names = []
        with open(docs, encoding='utf-8') as fh:
            for line in fh:
                m = re.match(r'^## `(:[a-z-]+)(?:\(\))?`:material-language-html5:', line)
                if m:
                    names.append(m.group(1))
        if len(names) < 10:
            raise AnalysisError('fewer than 10 HTML-only pseudo-classes found in the docs (format changed?)')
        pmod = src.mod('css_parser')
        _, pc = src.func('css_parser.CSSParser.parse_pseudo_class')
        flg_html = inv.const('css_parser', 'FLG_HTML')
        from .sem import const_flags as _cf, pseudo_table
        const_flags = _cf(ctx)
        ptab = pseudo_table(ctx)
        _, ps = src.func('css_parser.CSSParser.parse_selectors')
        for nm in names:
            how = None
            if nm in ptab:
                row = ptab[nm]
                if row['consts'] and all(const_flags.get(c, 0) & flg_html for c in row['consts']):
                    how = f'{row["consts"][0]} compiled with FLG_HTML'
                elif row['is_html']:
                    how = 'sets the HTML-only marker'
            elif nm == ':dir':
                for n in ast.walk(ps):
                    if isinstance(n, ast.If) and "'pseudo_dir'" in unparse(n.test) and any(
                            isinstance(st, ast.Assign) and unparse(st) == 'is_html = True' for st in n.body):
                        how = 'sets the HTML-only marker'
            if how is None:
                # third mechanism: the matching function of the pseudo-class itself refuses documents that are not HTML - observed by
                # running the pseudo-class through the whole pipeline on two XML trees (plain, and with XHTML-namespaced elements)
                from ..e2e import api as _api, make_doc as _make_doc
                XH_ = 'http://www.w3.org/1999/xhtml'
                text_ = {':dir': ':dir(ltr)'}.get(nm, nm)
                got_ = []
                for spec_ in ([('r', {}, [('e', {}, ['x']), ('input', {'type': 'checkbox', 'checked': ''}, [])])],
                              [('feed', {}, [('div', {'_ns': XH_}, [('p', {'_ns': XH_}, ['x']), ('a', {'_ns': XH_, 'href': 'u'}, [])])])]):
                    d_, o_, _l = _make_doc(spec_, 'xml')
                    for sel_ in (text_, f'*{text_}', f':is({text_})', f'* > {text_}'):
                        st_, r_ = _api(ctx, 'select', sel_, d_)
                        got_.append((st_, len(r_) if st_ == 'ok' else r_))
                if all(g == ('ok', 0) for g in got_):
                    how = 'its matching function refuses documents that are not HTML (observed through the whole pipeline on two XML trees)'
            r3.instance({'html_only_pseudo_class': nm, 'gated_by': how}, key=nm)
            r3.obligation(how is not None)
            if how is None:
                r3.violation(f'html-only {nm} not gated', pmod.where(pc),
                             f'{nm} is documented as HTML-only but its definition is neither compiled with FLG_HTML nor sets '
                             f'the HTML-only marker, and it selects elements of an XML document that is not XHTML')
    else:
        r3.note('docs/src/markdown/selectors/pseudo-classes.md not present: documentation clause skipped')

    # ---- R5 (the whole pipeline by interpretation, bounded) --------------------------------------------------------------
    r5 = report.rule('C11-R5', 'case rules per document type on a tree of case variants (whole pipeline; bounded)', floor=197)
    from .e2ematch import case_rules_table
    case_rules_table(ctx, r5)

    # ---- R6 (the whole pipeline by interpretation, bounded) --------------------------------------------------------------
    r6 = report.rule('C11-R6', 'the document type is decided from the document, whatever element the call starts from (bounded)', floor=10)
    from .e2ematch import scope_independence_table
    scope_independence_table(ctx, r6)

    # the `type` attribute is the case-insensitive one however its name is spelled in the selector
    from .e2etab import equivalent_spellings_table
    equivalent_spellings_table(ctx, r5, only=('attribute name type', 'namespaced attribute name', 'case of the i flag', 'case of the s flag'))



