"""C12 - namespace selectors compare namespace URIs through the supplied prefix map (decided clauses only).

R1  decision table of match_attribute_name over (prefix form x map x attribute kinds, <= 2 attributes per element)
R2  document prefixes are never compared: Tag.prefix is read only for :defined
R3  decision table of match_namespace over (prefix form x default entry x element namespace)
R4  the implied universal selector is added under the same guard at both sites
R5  the prefix map is an immutable copy
"""
from __future__ import annotations

import ast
import itertools

from .. import miniev
from ..callgraph import CallGraph
from ..core import AnalysisError, Report
from ..srcmodel import call_name, unparse, walk_no_nested

U1, U2, DFLT = 'urn:one', 'urn:two', 'urn:default'


def ascii_lower(s):
    return ''.join(chr(ord(c) + 32) if 'A' <= c <= 'Z' else c for c in s)


# attribute kinds: key -> (namespace, local name)
ATTR_KINDS = {
    'a': (None, None),            # plain attribute a
    'A': (None, None),            # plain attribute spelled in upper case
    'b': (None, None),            # another plain attribute
    'x:a': (U1, 'a'),             # attribute a in namespace U1 (document prefix x)
    'y:a': (U2, 'a'),             # attribute a in namespace U2 (document prefix y)
    'p:a': (U2, 'a'),             # attribute a in U2 whose *document* prefix equals the selector prefix p
    'x:b': (U1, 'b'),
}


def ref_attr(attrs, prefix, nsmap, is_xml):
    """Reference: value of the first attribute (document order) designated by [prefix|a]."""
    def same(x, y):
        return x == y if is_xml else ascii_lower(x) == ascii_lower(y)
    if prefix and prefix != '*' and nsmap.get(prefix) is None:
        return None
    for key, val in attrs:
        ns, name = ATTR_KINDS[key]
        if not prefix:
            if same('a', key):
                return val
        elif prefix == '*':
            if same('a', name if ns is not None else key):
                return val
        else:
            if ns is not None and ns == nsmap[prefix] and same('a', name):
                return val
    return None


def run(ctx, report: Report) -> None:
    src, inv = ctx.src, ctx.consts
    report.explanation = (
        'The two namespace decision procedures touch their inputs only through equality, None-ness, truthiness and '
        'dictionary lookup, so their behaviour is determined by a finite set of abstract cases: the form of the '
        'selector prefix (none, empty, wildcard, mapped, unmapped), the presence of a default entry, the identity of '
        'the element/attribute namespace among three URIs, the document kind, and - for attributes - the kinds and '
        'order of up to two attributes. The rule interprets the AST of each function over every case and compares the '
        'decision table with the one the property states. R2 is a census of Tag.prefix reads over mypy types and the '
        'reverse call graph.')
    report.not_decided = 'behaviour over all documents x maps beyond these two decision procedures (C01).'
    report.trusted_base = ['ast', 'mypy types for the prefix census', 'split_namespace returns (namespace, local name) of a '
                           'NamespacedAttribute and (None, None) for a plain key (checked syntactically)']
    mmod = src.mod('css_match')

    # ---- R1 ------------------------------------------------------------------------------------------
    r1 = report.rule('C12-R1', 'attribute namespace decision table', floor=150)
    _, fn = src.func('css_match.CSSMatch.match_attribute_name')
    params = [a.arg for a in fn.args.args]
    if len(params) != 4:
        raise AnalysisError('match_attribute_name: expected (self, el, attr, prefix)')
    _, p_el, p_attr, p_prefix = params
    _, sn = src.func('css_match._DocumentNav.split_namespace')
    from ..interp import Obj, Raised, call_function
    from ..tables import NSKey, el_obj, matcher_obj
    try:
        spl = [call_function(ctx, 'css_match._DocumentNav.split_namespace', [el_obj('e', namespace='ELEMENT-NS', prefix='ep'), k_], {}, {}, None)
               for k_ in (Obj(_name='NamespacedAttribute', namespace='NS', name='local'), 'plain')]
        spl = [tuple(x) if isinstance(x, (tuple, list)) else x for x in spl]
    except (Raised, miniev.Unsupported) as e:
        raise AnalysisError(f'split_namespace: outside the evaluable fragment: {e}')
    premise_ok = spl == [('NS', 'local'), (None, None)]
    if not premise_ok:
        if isinstance(spl[1], tuple) and len(spl[1]) == 2 and spl[1][0] is not None:
            # an un-prefixed attribute has no namespace, whatever element carries it
            report.rule('C12-R0', 'split_namespace: (namespace, local name) of a namespaced key, (None, None) of a plain key').violation(
                'css_match._DocumentNav.split_namespace plain key', mmod.where(sn),
                f'split_namespace gives {spl[1]} for an un-prefixed attribute key on an element in the namespace ELEMENT-NS: an attribute '
                f'without a prefix has NO namespace (it does not inherit the element\'s or the default namespace), so `[ns|a]` would match '
                f'plain attributes of elements in that namespace')
        else:
            raise AnalysisError(f'split_namespace yields {spl} for (a namespaced key, a plain key); the attribute model of this rule '
                                'assumes (namespace, local name) and (None, None)')
    keys = list(ATTR_KINDS)
    elements = [[]] + [[k] for k in keys] + [list(p) for p in itertools.permutations(keys, 2)]
    first_bad = None
    n = 0
    for is_xml in (True, False, 'xhtml'):           # 'xhtml': XML tree with an XHTML root (is_xml and is_html)
        for prefix in ('', '*', 'p', 'q'):
            nsmap = {'p': U1}
            for el_keys in elements:
                attrs = [(k, f'value-of-{k}') for k in el_keys]
                # the real accessors (iter_attributes, split_namespace, get_tag_ns ...) are interpreted too; only the value
                # normalisation is replaced by a tagging stand-in so that a raw (un-normalised) result is visible
                el = el_obj('e', attrs={(NSKey(k, *ATTR_KINDS[k]) if ATTR_KINDS[k][0] is not None else k): v for k, v in attrs},
                            is_xml=bool(is_xml))
                me = matcher_obj(is_xml=bool(is_xml), is_html=(not is_xml) or is_xml == 'xhtml', has_html_namespace=is_xml == 'xhtml', namespaces=nsmap)
                stubs = {'css_match.CSSMatch.supports_namespaces': lambda: True,
                         'css_match._DocumentNav.normalize_value': lambda v: ('normalised', v)}
                try:
                    got = call_function(ctx, 'css_match.CSSMatch.match_attribute_name', [el, 'a', prefix], {}, stubs, me)
                except Raised as e:
                    got = f'raises {e.exc_name}'
                except miniev.Unsupported as e:
                    raise AnalysisError(f'match_attribute_name: outside the evaluable fragment: {e}')
                exp = ref_attr(attrs, prefix, nsmap, is_xml)
                exp = None if exp is None else ('normalised', exp)
                n += 1
                r1.instance({'xml': is_xml, 'selector': f'[{prefix + "|" if prefix else ""}a]', 'attributes': el_keys,
                             'returns': got, 'expected': exp}, key=f'{is_xml}|{prefix}|{el_keys}', sample_cap=4)
                if got != exp and first_bad is None:
                    first_bad = (is_xml, prefix, el_keys, got, exp)
    r1.obligation(first_bad is None)
    if first_bad is not None:
        is_xml, prefix, el_keys, got, exp = first_bad
        sel = f'[{prefix + "|" if prefix else ""}a]'
        r1.violation('css_match.CSSMatch.match_attribute_name decision table', mmod.where(fn),
                     f'match_attribute_name: for selector {sel} (map p -> {U1}; {"XML" if is_xml else "namespace-aware HTML"}) on an '
                     f'element with attributes {el_keys} (x:* in {U1}, y:*/p:* in {U2}) the code yields {got!r}, the property '
                     f'prescribes {exp!r} (the value of the designated attribute, normalised to str / list of str)')
    report.analysed['attribute_cases'] = n

    # ---- R2 ------------------------------------------------------------------------------------------
    r2 = report.rule('C12-R2', 'document prefixes are never compared', floor=1)
    tf = ctx.types
    readers = set()
    for q, f in mmod.functions.items():
        for x in walk_no_nested(f):
            if isinstance(x, ast.Attribute) and x.attr == 'prefix' and isinstance(x.ctx, ast.Load):
                t = tf.type_of('css_match', x.value)
                if t is not None and tf.is_bs4(t):
                    readers.add(q)
                    r2.instance({'function': q, 'reads': unparse(x), 'receiver_type': tf.show(t)}, key=f'{q}|{unparse(x)}')
    cg = ctx.get('callgraph', lambda: CallGraph(ctx.types, src))
    rev = {}
    for a, bs in cg.edges.items():
        for b in bs:
            rev.setdefault(b, set()).add(a)
    allowed = {'css_match._DocumentNav.get_prefix_name', 'css_match.CSSMatch.get_prefix', 'css_match.CSSMatch.match_defined',
               'css_match.CSSMatch.match_selectors'}
    for q in sorted(readers):
        full = f'css_match.{q}'
        if full != 'css_match._DocumentNav.get_prefix_name':
            r2.violation(f'{full} reads Tag.prefix', mmod.where(mmod.functions[q]),
                         f'{q} reads the prefix an element carries in the document; namespace selectors must compare URIs '
                         f'through the caller\'s map, never document prefixes')
            continue
        # transitive callers up to match_selectors
        seen, todo = set(), [full]
        while todo:
            f = todo.pop()
            for c in rev.get(f, ()):
                # callers are followed upwards, but not through match_defined: what calls match_defined uses the prefix for :defined
                if c not in seen and c != 'css_match.CSSMatch.match_selectors' and f != 'css_match.CSSMatch.match_defined':
                    seen.add(c)
                    todo.append(c)
        extra = sorted(c for c in seen if c not in allowed and not c.endswith('>'))
        r2.instance({'get_prefix_name_callers': sorted(seen), 'outside_defined': extra}, key='callers')
        r2.obligation(not extra)
        for c in extra:
            r2.violation(f'{c} uses document prefix', 'soupsieve/css_match.py',
                         f'{c} (transitively) uses get_prefix_name(): a document prefix takes part in a decision other than :defined')
    if not readers:
        r2.note('no bs4-typed .prefix read found at all')

    # ---- R3 ------------------------------------------------------------------------------------------
    r3 = report.rule('C12-R3', 'element namespace decision table', floor=30)
    _, mn = src.func('css_match.CSSMatch.match_namespace')
    first_bad = None
    n = 0
    for has_default in (False, True):
        nsmap = {'p': U1}
        if has_default:
            nsmap[''] = DFLT
        for prefix in (None, '', '*', 'p', 'q'):
            for el_ns in ('', U1, U2, DFLT):
                for sel_name, el_name in (('*', 'e'), ('e', 'e'), ('e', 'f')):
                    # match_tag is what a compound's type selector (explicit or the implied universal one) goes through
                    me = matcher_obj(is_xml=True, is_html=False, namespaces=nsmap)
                    tag = Obj(_name='SelectorTag', name=sel_name, prefix=prefix)
                    try:
                        got = bool(call_function(ctx, 'css_match.CSSMatch.match_tag', [el_obj(el_name, namespace=el_ns, is_xml=True), tag],
                                                 {}, {'css_match.CSSMatch.supports_namespaces': lambda: True}, me))
                    except Raised as e:
                        got = f'raises {e.exc_name}'
                    except miniev.Unsupported as e:
                        raise AnalysisError(f'match_tag/match_namespace: outside the evaluable fragment: {e}')
                    if prefix is None:
                        ns_ok = (not has_default) or el_ns == DFLT
                    elif prefix == '':
                        ns_ok = el_ns == ''
                    elif prefix == '*':
                        ns_ok = True
                    else:
                        ns_ok = nsmap.get(prefix) is not None and el_ns == nsmap[prefix]
                    exp = ns_ok and (sel_name == '*' or sel_name == el_name)
                    n += 1
                    r3.instance({'selector': ('' if prefix is None else prefix + '|') + sel_name, 'default_entry': has_default,
                                 'element': f'{el_name} in {el_ns or "(no namespace)"}', 'matches': got, 'expected': exp},
                                key=f'{has_default}|{prefix}|{el_ns}|{sel_name}|{el_name}', sample_cap=4)
                    if got != exp and first_bad is None:
                        first_bad = (has_default, prefix, el_ns, got, exp, sel_name, el_name)
    r3.obligation(first_bad is None)
    if first_bad is not None:
        has_default, prefix, el_ns, got, exp, sel_name, el_name = first_bad
        form = ('' if prefix is None else prefix + '|') + sel_name
        r3.violation('css_match.CSSMatch.match_namespace decision table', mmod.where(mn),
                     f'match_tag: type selector {form} (map: p -> {U1}{", default -> " + DFLT if has_default else ""}) on an element '
                     f'<{el_name}> in namespace {el_ns or "(none)"} gives {got}, the property prescribes {exp} (the universal selector - '
                     f'explicit or implied - is subject to the default namespace like any type selector)')

    r4 = report.rule('C12-R4', 'implied universal selector is added exactly to top-level alternatives (parsed token sequences)', floor=1)
    from .sem import implied_universal_tables
    implied_universal_tables(ctx, r4)

    # ---- R5 ------------------------------------------------------------------------------------------
    r5 = report.rule('C12-R5', 'the prefix map is an immutable copy', floor=1)
    tmod = src.mod('css_types')
    init = tmod.functions.get('ImmutableDict.__init__')
    stores = [st for st in walk_no_nested(init) if isinstance(st, ast.Assign) and unparse(st.targets[0]) == 'self._d']

    def fresh(e):
        if isinstance(e, ast.IfExp):
            return fresh(e.body) and fresh(e.orelse)
        return (isinstance(e, ast.Call) and call_name(e) == 'dict') or isinstance(e, (ast.Dict, ast.DictComp))
    for st in stores:
        ok = fresh(st.value)
        r5.instance({'ImmutableDict.__init__': unparse(st), 'fresh_copy': ok}, key='copy')
        r5.obligation(ok)
        if not ok:
            r5.violation('css_types.ImmutableDict.__init__ copy', tmod.where(st),
                         f'the namespace map keeps `{unparse(st.value)}` - possibly the caller\'s own dict: later edits of that '
                         f'dict change what an already compiled selector matches')
    ok = 'css_types.ImmutableDict' in src.mro('css_types.Namespaces')
    muts = [m for m in ('__setitem__', '__delitem__', 'update', 'pop', 'clear', 'setdefault') if f'Namespaces.{m}' in tmod.functions
            or f'ImmutableDict.{m}' in tmod.functions]
    r5.instance({'Namespaces': 'derives from ImmutableDict', 'ok': ok, 'mutators': muts}, key='ns')
    r5.obligation(ok and not muts)
    if not ok or muts:
        r5.violation('css_types.Namespaces immutability', tmod.where(tmod.classes['Namespaces']),
                     f'Namespaces is not an immutable mapping (base ok: {ok}, mutators: {muts})')
    if not stores:
        raise AnalysisError('ImmutableDict.__init__: store to self._d not found')

    # ---- R6 ------------------------------------------------------------------------------------------
    r6 = report.rule('C12-R6', 'the caller\'s prefix map is in force for every list except inside HTML-only definitions, and is restored', floor=16)
    from .sem import list_context_table
    list_context_table(ctx, r6)

    # ---- R7 (the whole pipeline by interpretation, bounded) --------------------------------------------------------------
    r7 = report.rule('C12-R7', 'namespace selectors on a tree of mixed namespaces under two prefix maps (whole pipeline; bounded)', floor=24)
    from .e2ematch import default_namespace_state_table, namespace_table
    namespace_table(ctx, r7)
    # a default namespace in the caller's map restricts the caller's own unprefixed names only - not the names inside the built-in
    # definitions of the HTML pseudo-classes
    default_namespace_state_table(ctx, r7)



def implied_universal_rule(ctx, r4):
    """Both sites that add the implied universal selector use the same guard (shared with C05)."""
    src, inv = ctx.src, ctx.consts
    # ---- R4 ------------------------------------------------------------------------------------------
    pmod = src.mod('css_parser')
    sites = []
    for q, f in pmod.functions.items():
        for st in walk_no_nested(f):
            if isinstance(st, ast.Assign) and unparse(st.targets[0]) == 'sel.tag' and isinstance(st.value, ast.Call) \
                    and src.resolve_class_ref(pmod, st.value.func) == 'css_types.SelectorTag':
                args = [inv.folder.try_ev('css_parser', a, default='?') for a in st.value.args]
                guard = None
                par = pmod.parents.get(st)
                if isinstance(par, ast.If):
                    guard = unparse(par.test)
                if args and args[0] == '*':
                    sites.append((q, st, args, guard))
    for q, st, args, guard in sites:
        ok = args == ['*', None] and guard == 'not sel.tag and (not is_pseudo)'
        r4.instance({'site': f'css_parser.{q}', 'tag': args, 'guard': guard, 'ok': ok}, key=q)
        r4.obligation(ok)
        if not ok:
            r4.violation(f'css_parser.{q} implied universal', pmod.where(st),
                         f'{q} adds the implied universal selector {args} under the guard `{guard}`; it must be ("*", None) '
                         f'under `not sel.tag and not is_pseudo` at both sites, otherwise alternatives inside pseudo-classes pick '
                         f'up the default namespace (or top-level ones do not)')
    if len(sites) < 2:
        raise AnalysisError('fewer than two implied-universal sites found')

