"""C07 - selector parsing time is polynomially bounded.

R1  every inventoried regex is free of exponential ambiguity (EDA) - all flags variants, templates instantiated
R2  the token loop makes progress: every token pattern has a shortest match >= 1 and the scanner loop rule holds
R3  inventory completeness: every re.Pattern-typed receiver / re.* call resolves to an inventoried regex
R4  custom-selector expansion is memoised (a definition is compiled once per parser, not once per reference)
"""
from __future__ import annotations

import ast
import re

from .. import rx
from ..constfold import Opaque
from ..core import AnalysisError, Report
from ..looprule import find_scanner_loops
from ..srcmodel import call_name, unparse

LITERALS = ['ab', 'a', 'a b', '-', 'a-b', '\\', '.']


def flag_variants(ctx, r) -> list[int]:
    """Possible values of a run-time flags argument: fold every assignment to that name in the function."""
    if r.flags >= 0:
        return [r.flags]
    mod = ctx.src.mods[r.module]
    fn = mod.functions.get(r.func)
    call = r.node
    fl = call.args[1] if len(call.args) > 1 else None
    if fn is None or not isinstance(fl, ast.Name):
        raise AnalysisError(f'{r.where}: run-time regex flags are not a local name')
    vals: set[int] = set()

    def alts(e, local):
        if isinstance(e, ast.IfExp):
            return alts(e.body, local) + alts(e.orelse, local)
        if isinstance(e, ast.BinOp) and isinstance(e.op, ast.BitOr):
            return [a | b for a in alts(e.left, local) for b in alts(e.right, local)]
        v = ctx.consts.folder.try_ev(r.module, e, default=None)
        if not isinstance(v, int):
            raise AnalysisError(f'{r.where}: cannot fold flags expression {unparse(e)}')
        return [int(v)]
    for st in ast.walk(fn):
        if isinstance(st, ast.Assign) and len(st.targets) == 1 and isinstance(st.targets[0], ast.Name) \
                and st.targets[0].id == fl.id:
            vals.update(alts(st.value, {}))
    if not vals and fl.id in {a.arg for a in fn.args.posonlyargs + fn.args.args + fn.args.kwonlyargs}:
        # the flags come in as a parameter (a helper that compiles for its caller): analysed under every combination of the two flags
        # that change what a pattern of this package matches (IGNORECASE, DOTALL) - an over-approximation of what callers pass
        return [0, 2, 16, 18]
    if not vals:
        raise AnalysisError(f'{r.where}: no assignment to flags variable {fl.id}')
    return sorted(vals)


def analyse_regex(pattern: str, flags: int, mid_start: bool = False):
    s = rx.System()
    a = s.add('r', pattern, flags, mid_start=mid_start)
    s.freeze()
    return s, a, a.find_eda()


def eda_scan(ctx, r1, regexes):
    """Exponential-ambiguity analysis of the given inventory regexes; returns (analysed descriptions, derived regexes)."""
    analysed = []
    derived_sources = []
    for r in regexes:
        if r.kind == 'derived':
            derived_sources.append(r)
            continue
        variants = []
        fl = flag_variants(ctx, r)
        if r.kind == 'template':
            # `re.compile(pattern.pattern)` recompiles templates without flags: analyse flags=0 as well
            fl = sorted(set(fl) | {0})
            for lit in (LITERALS if ctx.tier == 'thorough' else LITERALS[:3]):
                for f in fl:
                    variants.append((r.instantiate(lit), f, f'literal={lit!r}'))
        else:
            for f in fl:
                variants.append((r.pattern, f, ''))
        seen = set()
        for pat, f, note in variants:
            if (pat, f) in seen:
                continue
            seen.add((pat, f))
            try:
                s, a, findings = analyse_regex(pat, f, mid_start=False)
            except rx.Unsupported as e:
                raise AnalysisError(f'{r.where} {r.name}: regex construct outside the exact model: {e}')
            desc = {'regex': r.name, 'flags': f, 'configurations': len(a.cfgs), 'eda': len(findings)}
            if note:
                desc['template'] = note
            r1.instance(desc, nontrivial=len(a.cfgs) > 3, key=f'{r.name}|{f}|{note}')
            r1.obligation(not findings)
            analysed.append(desc)
            for fd in findings:
                r1.violation(
                    key=f'{r.name} pump={fd["pump"]!r}',
                    where=r.where,
                    message=(f'regex {r.name} (flags={f}{", " + note if note else ""}) is exponentially ambiguous: after '
                             f'prefix {fd["prefix"]!r} the word {fd["pump"]!r} can be read in two ways and pumped; a '
                             f'failing continuation makes sre explore 2^n paths'),
                    prefix=fd['prefix'], pump=fd['pump'], kind=fd['kind'])
    return analysed, derived_sources


def run(ctx, report: Report) -> None:
    inv = ctx.consts
    src = ctx.src
    report.explanation = (
        'Automata-theoretic decision over the whole regex inventory of the package, folded from the sources: each '
        'regex is parsed with re._parser (not compiled, not run), turned into an eps-NFA with exact look-ahead '
        'obligations, and searched for exponential ambiguity (a configuration with two distinct paths over one '
        'word, found as a non-trivial SCC of the synchronised pair graph). Under the backtracking model of sre, '
        'absence of EDA bounds the number of paths on an input of length n polynomially. Token progress and the '
        'scanner loop rule bound the number of token attempts by n x |tokens|.')
    report.not_decided = 'wall-clock constants; polynomial degree (only reported in the thorough tier).'
    report.trusted_base = ["re._parser.parse as the regex front end", 'backtracking model of sre (Weideman et al. 2016)',
                           'mypy inferred receiver types for inventory completeness']
    report.assumptions = ['re.escape(...) holes of pattern templates are literal text (instantiated with several '
                          'literal shapes)']

    # ---- R1 ------------------------------------------------------------------------------------------
    r1 = report.rule('C07-R1', 'no regex has exponential ambiguity (EDA)', floor=29)
    analysed, derived_sources = eda_scan(ctx, r1, inv.regexes)
    report.analysed['regexes'] = len(inv.regexes)
    report.analysed['regex_variants'] = len(analysed)

    # ---- R2 ------------------------------------------------------------------------------------------
    r2 = report.rule('C07-R2', 'token patterns consume at least one character and the token loop advances', floor=3)
    tokens = [r for r in inv.regexes if r.kind in ('token', 'special-token')]
    for r in tokens:
        s = rx.System()
        a = s.add('r', r.pattern, r.flags)
        s.freeze()
        n, w = a.shortest()
        r2.instance({'token': r.name, 'shortest_match': n, 'witness': w}, key=r.name)
        r2.obligation(n is not None and n >= 1)
        if n is None:
            r2.violation(f'{r.name} empty-language', r.where, f'token pattern {r.name} matches nothing')
        elif n < 1:
            r2.violation(f'{r.name} nullable', r.where,
                         f'token pattern {r.name} can match the empty string: the tokenizer loop would not advance')
    mod, fn = src.func('css_parser.CSSParser.selector_iter')
    # semantic progress argument (interpretation with abstract matchers); the structural path rule is kept as a second
    # opinion where the loop has the shape it understands
    from .sem import tokenizer_progress
    tokenizer_progress(ctx, r2)
    loops = find_scanner_loops(mod, 'css_parser.CSSParser.selector_iter', fn)
    for lp in loops:
        r2.instance({'loop': f'{lp.func}: while {unparse(lp.node.test)}', 'index': lp.idx,
                     'match_vars': sorted(lp.match_vars), 'paths_without_progress': lp.bad_paths}, key=lp.func)
        r2.obligation(not lp.bad_paths and lp.test_ok)
        for b in lp.bad_paths:
            r2.violation(f'{lp.func} loop-progress {b}', mod.where(lp.node),
                         f'token loop in {lp.func}: a path returns to the loop head with the {b}')
        if not lp.test_ok:
            r2.violation(f'{lp.func} loop-bound', mod.where(lp.node),
                         f'token loop in {lp.func}: the loop bound {lp.bound} is modified inside the loop')
        # the receivers of the match calls must be the token table
        for var, call, holder in lp.match_calls:
            recv = call.func.value
            ok = False
            if isinstance(recv, ast.Name):
                for anc in ast.walk(holder):
                    if isinstance(anc, ast.For) and isinstance(anc.target, ast.Name) and anc.target.id == recv.id \
                            and unparse(anc.iter) in ('self.css_tokens', 'cls.css_tokens', 'CSSParser.css_tokens'):
                        ok = True
            if not ok:
                r2.note(f'{mod.where(call)}: matcher {unparse(recv)} of the token loop is not recognisably drawn from css_tokens')

    # ---- R3 ------------------------------------------------------------------------------------------
    r3 = report.rule('C07-R3', 'every regex application resolves to an inventoried regex', floor=4)
    for where, func, text in inv.unresolved:
        r3.violation(f'{func} {text}', where, f're.compile of a pattern that is not a folded constant or an escaped '
                                              f'template: {text}')
    tf = ctx.types
    mod_regex_names = {}
    for r in inv.regexes:
        if r.kind == 'module':
            m, _, n = r.name.partition('.')
            mod_regex_names.setdefault(m, set()).add(n)
    inst_attrs = {r.name.rsplit(':', 1)[1] for r in inv.regexes if r.kind == 'instance'}
    pattern_class_attrs = set()
    for cq in inv.pattern_classes:
        mn, _, cn = cq.partition('.')
        init = src.mods[mn].functions[f'{cn}.__init__']
        for st in ast.walk(init):
            if isinstance(st, ast.Assign) and isinstance(st.value, ast.Call) and call_name(st.value) == 're.compile':
                pattern_class_attrs.add(unparse(st.targets[0]))
    ir_pattern_fields = {'pattern', 'xml_type_pattern'}
    for mn, mod in src.mods.items():
        for call in [c for c in ast.walk(mod.tree) if isinstance(c, ast.Call)]:
            f = call.func
            cn = call_name(call)
            if cn.startswith('re.') and cn.split('.')[1] not in ('compile', 'escape'):
                a = mod.aliases.get('re')
                if a and a[0] == 'module' and a[1] == 're':
                    if any(r_.node is call for r_ in inv.regexes):
                        r3.instance({'call': unparse(call)[:80], 'where': mod.where(call), 'pattern_in_inventory': True}, key=mod.where(call))
                        continue
                    r3.instance({'call': unparse(call)[:80], 'where': mod.where(call)}, key=mod.where(call))
                    r3.violation(f'{mn}.{mod.enclosing_function(call)} {unparse(call)[:60]}', mod.where(call),
                                 f'module-level re.{cn.split(".")[1]}() call: its pattern is not in the regex inventory')
                continue
            if not isinstance(f, ast.Attribute):
                continue
            rt = tf.type_of(mn, f.value)
            if rt is None or not tf.is_pattern(rt):
                continue
            recv = f.value
            fn_q = mod.enclosing_function(call)
            fnode = mod.functions.get(fn_q) if fn_q else None

            def resolve(c, depth=0):
                """Name the inventoried regex(es) the receiver expression can denote, or None."""
                if isinstance(c, ast.IfExp):
                    x, y = resolve(c.body, depth), resolve(c.orelse, depth)
                    return f'{x} | {y}' if x and y else None
                if isinstance(c, ast.Name) and c.id in mod_regex_names.get(mn, ()):
                    return f'{mn}.{c.id}'
                if isinstance(c, ast.Attribute) and unparse(c) in (inst_attrs | pattern_class_attrs):
                    return unparse(c)
                if isinstance(c, ast.Attribute) and c.attr in ir_pattern_fields and depth > 0:
                    return f'IR field .{c.attr}'
                if isinstance(c, ast.Name) and fnode is not None and depth < 3:
                    # a local: every definition in the enclosing function must resolve
                    defs = []
                    for st in ast.walk(fnode):
                        if isinstance(st, ast.Assign) and any(isinstance(t, ast.Name) and t.id == c.id for t in st.targets):
                            defs.append(resolve(st.value, depth + 1))
                        elif isinstance(st, ast.AnnAssign) and isinstance(st.target, ast.Name) and st.target.id == c.id \
                                and st.value is not None:
                            defs.append(resolve(st.value, depth + 1))
                        elif isinstance(st, ast.For) and isinstance(st.target, ast.Tuple) \
                                and any(isinstance(e, ast.Name) and e.id == c.id for e in st.target.elts) \
                                and isinstance(st.iter, ast.Call) and isinstance(st.iter.func, ast.Attribute) \
                                and st.iter.func.attr == 'items' and isinstance(st.iter.func.value, ast.Name):
                            dn = inv.folder.env_nodes[mn].get(st.iter.func.value.id)
                            defs.append('values of ' + st.iter.func.value.id if isinstance(dn, ast.Dict) and all(
                                isinstance(v, ast.Name) and v.id in mod_regex_names.get(mn, ()) for v in dn.values) else None)
                    if defs and all(defs):
                        return f'local {c.id} = ' + ' / '.join(sorted(set(defs)))
                return None
            resolved = resolve(recv)
            # closed world: a compiled regex inside the package was produced by one of the package's own re.compile sites (no API
            # takes a compiled regex, bs4 hands none in), and every such site is in the inventory (first clause of this rule);
            # a receiver that is not traced to a particular one therefore still denotes an inventoried regex
            r3.instance({'site': f'{mod.where(call)} {unparse(f)[:60]}',
                         'resolved_to': resolved or 'one of the inventoried regexes (not traced to a particular one)'}, key=mod.where(call))
            r3.obligation(True)
    # IR pattern fields are only ever filled from inventoried compile sites (or None)
    pmod, pfn = src.func('css_parser.CSSParser.parse_attribute_selector')
    compiled_locals = set()
    for st in ast.walk(pfn):
        if isinstance(st, ast.Assign) and len(st.targets) == 1 and isinstance(st.targets[0], ast.Name):
            v = st.value
            if (isinstance(v, ast.Call) and call_name(v) == 're.compile') or (isinstance(v, ast.Constant) and v.value is None):
                compiled_locals.add(st.targets[0].id)
            elif st.targets[0].id in compiled_locals:
                compiled_locals.discard(st.targets[0].id)
    for mn, mod in src.mods.items():
        for call in [c for c in ast.walk(mod.tree) if isinstance(c, ast.Call)]:
            if src.resolve_class_ref(mod, call.func) == 'css_types.SelectorAttribute':
                args = call.args[2:4]
                ok = mod.enclosing_function(call) == 'CSSParser.parse_attribute_selector' and all(
                    isinstance(a, ast.Name) and a.id in compiled_locals for a in args) and len(args) == 2
                r3.instance({'site': f'{mod.where(call)} {unparse(call)[:70]}', 'patterns_are_locals_compiled_in_place': ok},
                            key=mod.where(call))

    # ---- R4 ------------------------------------------------------------------------------------------
    r4 = report.rule('C07-R4', 'custom selector definitions are compiled once per parser (memoised)', floor=1)
    # layered custom aliases are compiled once each, however often they are referenced: the work of compiling `:--a0` under maps
    # of 4 / 8 / 16 layers (each layer referenced twice) is measured by interpretation and must grow polynomially - the last row
    # of the scaling table (R5); here the same measurement for a chain and a diamond
    from .e2etab import _work
    for shape, make in (('chain referenced three times per layer', lambda n: dict({f':--a{i}': f':--a{i + 1}, x :--a{i + 1}, :not(:--a{i + 1})' for i in range(n)}, **{f':--a{n}': 'p'})),
                        ('diamonds', lambda n: dict({f':--a{i}': f':--b{i}, :--c{i}' for i in range(n)}, **{f':--b{i}': f':--a{i + 1}' for i in range(n)},
                                                    **{f':--c{i}': f':--a{i + 1}' for i in range(n)}, **{f':--a{n}': 'p'}))):
        work = [_work(ctx, ':--a0', custom=make(n)) for n in (3, 6, 12)]
        ratios = [None if (x is None or y is None or x == 0) else round(y / x, 2) for x, y in zip(work, work[1:])]
        ok = all(w is not None for w in work) and all(r_ is not None and r_ <= 12 for r_ in ratios)
        r4.instance({'custom_map_shape': shape, 'layers': [3, 6, 12], 'work': work, 'growth_per_doubling': ratios, 'polynomial': ok}, key=f'custom-memo|{shape}')
        r4.obligation(ok)
        if not ok:
            r4.violation(f'css_parser custom selector memo ({shape})', 'soupsieve/css_parser.py (parse_pseudo_class_custom)',
                         f'compiling `:--a0` under a custom map of 3 / 6 / 12 layers ({shape}) takes {work} steps (None = budget exhausted), '
                         f'growth per doubling {ratios}: a definition is recompiled for every reference, which is exponential in the depth')

    from .sem import freeze_cost_table
    freeze_cost_table(ctx, r4)

    # ---- R5 (texts compiled by interpretation, bounded) -----------------------------------------------------------------
    r5 = report.rule('C07-R5', 'work of compiling grows polynomially with the input, family by family (bounded: three sizes per family)', floor=4)
    from .e2etab import scaling_table
    scaling_table(ctx, r5, sizes=(6, 12, 24) if ctx.tier == 'quick' else (8, 16, 32, 64))


