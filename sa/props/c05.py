"""C05 - selector lists and logical pseudo-classes form a Boolean algebra (decided clauses only).

R1  list-level facts depend only on the list's own parse flags (no alternative changes the evaluation context of
    its siblings)
R2  the alternative loop is an OR of ANDs xor is_not: `match = is_not` first, `match = not is_not; break` last
R3  the HTML-only context swap is restored per activation and the gate depends on the document only
R4  list flags by pseudo-class (:not -> negated, :has -> relative, :is/:where -> forgiving, :matches -> plain)
R5  a comma resets all per-alternative parser state; the implied universal selector has one guard
"""
from __future__ import annotations

import ast

from .. import miniev
from ..core import AnalysisError, Report
from ..srcmodel import call_name, unparse, walk_no_nested


def run(ctx, report: Report) -> None:
    src, inv = ctx.src, ctx.consts
    report.explanation = (
        'The laws rest on a skeleton that is visible in the code: a list is evaluated as OR over alternatives of an AND '
        'over checks, xor is_not; every alternative is parsed and evaluated in a context that depends on the list only. '
        'R1 is a flag-scope rule on parse_selectors (what may define the values frozen into SelectorList), R2 a shape '
        'rule on the alternative loop, R3 the save/restore path rule and the document-level gate, R4 a decision table of '
        'parse_pseudo_open, R5 the comma-reset path rule shared with C01.')
    report.not_decided = 'the algebraic laws as set equalities over all documents.'
    report.trusted_base = ['ast']
    pmod, ps = src.func('css_parser.CSSParser.parse_selectors')
    mmod = src.mod('css_match')

    # ---- R1 ----------------------------------------------------------------------------------------------
    r1 = report.rule('C05-R1', 'list-level facts depend only on the list\'s parse flags', floor=15)
    from .sem import list_facts_table
    list_facts_table(ctx, r1)

    # ---- R2 ----------------------------------------------------------------------------------------------
    r2 = report.rule('C05-R2', 'alternative loop: OR of ANDs xor is_not', floor=19)
    _, ms = src.func('css_match.CSSMatch.match_selectors')
    from .sem import alternatives_table
    alternatives_table(ctx, r2)

    # ---- R3 ----------------------------------------------------------------------------------------------
    r3 = report.rule('C05-R3', 'HTML-only context is restored per activation; the gate is document-level', floor=22)
    from .sem import context_restore_table
    n_before_ctx = len(r3.findings)
    context_restore_table(ctx, r3)
    table_clean = len(r3.findings) == n_before_ctx
    from .c04 import swap_restore
    attrs, problems = swap_restore(mmod, ms)
    r3.instance({'attributes_swapped': sorted(attrs), 'problems': [f'{a}: {st}' for a, st, _, _ in problems]}, key='swap')
    structural_ok = not problems and attrs >= {'namespaces', 'iframe_restrict'}
    r3.obligation(structural_ok or table_clean)
    if not structural_ok and table_clean:
        # written with helper methods / a context object: the table above (plain and nested HTML-only lists, every way out of the chain
        # of checks) shows that the caller's namespace map and iframe policy are back after the call
        r3.note('the save / restore of namespaces and iframe_restrict in match_selectors is not recognised structurally on this tree; decided by '
                'the context table')
    elif not structural_ok:
        seen = set()
        for a, st, kind, line in problems:
            if (a, st) not in seen:
                seen.add((a, st))
                r3.violation(f'match_selectors self.{a} {st}', mmod.where(ms),
                             f'match_selectors: self.{a} is {st.replace("-", " ")}: the caller\'s namespace map / iframe restriction is not '
                             f'restored after an HTML-only list, so the remaining alternatives (and elements) are evaluated in the wrong context')
        if not attrs >= {'namespaces', 'iframe_restrict'}:
            r3.violation('match_selectors swap missing', mmod.where(ms),
                         f'match_selectors no longer swaps namespaces and iframe_restrict in its own activation (found {sorted(attrs)})')
    from ..boolpaths import BoolDomain
    from ..pathwalk import Walker

    class Probe(BoolDomain):
        def __init__(self):
            self.entered = False

        def stmt(self, state, node):
            if isinstance(node, ast.Assign) and isinstance(node.targets[0], ast.Name) and node.targets[0].id == 'is_html':
                return state
            return super().stmt(state, node)

        def for_header(self, state, node):
            self.entered = True
            return super().for_header(state, node)
    for lst_html, doc_html, want in ((False, False, True), (False, True, True), (True, True, True), (True, False, False)):
        d = Probe()
        Walker(d).block(ms.body, {frozenset({'var:is_html': lst_html, 'self.is_html': doc_html}.items())})
        ok = d.entered == want
        r3.instance({'list_html_only': lst_html, 'document_html': doc_html, 'alternatives_evaluated': d.entered, 'expected': want},
                    key=f'gate|{lst_html}|{doc_html}')
        r3.obligation(ok)
        if not ok:
            r3.violation(f'match_selectors gate {lst_html}/{doc_html}', mmod.where(ms),
                         f'match_selectors {"evaluates" if d.entered else "skips"} the alternatives of a list with is_html={lst_html} '
                         f'in a document with is_html={doc_html}; the gate must be `not is_html or self.is_html`')

    from .sem import list_context_table
    list_context_table(ctx, r3)

    # ---- R4 ----------------------------------------------------------------------------------------------
    r4 = report.rule('C05-R4', 'list flags by pseudo-class', floor=1)
    _, po = src.func('css_parser.CSSParser.parse_pseudo_open')
    F = {k: inv.const('css_parser', k) for k in ('FLG_PSEUDO', 'FLG_OPEN', 'FLG_NOT', 'FLG_RELATIVE', 'FLG_FORGIVE')}
    want = {':not': F['FLG_NOT'], ':has': F['FLG_RELATIVE'], ':is': F['FLG_FORGIVE'], ':where': F['FLG_FORGIVE'], ':matches': 0}
    complex_names = {n for n in inv.const('css_parser', 'PSEUDO_COMPLEX') if 'contains' not in n}
    if set(want) != complex_names:
        r4.violation('PSEUDO_COMPLEX names', pmod.where(po), f'PSEUDO_COMPLEX lists {sorted(complex_names)}, the flag table knows {sorted(want)}')
    from ..interp import Obj, Raised, call_function
    from ..tables import fresh_sel, match_obj, parser_obj
    for nm, extra in sorted(want.items()):
        rec = {}
        nested = Obj(_cls='css_types.SelectorList', _name='NESTED', selectors=(), is_not=False, is_html=True, __iter__=[], __len__=0)

        def parse_selectors(it_, index=0, flags=0, _r=rec, _n=nested):
            _r['flags'], _r['index'] = flags, index
            return _n
        sel = fresh_sel()
        m = match_obj({'name': nm, 'open': '('}, start=3, end=9)
        try:
            # through parse_pseudo_class, the way the parser reaches it
            res = call_function(ctx, 'css_parser.CSSParser.parse_pseudo_class', [sel, m, False, iter(()), False], {},
                                {'css_parser.CSSParser.parse_selectors': parse_selectors}, parser_obj())
        except Raised as e:
            res = f'raises {e.exc_name}'
        except miniev.Unsupported as e:
            raise AnalysisError(f'parse_pseudo_class/parse_pseudo_open: outside the evaluable fragment: {e}')
        got = rec.get('flags')
        exp = F['FLG_PSEUDO'] | F['FLG_OPEN'] | extra
        appended = len(sel.get('selectors')) == 1 and sel.get('selectors')[0] is nested
        marker = res[1] if isinstance(res, (tuple, list)) and len(res) == 2 else None
        ok = got == exp and rec.get('index') == 9 and appended and marker is False and (isinstance(res, (tuple, list)) and res[0] is True)
        r4.instance({'pseudo_class': nm, 'flags': got, 'expected': exp, 'nested_list_appended': appended, 'resume_index': rec.get('index'),
                     'html_only_marker_of_the_enclosing_list': marker}, key=nm)
        r4.obligation(ok)
        if got != exp:
            r4.violation(f'parse_pseudo_open {nm}', pmod.where(po),
                         f'{nm}(...) is parsed with flags {got}, expected {exp:#x} (PSEUDO|OPEN plus NOT for :not, RELATIVE for :has, '
                         f'FORGIVE for :is/:where, nothing for :matches)')
        elif not ok:
            r4.violation(f'parse_pseudo_open {nm} result', pmod.where(po),
                         f'{nm}(<an HTML-only list>) at offsets 3..9: the handler returns {res!r}, appends the nested list: {appended}, '
                         f'resumes at {rec.get("index")}; expected (True, False), the nested list appended once, parsing resumed at 9. The '
                         f'HTML-only marker of a nested list must not spread to the enclosing list (it would be evaluated under the '
                         f'internal prefix map and iframe restriction, and skipped in XML)')

    # ---- R5 ----------------------------------------------------------------------------------------------
    r5 = report.rule('C05-R5', 'comma resets per-alternative state; implied universal selector (parsed token sequences)', floor=5)
    from .sem import comma_tables, implied_universal_tables
    comma_tables(ctx, r5)
    implied_universal_tables(ctx, r5)
    from .sem import single_token_table
    single_token_table(ctx, r5)

    # the laws quantify over lists evaluated with ONE matcher: an answer must not depend on what was evaluated before
    from .sem import default_button_table, lang_memo_table
    default_button_table(ctx, r3)
    lang_memo_table(ctx, r3)

    # ---- R6 (texts compiled by interpretation, bounded) -----------------------------------------------------------------
    r6 = report.rule('C05-R6', 'a list compiles to the concatenation of its alternatives, also inside :is() / :where() / :not() (bounded)', floor=1)
    from .e2etab import list_union_table
    list_union_table(ctx, r6, deep=(ctx.tier == 'thorough'))

    # ---- R7 (the whole pipeline by interpretation, bounded) --------------------------------------------------------------
    r7 = report.rule('C05-R7', 'union / complement / intersection laws on reference trees (whole pipeline; bounded)', floor=90)
    from .e2ematch import boolean_algebra_table
    boolean_algebra_table(ctx, r7, deep=(ctx.tier == 'thorough'))
    from .e2ematch import long_list_table
    long_list_table(ctx, r7, deep=(ctx.tier == 'thorough'))
    from .e2ematch import state_algebra_table
    state_algebra_table(ctx, r7, deep=(ctx.tier == 'thorough'))

    # the logical pseudo-classes under every spelling of their names (a spelling that loses the negation / forgiving / relative
    # flag turns :not() into :is())
    from .e2etab import equivalent_spellings_table
    equivalent_spellings_table(ctx, r6, only=(':not', ':is', ':has', 'pseudo-class name'))

    from .e2ematch import default_namespace_state_table
    default_namespace_state_table(ctx, r7)





