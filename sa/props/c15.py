"""C15 - compiled selectors are immutable values; the pattern cache is transparent (decided clauses only).

R1  the mutation surface is closed (raising __setattr__/__delattr__, no mutators on the maps, maps copy their input)
R2  one field list, four users: __slots__ = super().__init__ keywords = __init__ parameter order; pickling re-runs
    the constructor with the slots minus _hash; __eq__/__hash__ range over the same list; every class is registered
R3  contents are frozen (tuple(...) of iterables) and the map hash is order independent
R4  the cache key is complete and the compiled-object pass-through rejects every extra argument
"""
from __future__ import annotations

import ast

from .. import boolpaths
from ..core import AnalysisError, Report
from ..srcmodel import call_name, unparse, walk_no_nested

MUTATORS = {'__setitem__', '__delitem__', 'update', 'pop', 'popitem', 'setdefault', 'clear', '__ior__'}


def raises_unconditionally(fn: ast.FunctionDef) -> bool:
    body = [st for st in fn.body if not (isinstance(st, ast.Expr) and isinstance(st.value, ast.Constant))]
    return len(body) >= 1 and isinstance(body[0], ast.Raise)


def slots_of(inv, modname, cls: ast.ClassDef):
    for st in cls.body:
        tgt = st.targets[0] if isinstance(st, ast.Assign) else (st.target if isinstance(st, ast.AnnAssign) else None)
        if tgt is not None and isinstance(tgt, ast.Name) and tgt.id == '__slots__' and st.value is not None:
            v = inv.folder.try_ev(modname, st.value, default=None)
            if isinstance(v, tuple):
                return list(v)
    return None


def run(ctx, report: Report) -> None:
    src, inv = ctx.src, ctx.consts
    report.explanation = (
        'Table-agreement and effect rules over css_types / css_match.SoupSieve / css_parser._cached_css_compile / '
        'soupsieve.compile: the mutation surface, the single field list shared by constructor, equality, hash and '
        'pickle reducer, freezing of contents, and completeness of the cache key incl. the is-not-None discipline of '
        'the guards.')
    report.not_decided = ('"equal exactly when compiled from equal inputs" as a statement about values, equality after '
                          'pickle/copy as observed results, LRU contents over call histories.')
    report.trusted_base = ['ast', 'functools.lru_cache keys on all positional arguments']
    tmod = src.mod('css_types')
    imm = 'css_types.Immutable'
    classes = [imm] + src.subclasses(imm)
    if len(classes) < 9:
        raise AnalysisError(f'only {len(classes)} Immutable classes found (anchor vanished)')

    # ---- R1 --------------------------------------------------------------------------------------------------
    r1 = report.rule('C15-R1', 'the mutation surface is closed', floor=2)
    for meth in ('__setattr__', '__delattr__'):
        fnq = f'Immutable.{meth}'
        fn = tmod.functions.get(fnq)
        ok = fn is not None and raises_unconditionally(fn)
        r1.instance({'class': 'Immutable', 'method': meth, 'raises_unconditionally': ok}, key=fnq)
        r1.obligation(ok)
        if not ok:
            r1.violation(f'css_types.Immutable.{meth}', tmod.where(fn) if fn else tmod.where(tmod.classes['Immutable']),
                         f'Immutable.{meth} does not unconditionally raise: attributes of a compiled (and cached) '
                         f'selector can be {"deleted" if meth == "__delattr__" else "rebound"}')
    for c in classes[1:]:
        mn, _, cn = c.partition('.')
        mod = src.mods[mn]
        over = [m for m in ('__setattr__', '__delattr__', '__hash__', '__eq__', '__ne__') if f'{cn}.{m}' in mod.functions]
        r1.instance({'class': c, 'overrides': over}, key=c)
        r1.obligation(not over)
        for m in over:
            r1.violation(f'{c}.{m} override', mod.where(mod.functions[f'{cn}.{m}']),
                         f'{c} overrides {m} of Immutable: immutability / structural equality no longer come from one place')
    idict = 'css_types.ImmutableDict'
    for c in [idict] + src.subclasses(idict):
        mn, _, cn = c.partition('.')
        mod = src.mods[mn]
        bad = sorted(m for m in MUTATORS if f'{cn}.{m}' in mod.functions)
        r1.instance({'class': c, 'mutators': bad}, key=c + '-mut')
        r1.obligation(not bad)
        for m in bad:
            r1.violation(f'{c}.{m} mutator', mod.where(mod.functions[f'{cn}.{m}']), f'{c} defines the mutator {m}')
    init = tmod.functions.get('ImmutableDict.__init__')
    if init is None:
        raise AnalysisError('ImmutableDict.__init__ not found')
    arg = init.args.args[1].arg
    stores = [st for st in walk_no_nested(init) if isinstance(st, ast.Assign) and unparse(st.targets[0]) == 'self._d']
    if not stores:
        raise AnalysisError('ImmutableDict.__init__: store to self._d not found')

    def fresh(e):
        if isinstance(e, ast.IfExp):
            return fresh(e.body) and fresh(e.orelse)
        return (isinstance(e, ast.Call) and call_name(e) == 'dict') or isinstance(e, (ast.Dict, ast.DictComp))
    for st in stores:
        ok = fresh(st.value)
        r1.instance({'ImmutableDict.__init__': unparse(st), 'stores_a_fresh_copy': ok}, key='copy')
        r1.obligation(ok)
        if not ok:
            r1.violation('css_types.ImmutableDict.__init__ copy', tmod.where(st),
                         f'ImmutableDict keeps `{unparse(st.value)}`: on some path that is the caller\'s own mapping, so '
                         f'the namespaces/custom maps inside compiled selectors and cache keys alias mutable user state')

    # ---- R2 --------------------------------------------------------------------------------------------------
    r2 = report.rule('C15-R2', 'one field list: slots = constructor keywords = parameter order; pickle via constructor', floor=5)
    # which classes the module registers for pickling/copying: the module-level statements that mention pickle_register are
    # interpreted with a recording stand-in (a call per class, a loop over a display or over a table of classes, ...)
    from ..interp import Interp, PkgClass, Raised as _Raised
    from ..miniev import Unsupported as _Unsupported
    registered = set()

    def rec_register(cls_, *a_, **k_):
        if isinstance(cls_, PkgClass):
            registered.add(cls_.qual)
    for mn, mod in src.mods.items():
        for st in mod.tree.body:
            if isinstance(st, (ast.FunctionDef, ast.ClassDef, ast.Import, ast.ImportFrom)):
                continue
            if not any(isinstance(n, ast.Call) and call_name(n).split('.')[-1] == 'pickle_register' for n in ast.walk(st)):
                continue
            it = Interp(ctx, mn, None, {}, {'pickle_register': rec_register, f'{mn}.pickle_register': rec_register,
                                              'css_types.pickle_register': rec_register}, shared={'steps': 0})
            try:
                it.stmt(st)
            except _Raised as e:
                raise AnalysisError(f'{mod.where(st)}: the registration statement raises {e.exc_name} when interpreted')
            except _Unsupported as e:
                raise AnalysisError(f'{mod.where(st)}: registration statement outside the evaluable fragment: {e}')
    for c in classes[1:]:
        mn, _, cn = c.partition('.')
        mod = src.mods[mn]
        cls = mod.classes[cn]
        problems = []
        if c not in registered:
            problems.append('is not registered with pickle_register')
        r2.instance({'class': c, 'registered_for_pickle_and_copy': c in registered}, key=c)
        r2.obligation(not problems)
        for p in problems:
            r2.violation(f'{c} {p[:60]}', mod.where(cls), f'{c} {p}')
    # a class that defines __slots__ (itself or through a base of the package) can only be pickled with protocols 0 and 1 when it
    # is registered with copyreg or defines __reduce__ / __reduce_ex__ / __getstate__: every class whose instances hang off a
    # compiled selector (the css_types classes, SoupSieve) must satisfy that
    carried = [f'css_types.{cn}' for cn in src.mods['css_types'].classes] + (['css_match.SoupSieve'] if 'SoupSieve' in src.mods['css_match'].classes else [])
    for c in carried:
        mro = src.mro(c)
        slotted = [b for b in mro if any(isinstance(st, ast.Assign) and any(isinstance(t, ast.Name) and t.id == '__slots__' for t in st.targets)
                                         for st in src.cls(b)[1].body)]
        has_reduce = any(src.find_method(b, m_) for b in mro[:1] + mro[1:] for m_ in ('__reduce__', '__reduce_ex__', '__getstate__'))
        ok = not slotted or c in registered or has_reduce
        r2.instance({'class': c, 'defines_or_inherits___slots__': bool(slotted), 'registered': c in registered, 'own_reducer': has_reduce}, key=f'slots|{c}')
        r2.obligation(ok)
        if not ok:
            mn_, _, cn_ = c.partition('.')
            r2.violation(f'{c} has __slots__ but no reducer', src.mods[mn_].where(src.mods[mn_].classes[cn_]),
                         f'{c} gets __slots__ from {slotted[0]} but is neither registered with pickle_register nor defines __reduce__ / '
                         f'__getstate__: pickle protocols 0 and 1 refuse such objects (TypeError), so a compiled selector that carries one - '
                         f'a namespace or custom map - can no longer be pickled with them')
    from .sem import immutable_table
    immutable_table(ctx, r2, classes[1:])
    own_reducer_rule(ctx, r2, carried)

    # ---- R3 --------------------------------------------------------------------------------------------------
    r3 = report.rule('C15-R3', 'contents are frozen; map hash is order independent', floor=6)
    for c in classes[1:]:
        mn, _, cn = c.partition('.')
        mod = src.mods[mn]
        init = mod.functions.get(f'{cn}.__init__')
        if init is None:
            continue
        ann = {a.arg: unparse(a.annotation) if a.annotation else '' for a in init.args.args[1:]}
        for sup in [x for x in walk_no_nested(init) if isinstance(x, ast.Call) and call_name(x) == 'super().__init__']:
            for k in sup.keywords:
                v = k.value
                vals = [v.body, v.orelse] if isinstance(v, ast.IfExp) else [v]
                frozen = True
                for x in vals:
                    if isinstance(x, ast.Name) and x.id in ann:
                        a = ann[x.id]
                        if a.startswith(('Iterable', 'list', 'Sequence', 'dict', 'set')):
                            frozen = False
                    elif isinstance(x, ast.Call) and call_name(x) == 'tuple':
                        pass
                    elif isinstance(x, ast.Tuple) and not x.elts:
                        pass
                    else:
                        frozen = False
                r3.instance({'class': c, 'field': k.arg, 'value': unparse(v), 'frozen': frozen}, key=f'{c}.{k.arg}')
                r3.obligation(frozen)
                if not frozen:
                    r3.violation(f'{c}.{k.arg} not frozen', mod.where(sup),
                                 f'{c}: field {k.arg} is stored as `{unparse(v)}`, which may be a mutable/unhashable '
                                 f'iterable; fields must be immutable parameters or tuple(...) of them')
    hinit = tmod.functions['ImmutableDict.__init__']
    import itertools
    from ..interp import Obj, Raised, call_function
    from ..miniev import Unsupported

    def map_hash(pairs, as_dict):
        """Interpret ImmutableDict.__init__ with hash() and type() replaced by injective stand-ins."""
        me = Obj(_cls='css_types.ImmutableDict', _name='map')
        arg = dict(pairs) if as_dict else list(pairs)
        stubs = {'hash': lambda v: ('hash', v), 'type': lambda v: type(v).__name__,
                 'css_types.ImmutableDict._validate': lambda *a_: None}
        try:
            call_function(ctx, 'css_types.ImmutableDict.__init__', [arg], {}, stubs, me)
        except Raised as e:
            return f'raises {e.exc_name}', False
        except Unsupported as e:
            raise AnalysisError(f'ImmutableDict.__init__: outside the evaluable fragment: {e}')
        if not me.has('_hash') or not me.has('_d'):
            raise AnalysisError('ImmutableDict.__init__ no longer stores _d / _hash (anchor vanished)')
        return me.get('_hash'), me.get('_d') is not arg
    base = [('a', '1'), ('b', '2'), ('c', '1')]
    ref, _ = map_hash(base, False)
    bad = None
    n_orders = 0
    for perm in itertools.permutations(base):
        for as_dict in (False, True):
            h, own = map_hash(list(perm), as_dict)
            n_orders += 1
            if (h != ref or not own) and bad is None:
                bad = (f'the entries given as {"dict" if as_dict else "pairs"} in the order {[k for k, _ in perm]} '
                       + ('hash differently from the order a, b, c' if h != ref else 'are stored without copying'))
    for variant, what in (([('a', '1'), ('b', '2'), ('c', '2')], 'a changed value'), ([('a', '1'), ('b', '2'), ('d', '1')], 'a changed key'),
                          ([('a', '1'), ('b', '2')], 'a missing entry'), ([('a', '2'), ('b', '1'), ('c', '1')], 'two values swapped')):
        h, _ = map_hash(variant, True)
        n_orders += 1
        if h == ref and bad is None:
            bad = f'{what} ({variant} vs {base}) leaves the hash unchanged although the maps are unequal'
    # the same map given as pairs with a repeated key (last one wins, like dict()) and as the resulting dict
    for pairs in ([('a', '1'), ('b', '2'), ('a', '3')], [('a', '1'), ('a', '1')], [('k', 'x'), ('k', 'y'), ('k', 'z')]):
        h_pairs, _ = map_hash(pairs, False)
        h_dict, _ = map_hash(list(dict(pairs).items()), True)
        n_orders += 1
        if h_pairs != h_dict and bad is None:
            bad = (f'the pairs {pairs} and the equal dict {dict(pairs)} hash differently (the hash must be computed from the stored '
                   f'mapping, not from the raw argument)')
    ok = bad is None
    r3.instance({'ImmutableDict._hash': 'interpreted on every order of three entries (pairs and dict) and four unequal maps',
                 'cases': n_orders, 'order_independent_and_content_dependent': ok}, key='maphash')
    r3.obligation(ok)
    if not ok:
        r3.violation('css_types.ImmutableDict.__init__ hash', tmod.where(hinit),
                     f'ImmutableDict._hash: {bad}: equal maps must hash equally whatever their order (one cache entry, equal '
                     f'compiled selectors) and the hash must be computed from the own copy of keys and values')
    for c in [idict] + src.subclasses(idict):
        mn, _, cn = c.partition('.')
        has_eq = f'{cn}.__eq__' in src.mods[mn].functions
        has_hash = f'{cn}.__hash__' in src.mods[mn].functions or c != idict
        r3.instance({'class': c, 'defines___eq__': has_eq}, key=c + '-eq')

    # ---- R4 --------------------------------------------------------------------------------------------------
    r4 = report.rule('C15-R4', 'cache key completeness and pass-through guards', floor=14)
    imod, cfn = src.func('__init__.compile')
    pmod, cached = src.func('css_parser._cached_css_compile')
    decos = [d for d in cached.decorator_list if isinstance(d, ast.Call) and call_name(d).endswith('lru_cache')]
    maxsize = None
    if decos:
        for k in decos[0].keywords:
            if k.arg == 'maxsize':
                maxsize = inv.folder.try_ev('css_parser', k.value, default=None)
        if decos[0].args:
            maxsize = inv.folder.try_ev('css_parser', decos[0].args[0], default=None)
    ok = bool(decos) and isinstance(maxsize, int) and not isinstance(maxsize, bool) and maxsize > 0
    r4.instance({'_cached_css_compile': 'lru_cache', 'maxsize': maxsize, 'bounded': ok}, key='lru')
    r4.obligation(ok)
    if not ok:
        r4.violation('css_parser._cached_css_compile lru_cache', pmod.where(cached),
                     f'_cached_css_compile is not decorated with lru_cache(maxsize=<positive int>) (maxsize={maxsize}): the '
                     f'pattern cache is unbounded or absent')
    from .sem import compile_table, pattern_handover_table
    compile_table(ctx, r4, r4)
    pattern_handover_table(ctx, r4)
    cparams = [a.arg for a in cached.args.args]
    # the cached function reads nothing but its parameters and module-level constants / functions
    free = set()
    import builtins
    for st in cached.body:
        for n in ast.walk(st):
            if isinstance(n, ast.Name) and isinstance(n.ctx, ast.Load) and n.id not in cparams \
                    and not hasattr(builtins, n.id):
                free.add(n.id)
    local = {t.id for st in ast.walk(cached) if isinstance(st, ast.Assign) for t in st.targets if isinstance(t, ast.Name)}
    for name in sorted(free - local):
        is_func_or_class = name in pmod.functions or name in pmod.classes or name in pmod.aliases
        r4.instance({'free_name': name, 'is_function_class_or_module': is_func_or_class}, key='free-' + name)
        if not is_func_or_class:
            r4.violation(f'css_parser._cached_css_compile free {name}', pmod.where(cached),
                         f'_cached_css_compile reads the module-level variable {name}: the result depends on state that '
                         f'is not part of the cache key')
    # purge
    _, purge = src.func('css_parser._purge_cache')
    ok = any(isinstance(c, ast.Call) and unparse(c.func) == '_cached_css_compile.cache_clear' for c in ast.walk(purge))
    _, ipurge = src.func('__init__.purge')
    ok2 = any(isinstance(c, ast.Call) and call_name(c).endswith('_purge_cache') for c in ast.walk(ipurge))
    r4.instance({'purge': 'cache_clear on the compile cache', 'ok': ok and ok2}, key='purge')
    r4.obligation(ok and ok2)
    if not (ok and ok2):
        r4.violation('purge cache_clear', pmod.where(purge), 'purge() no longer clears the _cached_css_compile cache')

    # ---- R5 (texts compiled by interpretation, bounded) -----------------------------------------------------------------
    r5 = report.rule('C15-R5', 'what a pattern compiles to under a custom map does not depend on maps compiled earlier (bounded)', floor=1)
    from .e2etab import custom_isolation_table
    custom_isolation_table(ctx, r5)

    # ---- R6 --------------------------------------------------------------------------------------------------
    r6 = report.rule('C15-R6', 'every memo between compile() and its result is bounded and emptied by purge()', floor=1)
    memo_census_rule(ctx, r6)

    # ---- R7 (texts compiled by interpretation, bounded) -----------------------------------------------------------------
    r7 = report.rule('C15-R7', 'what a pattern compiles to does not depend on the patterns compiled before it in the same process (bounded)', floor=81)
    from .e2etab import compile_history_table
    compile_history_table(ctx, r7)
    from .e2ematch import argument_reuse_table
    argument_reuse_table(ctx, r7)



def own_reducer_rule(ctx, rule, carried):
    """A class of the package that defines its own __reduce__ / __reduce_ex__ is interpreted on an instance of every class that
    inherits the method: the callable it names, applied to the arguments it names, must build an object of THAT class (a reducer
    that names the class it is written in turns Namespaces / CustomSelectors into a plain map on pickling and deep copying)."""
    from ..interp import Interp, Obj, PkgClass, Raised as _Raised, call_function
    from ..miniev import Unsupported as _Unsupported
    src = ctx.src
    samples = [[{'a': 'b'}], [], [('x',)], ['x'], ['x', None]]
    for c in carried:
        mq = src.find_method(c, '__reduce__') or src.find_method(c, '__reduce_ex__')
        if not mq:
            continue
        obj = None
        for args in samples:
            try:
                it = Interp(ctx, c.split('.')[0], None, {}, {}, shared={'steps': 0, 'real_immutable': True})
                obj = it.apply(PkgClass(c), list(args), {})
                break
            except (_Raised, _Unsupported, TypeError):
                continue
        if not isinstance(obj, Obj):
            rule.note(f'{c}: inherits {mq} but no sample instance could be built by interpretation (undecided)')
            continue
        try:
            red = call_function(ctx, mq, [] if mq.endswith('__reduce__') else [2], {}, {}, obj, options={'real_immutable': True})
            ctor, cargs = red[0], list(red[1])
            it = Interp(ctx, c.split('.')[0], None, {}, {}, shared={'steps': 0, 'real_immutable': True})
            clone = it.apply(ctor, cargs, {}) if isinstance(ctor, PkgClass) else it.apply(ctor, cargs, {})
            ccls = object.__getattribute__(clone, '_cls') if isinstance(clone, Obj) else type(clone).__name__
        except (_Raised, _Unsupported, TypeError, IndexError) as e:
            rule.note(f'{c}: {mq} could not be interpreted on a sample instance ({e}) (undecided)')
            continue
        rule.instance({'class': c, 'reducer': mq, 'rebuilds_class': ccls}, key=f'own-reducer|{c}')
        rule.obligation(ccls == c)
        if ccls != c:
            mn, _, cn = c.partition('.')
            rule.violation(f'{c} reducer rebuilds {ccls}', src.mods[mn].where(src.mods[mn].classes[cn]),
                           f'pickling / deep-copying a {c} goes through {mq}, which rebuilds an object of class {ccls}: the copy of a compiled selector '
                           f'carries a different kind of map (its hash and type differ from the original\'s)')


def memo_census_rule(ctx, rule):
    """Every function of the package that memoises (functools.lru_cache / cache, as a decorator or applied to a function) and is
    reachable from compile() has a positive bound and is cleared - `<name>.cache_clear()` - in a function reachable from purge()."""
    from ..callgraph import CallGraph
    src, inv = ctx.src, ctx.consts
    cg = ctx.get('callgraph', lambda: CallGraph(ctx.types, src))
    reach = cg.reachable(['__init__.compile'])
    preach = cg.reachable(['__init__.purge'])
    cleared = set()
    for q in preach:
        try:
            mod, fn = src.func(q)
        except Exception:
            continue
        for c in ast.walk(fn):
            if isinstance(c, ast.Call) and isinstance(c.func, ast.Attribute) and c.func.attr == 'cache_clear':
                base = c.func.value
                name = base.attr if isinstance(base, ast.Attribute) else (base.id if isinstance(base, ast.Name) else None)
                if name:
                    cleared.add(name)
    memos = []
    for mn, mod in src.mods.items():
        for q, fn in mod.functions.items():
            for d in fn.decorator_list:
                dn = call_name(d) if isinstance(d, ast.Call) else unparse(d)
                if dn.split('.')[-1] in ('lru_cache', 'cache', 'cached_property'):
                    memos.append((mn, q, fn, d))
        # name = lru_cache(...)(function) at module level
        for st in mod.tree.body:
            if isinstance(st, ast.Assign) and isinstance(st.value, ast.Call) and isinstance(st.value.func, ast.Call) \
                    and call_name(st.value.func).split('.')[-1] in ('lru_cache', 'cache') and len(st.targets) == 1 and isinstance(st.targets[0], ast.Name):
                memos.append((mn, st.targets[0].id, st, st.value.func))
    if not memos:
        raise AnalysisError('no memoising function found in the package (the pattern cache is expected)')
    for mn, q, node, d in memos:
        full = f'{mn}.{q}'
        on_path = full in reach or any(full == r or r.startswith(full + '.') for r in reach) or isinstance(node, ast.Assign)
        dn = call_name(d) if isinstance(d, ast.Call) else unparse(d)
        maxsize = 128 if dn.split('.')[-1] == 'lru_cache' else None       # functools defaults; cache() is unbounded
        if isinstance(d, ast.Call):
            for k in d.keywords:
                if k.arg == 'maxsize':
                    maxsize = inv.folder.try_ev(mn, k.value, default='?')
            if d.args:
                maxsize = inv.folder.try_ev(mn, d.args[0], default='?')
        bounded = isinstance(maxsize, int) and not isinstance(maxsize, bool) and maxsize > 0
        name = q.split('.')[-1]
        is_cleared = name in cleared
        # a memo of scalars (str -> str case folding) cannot be told from recomputation: values are compared by value and carry no
        # structure; the rule is about memos that hold compiled structure
        ret = getattr(node, 'returns', None)
        names = {x.id for x in ast.walk(ret) if isinstance(x, ast.Name)} | {x.attr for x in ast.walk(ret) if isinstance(x, ast.Attribute)} if ret is not None else None
        scalar = names is not None and names <= {'str', 'int', 'bool', 'float', 'bytes', 'None', 'tuple', 'frozenset', 'Optional'} \
            and not any(isinstance(x, ast.Constant) and isinstance(x.value, str) for x in ast.walk(ret))
        # ... i.e. whose values are (or contain) objects of the package's own classes: SoupSieve, SelectorList, ...
        holds = sorted({r for x in (ast.walk(ret) if ret is not None else ()) if isinstance(x, (ast.Name, ast.Attribute))
                        for r in [src.resolve_class_ref(src.mods[mn], x)] if r})
        rule.instance({'memo': full, 'reachable_from_compile': on_path, 'maxsize': maxsize, 'bounded': bounded, 'cleared_by_purge': is_cleared,
                       'holds_scalars_only': scalar, 'holds_package_objects': holds}, key=full)
        if not on_path or scalar:
            continue
        if names is None:
            rule.note(f'{full}: the memoised function has no return annotation - whether it holds compiled structure is undecided')
            continue
        if not holds:
            rule.note(f'{full}: memoises values that are no objects of the package ({unparse(ret)}): not part of the pattern cache')
            continue
        rule.obligation(bounded and is_cleared)
        if maxsize == '?':
            rule.note(f'{full}: the bound of the memo is not a constant of the package (undecided)')
        elif not bounded:
            rule.violation(f'{full} memo bound', src.mods[mn].where(node), f'{full} memoises results of compile() without a positive bound (maxsize={maxsize}): '
                           f'the cache can hold more than its bound')
        if not is_cleared:
            rule.violation(f'{full} memo purge', src.mods[mn].where(node), f'{full} memoises (part of) what compile() returns and no function reachable from '
                           f'purge() calls {name}.cache_clear(): purge() does not empty the cache, and what compile() returns after a purge is not a fresh parse')


def cache_key_rule(ctx, r4):
    """compile() hands exactly its four inputs to the lru_cache'd function, the maps wrapped under an is-not-None test
    (shared with C06: a truthiness test lets an empty dict through, which is unhashable)."""
    src, inv = ctx.src, ctx.consts
    imod, cfn = src.func('__init__.compile')
    pmod, cached = src.func('css_parser._cached_css_compile')
    cparams = [a.arg for a in cached.args.args]
    call = [c for c in ast.walk(cfn) if isinstance(c, ast.Call) and call_name(c).endswith('_cached_css_compile')]
    if len(call) != 1:
        raise AnalysisError('compile(): call of _cached_css_compile not found')
    call = call[0]
    p_pat, p_ns, p_flags = [a.arg for a in cfn.args.args[:3]]
    p_custom = cfn.args.kwonlyargs[0].arg if cfn.args.kwonlyargs else 'custom'
    expect = {'pattern': (p_pat, None), 'namespaces': (p_ns, 'css_types.Namespaces'),
              'custom': (p_custom, 'css_types.CustomSelectors'), 'flags': (p_flags, None)}
    if len(call.args) != len(cparams) or call.keywords:
        raise AnalysisError('compile(): unexpected argument shape in the _cached_css_compile call')
    for pname, a in zip(cparams, call.args):
        src_name, wrapper = expect.get(pname, (None, None))
        if src_name is None:
            raise AnalysisError(f'_cached_css_compile parameter {pname} is not one of pattern/namespaces/custom/flags')
        if wrapper is None:
            ok = isinstance(a, ast.Name) and a.id == src_name
            why = f'must be `{src_name}` itself'
        else:
            ok = (isinstance(a, ast.IfExp) and src.resolve_class_ref(imod, a.body.func if isinstance(a.body, ast.Call) else a.body) == wrapper
                  and isinstance(a.body, ast.Call) and [unparse(x) for x in a.body.args] == [src_name]
                  and boolpaths.norm_atom(a.test) == (f'{src_name} is None', False)
                  and unparse(a.orelse) == src_name)
            why = f'must be `{wrapper.split(".")[1]}({src_name}) if {src_name} is not None else {src_name}`'
        r4.instance({'cache_key_part': pname, 'argument': unparse(a), 'ok': ok}, key=pname)
        r4.obligation(ok)
        if not ok:
            r4.violation(f'__init__.compile cache key {pname}', imod.where(call),
                         f'compile() passes `{unparse(a)}` as {pname} to the cached function; it {why} - otherwise the '
                         f'cache is keyed on too little, on a transformed value, or on an unhashable object')
