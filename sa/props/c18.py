"""C18 - date, time and number values are validated and ordered as HTML prescribes (decided clauses only).

R1  the six value-shape regexes against the HTML microsyntax grammars (soundness, completeness on the implemented
    subset, and the documented gap to the full grammar)
R2  field bounds and the month-length table incl. the leap-year predicate (exact over residues mod 400)
R3  calendar-library calls only ever see representable years
R4  the range types agree between the :in-range definition, parse_value and match_range
R5  ordering semantics of match_range over all relative orders of (min, max, value), incl. wrapped time ranges
"""
from __future__ import annotations

import ast
import itertools
import re

from .. import miniev, rx
from ..core import AnalysisError, Report
from ..srcmodel import call_name, unparse, walk_no_nested

D = '[0-9]'
YEAR = f'{D}{{4,}}'
DATE = f'{YEAR}-{D}{{2}}-{D}{{2}}'
TIME_SUBSET = f'{D}{{2}}:{D}{{2}}'
TIME_FULL = f'{D}{{2}}:{D}{{2}}(?::{D}{{2}}(?:\\.{D}{{1,3}})?)?'
NUM_FULL = f'-?(?:{D}+(?:\\.{D}+)?|\\.{D}+)(?:[eE][-+]?{D}+)?'
REFS = {
    # name: (full HTML grammar, subset the library implements, what the gap is)
    'RE_NUM': (NUM_FULL, NUM_FULL, None),
    'RE_TIME': (TIME_FULL, TIME_SUBSET, 'valid time strings with seconds (HH:MM:SS[.sss]) are treated as invalid'),
    'RE_MONTH': (f'{YEAR}-{D}{{2}}', f'{YEAR}-{D}{{2}}', None),
    'RE_WEEK': (f'{YEAR}-W{D}{{2}}', f'{YEAR}-W{D}{{2}}', None),
    'RE_DATE': (DATE, DATE, None),
    'RE_DATETIME': (f'{DATE}[T ]{TIME_FULL}', f'{DATE}T{TIME_SUBSET}',
                    'valid local date-time strings with seconds or a space separator are treated as invalid'),
}
DAYS = {1: 31, 2: 28, 3: 31, 4: 30, 5: 31, 6: 30, 7: 31, 8: 31, 9: 30, 10: 31, 11: 30, 12: 31}
BOUNDS = {'validate_month': (1, 12), 'validate_hour': (0, 23), 'validate_minutes': (0, 59), 'validate_year': (1, None)}
RANGE_TYPES = {'date', 'month', 'week', 'time', 'datetime-local', 'number', 'range'}


def is_leap(y):
    return (y % 4 == 0 and y % 100 != 0) or y % 400 == 0


def run(ctx, report: Report) -> None:
    src, inv = ctx.src, ctx.consts
    report.explanation = (
        'R1 compares the language of each shape regex - as used, i.e. with re.match semantics including what `$` '
        'admits - with grammars transcribed from the HTML Standard ("valid date/month/week/time/local date and '
        'time/floating-point number string"). R2 folds the validators\' interval constants and evaluates the '
        'day-count code over the finite abstract domain month x (year mod 400), after checking that the year is used '
        'only under `% k` with k | 400. R3 bounds the year argument of every datetime/date call by interval '
        'arithmetic. R5 evaluates the decision part of match_range over every relative order of (min, max, value) '
        'and None-ness - the code touches these values only through <, > and `is None`, so the finite set of '
        'orderings is exhaustive.')
    report.not_decided = ('numeric conversion results of int()/float() beyond the language inclusion of R6; week strings are decided for the '
                          'years R9 enumerates (a 400-year cycle and boundary years), the over-acceptance of week 53 that the existing '
                          'test-suite pins is a recorded finding.')
    report.trusted_base = ['re._parser.parse', 'HTML Standard microsyntax grammars transcribed in the rule pack',
                           'proleptic Gregorian month lengths and leap rule transcribed in the rule pack']
    mmod = src.mod('css_match')

    # ---- R1 ---------------------------------------------------------------------------------------------
    r1 = report.rule('C18-R1', 'value shapes follow the HTML microsyntaxes', floor=1)
    regex_uses = {}
    parse_value_types(ctx, sorted(RANGE_TYPES), regex_uses)
    if not regex_uses:
        raise AnalysisError('Inputs.parse_value consults no value-shape regex for any range type (anchor vanished)')
    for name, (full, subset, gap) in REFS.items():
        r = inv.by_name(f'css_match.{name}')
        # how parse_value applies the regex (match / fullmatch), observed by interpreting parse_value for every range type
        hows = regex_uses.get(name, set())
        if not hows:
            r1.note(f'css_match.{name} is not consulted by Inputs.parse_value for any range type on this tree')
            continue
        if not hows <= {'match', 'fullmatch'}:
            raise AnalysisError(f'css_match.{name}: applied with {sorted(hows)}, expected match/fullmatch')
        s = rx.System()
        try:
            A = s.add('code', r.pattern, r.flags)
            A.prefix_lang = 'match' in hows
            Fu = s.add('full', full, 0)
            Su = s.add('subset', subset, 0)
            s.freeze()
            unsound = rx.included(A, Fu)
            incomplete = rx.included(Su, A)
            gap_w = rx.included(Fu, A)
        except rx.Unsupported as e:
            raise AnalysisError(f'css_match.{name}: {e}')
        r1.instance({'regex': name, 'accepts_non_html': unsound, 'rejects_implemented_subset': incomplete,
                     'gap_to_full_grammar': gap_w}, key=name)
        r1.obligation(unsound is None and incomplete is None)
        if unsound is not None:
            r1.violation(f'css_match.{name} accepts-non-html', r.where,
                         f'{name} (as applied with .match) accepts {unsound!r}, which is not a valid HTML '
                         f'{name[3:].lower()} string: an invalid min/max/value is treated as valid')
        if incomplete is not None:
            r1.violation(f'css_match.{name} rejects-valid', r.where,
                         f'{name} rejects {incomplete!r}, a valid HTML {name[3:].lower()} string')
        if gap_w is not None and incomplete is None:
            if gap is None:
                r1.violation(f'css_match.{name} rejects-valid', r.where,
                             f'{name} rejects {gap_w!r}, a valid HTML {name[3:].lower()} string')
            else:
                r1.violation(f'css_match.{name} html-gap', r.where,
                             f'{name} does not accept {gap_w!r}: {gap}')
        # the groups the parser reads exist
    pmod, pfn = src.func('css_match.Inputs._parse_value') if src.try_func('css_match.Inputs._parse_value') \
        else src.func('css_match.Inputs.parse_value')

    # ---- R3 ---------------------------------------------------------------------------------------------
    r3 = report.rule('C18-R3', 'calendar-library calls only see representable years', floor=1)
    dt_names = set()
    for local, a in mmod.aliases.items():
        if a[0] == 'symbol' and a[1] == 'datetime' and not a[-1]:
            dt_names.add(local)
        if a[0] == 'module' and a[1] == 'datetime':
            dt_names.add(local)
    for q, fn in mmod.functions.items():
        for c in [n for n in walk_no_nested(fn) if isinstance(n, ast.Call)]:
            cn = call_name(c)
            root = cn.split('.')[0]
            if root not in dt_names:
                continue
            last = cn.split('.')[-1]
            params = {a.arg for a in fn.args.args}
            if last in ('strptime', 'fromisoformat', 'fromisocalendar', 'fromordinal', 'strftime'):
                nonconst = [a for a in c.args if inv.folder.try_ev('css_match', a, default=None) is None]
                r3.instance({'call': unparse(c)[:70], 'function': q, 'discharged': not nonconst}, key=unparse(c))
                r3.obligation(not nonconst)
                if nonconst:
                    r3.violation(f'css_match.{q} {cn}', mmod.where(c),
                                 f'{q}: {cn}() on run-time text: HTML years are unbounded above (and may be < 1000) but '
                                 f'the datetime module only represents years 1-9999')
                continue
            if last in ('datetime', 'date') and c.args:
                penv = miniev.param_intervals(src, mmod, fn, lambda mn_: (lambda e_: inv.folder.try_ev(mn_, e_, default=None)))
                iv = miniev.interval(c.args[0], penv, lambda e: inv.folder.try_ev('css_match', e, default=None))
                ok = iv is not None and iv[0] >= 1 and iv[1] <= 9999
                r3.instance({'call': unparse(c)[:70], 'function': q, 'year_interval': list(iv) if iv else None,
                             'discharged': ok}, key=unparse(c))
                r3.obligation(ok)
                if not ok:
                    r3.violation(f'css_match.{q} {cn} year', mmod.where(c),
                                 f'{q}: year argument `{unparse(c.args[0])}` of {cn}() is not bounded within 1..9999 '
                                 f'(interval {iv}): valid HTML years outside that range are rejected or raise')
    # ---- R2 ---------------------------------------------------------------------------------------------
    r2 = report.rule('C18-R2', 'field bounds, month lengths and the leap-year predicate', floor=1)
    for fname, (lo, hi) in BOUNDS.items():
        _, fn = src.func(f'css_match.Inputs.{fname}')
        param = fn.args.args[-1].arg
        ok = True
        try:
            got = []
            for v in (-1, 0, 1, 2, 11, 12, 13, 22, 23, 24, 58, 59, 60, 61, 9999, 10000, 10 ** 9):
                ev = miniev.MiniEval({param: v}, consts=lambda n: inv.folder.lookup('css_match', n))
                got.append(bool(ev.run(fn.body)))
                exp = v >= lo and (hi is None or v <= hi)
                if got[-1] != exp:
                    ok = False
                    bad_v = v
        except (miniev.Unsupported, Exception) as e:  # noqa: BLE001
            raise AnalysisError(f'Inputs.{fname}: outside the evaluable fragment: {e}')
        r2.instance({'validator': fname, 'expected_interval': [lo, hi], 'agrees': ok}, key=fname)
        r2.obligation(ok)
        if not ok:
            r2.violation(f'css_match.Inputs.{fname} bounds', mmod.where(fn),
                         f'Inputs.{fname} decides {bad_v} differently from the HTML bound [{lo}, {hi if hi is not None else "inf"}]')
    _, dfn = src.func('css_match.Inputs.validate_day')
    ynames = [a.arg for a in dfn.args.args]
    if len(ynames) != 3:
        raise AnalysisError('Inputs.validate_day: expected (year, month, day)')
    yv, mv, dv = ynames
    evaluable = True
    # when the year is only used under `% k` with k | 400 (in validate_day itself) the table over the 400 residues is exact;
    # when it flows anywhere else (a helper function, a table lookup) the function is interpreted - helpers included - on the
    # years 1..800 and a list of larger ones: bounded
    exact = True
    for n in ast.walk(dfn):
        if isinstance(n, ast.Name) and n.id == yv and isinstance(n.ctx, ast.Load):
            par = mmod.parents.get(n)
            k = None
            if isinstance(par, ast.BinOp) and isinstance(par.op, ast.Mod) and par.left is n:
                k = inv.folder.try_ev('css_match', par.right, default=None)
            if not isinstance(k, int) or k <= 0 or 400 % k:
                if any('validate_day' in f.key for f in r3.findings):
                    evaluable = False      # the year goes to a calendar-library call: C18-R3 has reported it
                    break
                exact = False
    from ..interp import Raised as _Rz, call_function as _cf
    years = list(range(2000, 2400)) if exact else (list(range(1, 801)) + [1600, 1900, 2000, 2023, 2024, 2100, 2400, 9999, 10000, 10100, 12345, 400000, 400004])
    state = {}        # module-level state of the interpreted package is carried from one call to the next (a table that is written to shows)
    bad = None
    n_eval = 0
    for month in (range(1, 13) if evaluable else ()):
        for yr in years:
            exp = DAYS[month] + (1 if month == 2 and is_leap(yr) else 0)
            for day in (0, 1, exp, exp + 1):
                try:
                    got = _cf(ctx, 'css_match.Inputs.validate_day', [yr, month, day], {}, {}, None, {'persist': state})
                    got = bool(got)
                except _Rz as e:
                    got = f'raises {e.exc_name}'
                except miniev.Unsupported as e:
                    raise AnalysisError(f'Inputs.validate_day: outside the evaluable fragment: {e}')
                n_eval += 1
                if got != (1 <= day <= exp) and bad is None:
                    bad = (yr, month, day, got)
    r2.instance({'validator': 'validate_day', 'cases': n_eval, 'exact_over_year_residues': exact, 'first_disagreement': bad}, key='validate_day')
    r2.obligation(bad is None)
    if bad is not None:
        yr, month, day, got = bad
        r2.violation('css_match.Inputs.validate_day calendar', mmod.where(dfn),
                     f'Inputs.validate_day says {got} for day {day} of month {month} in the year {yr}' + (' (any year with the same residue mod 400)' if exact else '') +
                     f'; the proleptic Gregorian calendar says {1 <= day <= (DAYS[month] + (1 if month == 2 and is_leap(yr) else 0))}')

    # ---- R4 ---------------------------------------------------------------------------------------------
    r4 = report.rule('C18-R4', 'range types agree between definition, parser and comparison', floor=1)
    css_in = None
    pm = src.mod('css_parser')
    from .sem import selector_constants
    for cname, rec in selector_constants(ctx).items():
        if cname in ('CSS_IN_RANGE', 'CSS_OUT_OF_RANGE'):
            types = set(re.findall(r'\[\s*type\s*=\s*["\']?([a-z-]+)["\']?\s*\]', rec['text']))
            r4.instance({'definition': cname, 'types': sorted(types)}, key=cname)
            if types != RANGE_TYPES:
                r4.violation(f'css_parser.{cname} types', 'soupsieve/css_parser.py',
                             f'{cname} lists input types {sorted(types)}, the range-typed inputs '
                             f'are {sorted(RANGE_TYPES)}')
            css_in = types

    # which input types Inputs.parse_value understands: the function is interpreted for every type name with an abstract match
    # that has every group of whichever value-shape regex is consulted (validators answer yes); a range type must come out
    # as a tuple, any other type as None.  match_range's own handling of each type is the table of R5.
    parsed_types = parse_value_types(ctx, sorted(RANGE_TYPES | {'text', 'email', 'checkbox', 'datetime', 'tel', 'hidden', ''}))
    r4.instance({'function': 'Inputs.parse_value', 'types_parsed_to_a_tuple': sorted(parsed_types)}, key='parse_value')
    r4.obligation(parsed_types == RANGE_TYPES)
    if parsed_types != RANGE_TYPES:
        r4.violation('css_match parse_value types', 'soupsieve/css_match.py (Inputs.parse_value)',
                     f'parse_value parses input types {sorted(parsed_types)}; the range-typed inputs are {sorted(RANGE_TYPES)} '
                     f'(missing {sorted(RANGE_TYPES - parsed_types)}, extra {sorted(parsed_types - RANGE_TYPES)})')
    # ... whatever the length of the text: only the value-shape regex and the validators decide (number strings have no length
    # limit - float() has none -, and years may have any number of digits); a value the regex accepts is not refused beforehand
    for n_ in (1, 11, 4301, 100000):
        unbounded = RANGE_TYPES - {'time'}          # every valid time string has five characters; the other shapes have no longest member
        long_types = parse_value_types(ctx, sorted(unbounded), text='7' * n_)
        r4.instance({'function': 'Inputs.parse_value', 'value_length': n_, 'types_parsed_to_a_tuple': sorted(long_types)}, key=f'parse_value-len{n_}')
        r4.obligation(long_types == unbounded)
        if long_types != unbounded:
            r4.violation(f'css_match parse_value length {n_}', 'soupsieve/css_match.py (Inputs.parse_value)',
                         f'a value of {n_} characters that its value-shape regex accepts and its validators pass is not parsed for the types '
                         f'{sorted(unbounded - long_types)}: something besides the regex and the validators decides (a length test?)')
            break
    _, mr = src.func('css_match.CSSMatch.match_range')
    itype_var = None
    if css_in is None:
        raise AnalysisError('CSS_IN_RANGE definition not found')

    r5 = report.rule('C18-R5', 'ordering semantics over all relative orders of (min, max, value)', floor=224)
    range_table(ctx, report, r5, mmod, mr, itype_var)

    # ---- R6 ---------------------------------------------------------------------------------------------
    r6 = report.rule('C18-R6', 'every string a value-shape regex accepts is converted (no accepted value is lost in int()/float())', floor=27)
    from ..excflow import INT_WS
    # which conversion every group of every value-shape regex goes through, observed by interpreting parse_value per range type
    # with marked group values and recording stand-ins for int() and float() (wherever the calls sit: in parse_value, in a
    # helper, behind a table of converters)
    convs = conversion_census(ctx)
    if len(convs) < 3:
        raise AnalysisError(f'only {len(convs)} int()/float() conversions of regex groups observed in Inputs.parse_value (anchor vanished)')
    for (rname, g, fn_, base), itypes in sorted(convs.items(), key=str):
        rgx = inv.by_name(rname)
        if fn_ == 'int':
            digits = '0-9a-fA-F' if base == 16 else '0-9'
            dom = f'{INT_WS}[+-]?[{digits}]+(?:_[{digits}]+)*{INT_WS}'
        else:
            dom = (f'{INT_WS}[+-]?(?:[0-9]+(?:_[0-9]+)*\\.?(?:[0-9]+(?:_[0-9]+)*)?|\\.[0-9]+(?:_[0-9]+)*)'
                   f'(?:[eE][+-]?[0-9]+(?:_[0-9]+)*)?{INT_WS}')
        try:
            s_ = rx.System()
            G = s_.add('g', rgx.pattern, rgx.flags, group=g)
            D = s_.add('d', dom, 0)
            s_.freeze()
            w = rx.included(G, D)
        except rx.Unsupported as e:
            raise AnalysisError(f'{rname} group {g}: outside the exact regex model: {e}')
        r6.instance({'regex': rname, 'group': g, 'conversion': f'{fn_}(..., {base})' if fn_ == 'int' else 'float(...)', 'types': sorted(itypes),
                     'counterexample': w}, key=f'{rname}|{g}|{fn_}|{base}')
        r6.obligation(w is None)
        if w is not None:
            r6.violation(f'css_match.Inputs.parse_value {rname}:{g} loses accepted values', rgx.where,
                         f'Inputs.parse_value (type {sorted(itypes)[0]}) converts group {g!r} of {rname} with {fn_}(); the group can be {w!r}, '
                         f'outside the domain of the conversion. The value passed the shape regex, so it is a valid HTML value; the '
                         f'conversion error is swallowed by the digit-limit handler of parse_value and the valid value is treated as '
                         f'missing (the control is then always in range / never bounds a range)')

    # ---- R7 ---------------------------------------------------------------------------------------------
    r7 = report.rule('C18-R7', 'all parsed values of one input type have one arity (tuples are compared lexicographically)', floor=1)
    import re._parser as _sp2
    from ..interp import Obj as _O, Raised as _R, call_function as _call
    from ..tables import match_obj as _mo
    sample = {'year': '2000', 'month': '01', 'day': '02', 'hour': '10', 'minutes': '30', 'week': '05', 'value': '7'}
    by_pattern = {r_.pattern: r_ for r_ in inv.regexes if r_.module == 'css_match' and r_.kind == 'module'}
    for itype in sorted(RANGE_TYPES):
        arities = {}
        for mask in range(0, 8):
            used = {}

            def matcher(rx_obj, text, *a_, _mask=mask, _used=used):
                r_ = by_pattern.get(rx_obj.get('pattern'))
                if r_ is None:
                    raise miniev.Unsupported('match on a regex outside the inventory')
                names_ = sorted(_sp2.parse(r_.pattern, r_.flags).state.groupdict)
                extra = [n_ for n_ in names_ if n_ not in sample]
                groups = {n_: sample[n_] for n_ in names_ if n_ in sample}
                for i_, n_ in enumerate(extra[:3]):
                    groups[n_] = ('30' if not (_mask >> i_) & 1 else None)
                _used['regex'] = r_.name
                _used['optional'] = {n_: groups[n_] for n_ in extra}
                groups[0] = text
                return _mo(groups)
            try:
                stubs_ = {f'css_match.{q_}': (lambda *a__, **k__: True) for q_ in mmod.functions if q_.startswith('Inputs.validate')}
                stubs_['re.Pattern.match'] = matcher
                res = _call(ctx, 'css_match.Inputs.parse_value', [itype, 'v'], {}, stubs_, None)
            except _R:
                continue
            except miniev.Unsupported as e:
                raise AnalysisError(f'Inputs.parse_value({itype!r}): outside the evaluable fragment: {e}')
            if isinstance(res, (tuple, list)):
                arities.setdefault(len(res), dict(used))
                non_numeric = [x for x in res if isinstance(x, bool) or not isinstance(x, (int, float))]
                if non_numeric and not r7.findings:
                    r7.violation(f'css_match.Inputs.parse_value members {itype}', mmod.where(src.func('css_match.Inputs.parse_value')[1]),
                                 f'type={itype}: the parsed value {tuple(res)!r} has a member that is not a number ({non_numeric[0]!r}): the tuples '
                                 f'are compared with < and >, and text compares lexicographically ("10000" < "9999"), so min / max / value are '
                                 f'mis-ordered as soon as their fields differ in number of digits')
        r7.instance({'type': itype, 'tuple_lengths': sorted(arities)}, key=f'arity|{itype}')
        r7.obligation(len(arities) <= 1)
        if len(arities) > 1:
            ex = {k_: v_.get('optional') for k_, v_ in arities.items()}
            r7.violation(f'css_match.Inputs.parse_value arity {itype}', mmod.where(src.func('css_match.Inputs.parse_value')[1]),
                         f'type={itype}: parsed values come out as tuples of lengths {sorted(arities)} depending on which optional '
                         f'groups are present ({ex}); tuples of different length compare lexicographically (the shorter one first), so '
                         f'two spellings of the same instant (10:30 and 10:30:00) are ordered, and min/max written one way and the value '
                         f'the other way give the wrong range verdict')

    # ---- R8 (the whole pipeline by interpretation, bounded) --------------------------------------------------------------
    r8 = report.rule('C18-R8', ':in-range / :out-of-range over inputs of every range type that share attribute texts, in both document orders (bounded)', floor=1)
    from .e2ematch import range_pipeline_table
    range_pipeline_table(ctx, r8)

    # valid number strings at the edges of the float range are values like any other (bounded, by interpretation)
    number_edge_table(ctx, r6)

    # ---- R9 (Inputs.parse_value by interpretation; every year of the 400-year cycle) ------------------------------------------------
    r9 = report.rule('C18-R9', 'week strings: weeks 1-52 of every year and week 53 of the ISO long years are valid, weeks 0 and 54 never', floor=618)
    week_count_table(ctx, r9)



def number_edge_table(ctx, rule):
    """Inputs.parse_value('number' / 'range', s) by interpretation for valid floating-point number strings whose conversion
    overflows, underflows or is a signed zero: each is a value (not None), and values are ordered as the numbers are."""
    from ..interp import Raised, call_function
    valid = ['0', '-0', '1', '-1', '.5', '-.5', '1.5', '1e3', '1E3', '1e+3', '1e-3', '1.5e3', '-.5e-3', '1e308', '1.7976931348623157e308', '1e309', '1e400', '-1e400',
             '2E308', '-1e999', '1e-400', '-1e-400', '4.9e-324', '1' + '0' * 400, '-1' + '0' * 400, '0.' + '0' * 400 + '1', '9' * 309, '00012', '1e00003']
    invalid = ['', '+1', '1.', 'e3', '1e', '1e+', '.', '-', '--1', '1 ', ' 1', '1_0', 'inf', 'nan', 'Infinity', '0x10', '1,5', '١']
    opts = {'regex_engine': True, 'max_steps': 2_000_000}
    bad = None
    parsed = {}
    for itype in ('number', 'range'):
        for text in valid + invalid:
            try:
                res = call_function(ctx, 'css_match.Inputs.parse_value', [itype, text], {}, {}, None, dict(opts))
                got = None if res is None else tuple(res)
            except Raised as e:
                got = f'raises {e.exc_name}'
            except miniev.Unsupported as e:
                raise AnalysisError(f'Inputs.parse_value({itype!r}, {text[:20]!r}): outside the evaluable fragment: {e}')
            want_valid = text in valid
            ok = (isinstance(got, tuple) and len(got) == 1 and isinstance(got[0], (int, float))) if want_valid else got is None
            if ok and want_valid:
                ok = got[0] == float(text)
                parsed[(itype, text)] = got
            rule.instance({'type': itype, 'value_string': text[:24] + ('...' if len(text) > 24 else ''), 'valid_number_string': want_valid, 'parsed': repr(got)[:40]},
                          key=f'number-edge|{itype}|{text[:30]}|{len(text)}', sample_cap=4)
            if not ok and bad is None:
                bad = (itype, text, got, want_valid)
    rule.obligation(bad is None)
    if bad is not None:
        itype, text, got, want_valid = bad
        shown = text if len(text) < 30 else text[:12] + f'... ({len(text)} characters)'
        rule.violation(f'number string {shown}', 'soupsieve/css_match.py (Inputs.parse_value)',
                       (f'the valid floating-point number string {shown!r} of an input of type {itype} is parsed as {got!r}; it is a value (float({shown!r}) = '
                        f'{float(text)!r}) that min / max / value comparisons must see') if want_valid else
                       f'the invalid number string {shown!r} of an input of type {itype} is accepted as {got!r}')


def iso_long_year(y: int) -> bool:
    """ISO 8601: a year has 53 weeks exactly when 1 January or 31 December is a Thursday (transcribed; trusted base)."""
    p = lambda n: (n + n // 4 - n // 100 + n // 400) % 7        # noqa: E731   weekday of 31 December (0 = Sunday)
    return p(y) == 4 or p(y - 1) == 3


WEEK53_KNOWN = 'week 53 of the short years whose 31 December lies in week 1 of the next year (1980-W53, 2018-W53, ...) is accepted'


def week_count_table(ctx, rule):
    """Inputs.parse_value('week', 'YYYY-Www') by interpretation (the analyser's regex matcher, datetime as the library defines it)
    for every year of a 400-year cycle and years outside datetime's range, weeks 00, 01, 52, 53, 54."""
    from ..interp import Raised, call_function
    years = list(range(2000, 2400)) + [0, 1, 4, 999, 1000, 1976, 1980, 9999, 10000, 12004, 99999, 400000]
    opts = {'regex_engine': True, 'max_steps': 2_000_000}
    under = over = None
    over_years, expected_over = [], []
    for y in years:
        long_ = iso_long_year(y)
        for w in (0, 1, 26, 52, 53, 54):
            text = f'{y:04d}-W{w:02d}'
            try:
                res = call_function(ctx, 'css_match.Inputs.parse_value', ['week', text], {}, {}, None, dict(opts))
                got = res is not None
            except Raised as e:
                got = f'raises {e.exc_name}'
            except miniev.Unsupported as e:
                raise AnalysisError(f'Inputs.parse_value("week", {text!r}): outside the evaluable fragment: {e}')
            want = 1 <= w <= (53 if long_ else 52) and y >= 1          # year 0000 is not a valid year of a week string
            rule.instance({'week_string': text, 'iso_weeks_in_year': 53 if long_ else 52, 'valid_by_iso': want, 'treated_as_valid': got},
                          key=f'week|{text}', sample_cap=6)
            if got is True and not want:
                if w == 53 and y >= 1:
                    over_years.append(y)
                elif over is None and y >= 1:
                    over = (text, got, want)
            elif got is not True and want and under is None:
                under = (text, got, want)
        # the years for which the recorded defect is expected: 31 December is Monday .. Wednesday (ISO week 1 of the next year)
        dec31 = (y + y // 4 - y // 100 + y // 400) % 7
        if not long_ and dec31 in (1, 2, 3) and y >= 1:
            expected_over.append(y)
    rule.obligation(under is None and over is None)
    if under is not None:
        text, got, want = under
        rule.violation(f'week string {text}', 'soupsieve/css_match.py (Inputs.parse_value / validate_week)',
                       f'the valid week string {text!r} is {"rejected" if got is False else got} (ISO 8601 gives that year {text[-2:] if False else ("53" if iso_long_year(int(text.split("-")[0])) else "52")} weeks): '
                       f'a min / max / value of that week is ignored')
    if over is not None:
        text, got, want = over
        rule.violation(f'week string {text}', 'soupsieve/css_match.py (Inputs.parse_value / validate_week)', f'the invalid week string {text!r} is treated as valid')
    if over_years:
        if sorted(over_years) == sorted(expected_over):
            rule.violation(WEEK53_KNOWN, 'soupsieve/css_match.py (Inputs.validate_week)',
                           f'{len(over_years)} of {len(years)} years examined: {WEEK53_KNOWN} - e.g. {[f"{y:04d}-W53" for y in sorted(over_years)[:4]]}; '
                           f'ISO 8601 gives those years 52 weeks')
        else:
            odd = sorted(set(over_years) ^ set(expected_over))[0]
            rule.violation(f'week string {odd:04d}-W53', 'soupsieve/css_match.py (Inputs.validate_week)',
                           f'week 53 is accepted for {len(over_years)} short years, not the set of the recorded finding; e.g. {odd:04d}-W53 is '
                           f'{"accepted" if odd in over_years else "now rejected while its siblings are accepted"}')


def parse_value_types(ctx, candidates, uses=None, text='v'):
    """The type names for which Inputs.parse_value returns a tuple when the value has the shape the type asks for."""
    import re._parser as sp
    from ..interp import Raised, call_function
    from ..tables import match_obj
    src, inv = ctx.src, ctx.consts
    mmod = src.mod('css_match')
    sample = {'year': '2000', 'month': '01', 'day': '02', 'hour': '10', 'minutes': '30', 'week': '05', 'value': '7'}
    by_pattern = {r_.pattern: r_ for r_ in inv.regexes if r_.module == 'css_match' and r_.kind == 'module'}

    def matcher(how):
        def f(rx_obj, text, *a_):
            r_ = by_pattern.get(rx_obj.get('pattern'))
            if r_ is None:
                raise miniev.Unsupported('match on a regex outside the inventory')
            if uses is not None:
                uses.setdefault(r_.name.split('.')[-1], set()).add(how)
            groups = {n_: sample.get(n_, '30') for n_ in sp.parse(r_.pattern, r_.flags).state.groupdict}
            groups[0] = text
            return match_obj(groups)
        return f
    out = set()
    stubs = {f'css_match.{q_}': (lambda *a__, **k__: True) for q_ in mmod.functions if q_.startswith('Inputs.validate')}
    for how in ('match', 'fullmatch', 'search'):
        stubs[f're.Pattern.{how}'] = matcher(how)
    for itype in candidates:
        try:
            res = call_function(ctx, 'css_match.Inputs.parse_value', [itype, text], {}, stubs, None)
        except Raised:
            continue
        except miniev.Unsupported as e:
            raise AnalysisError(f'Inputs.parse_value({itype!r}): outside the evaluable fragment: {e}')
        if isinstance(res, (tuple, list)):
            out.add(itype)
    return out


class GroupTok(str):
    """A marked group value: remembers the regex and group it stands for."""
    origin = None


def conversion_census(ctx):
    """{(regex name, group, 'int'|'float', base): {input types}} - the conversions Inputs.parse_value applies to regex groups."""
    import re._parser as sp
    from ..interp import Raised, call_function
    from ..tables import match_obj
    src, inv = ctx.src, ctx.consts
    mmod = src.mod('css_match')
    sample = {'year': '2000', 'month': '01', 'day': '02', 'hour': '10', 'minutes': '30', 'week': '05', 'value': '7'}
    by_pattern = {r_.pattern: r_ for r_ in inv.regexes if r_.module == 'css_match' and r_.kind == 'module'}
    out = {}
    for itype in sorted(RANGE_TYPES):
        def matcher(rx_obj, text, *a_):
            r_ = by_pattern.get(rx_obj.get('pattern'))
            if r_ is None:
                raise miniev.Unsupported('match on a regex outside the inventory')
            groups = {}
            for n_ in sp.parse(r_.pattern, r_.flags).state.groupdict:
                t = GroupTok(sample.get(n_, '30'))
                t.origin = (r_.name, n_)
                groups[n_] = t
            groups[0] = text
            return match_obj(groups)

        def conv(kind):
            def f(x=0, base=10, *a_):
                if isinstance(x, GroupTok):
                    out.setdefault((x.origin[0], x.origin[1], kind, base if kind == 'int' else None), set()).add(itype)
                try:
                    return int(x, base) if kind == 'int' and isinstance(x, str) else (int(x) if kind == 'int' else float(x))
                except (ValueError, TypeError):
                    raise Raised('ValueError')
            return f
        stubs = {f'css_match.{q_}': (lambda *a__, **k__: True) for q_ in mmod.functions if q_.startswith('Inputs.validate')}
        for how in ('match', 'fullmatch'):
            stubs[f're.Pattern.{how}'] = matcher
        stubs['int'] = conv('int')
        stubs['float'] = conv('float')
        try:
            call_function(ctx, 'css_match.Inputs.parse_value', [itype, 'v'], {}, stubs, None)
        except Raised:
            continue
        except miniev.Unsupported as e:
            raise AnalysisError(f'Inputs.parse_value({itype!r}): outside the evaluable fragment: {e}')
    return out


def range_table(ctx, report, r5, mmod, mr, itype_var):
    """Decision table of match_range over every relative order / None-ness of (min, max, value), type and query."""
    src, inv = ctx.src, ctx.consts
    # ---- R5 ---------------------------------------------------------------------------------------------
    from ..interp import Obj, Raised, call_function
    sel_in = inv.folder.lookup('css_types', 'SEL_IN_RANGE')
    sel_out = inv.folder.lookup('css_types', 'SEL_OUT_OF_RANGE')

    def evaluate(itype, mn, mx, val, flag):
        """Interpret match_range with the attribute accessors and the value parser replaced by the abstract case."""
        vals = {'@min': mn, '@max': mx, '@value': val}

        def gabn(el, name, default=None):
            return itype if name == 'type' else f'@{name}'

        def parse_value(it, v):
            r = vals.get(v)
            return None if r is None else (r,)
        stubs = {'css_match._DocumentNav.get_attribute_by_name': gabn, 'css_match.Inputs.parse_value': parse_value}
        me = Obj(_cls='css_match.CSSMatch', _name='matcher')
        try:
            return bool(call_function(ctx, 'css_match.CSSMatch.match_range', [Obj(_name='el'), flag], {}, stubs, me))
        except Raised as e:
            return f'raises {e.exc_name}'
        except miniev.Unsupported as e:
            raise AnalysisError(f'match_range: outside the evaluable fragment: {e}')
    n_cases = 0
    first_bad = None
    ranks = [None, 0, 1, 2]
    for itype in sorted(RANGE_TYPES):
        for mn, mx, val in itertools.product(ranks, ranks, ranks):
            for flag, want_in in ((sel_in, True), (sel_out, False)):
                got = evaluate(itype, mn, mx, val, flag)
                # reference
                if mn is None and mx is None:
                    exp = False
                else:
                    out = False
                    if val is not None:
                        if itype == 'time' and mn is not None and mx is not None and mn > mx:
                            out = mx < val < mn
                        else:
                            out = (mn is not None and val < mn) or (mx is not None and val > mx)
                    exp = (not out) if want_in else out
                n_cases += 1
                key = f'{itype}|{mn}|{mx}|{val}|{want_in}'
                r5.instance({'type': itype, 'min': mn, 'max': mx, 'value': val, 'in_range_query': want_in,
                             'result': got, 'expected': exp}, nontrivial=not (mn is None and mx is None), key=key,
                            sample_cap=3)
                if got != exp and first_bad is None:
                    first_bad = (itype, mn, mx, val, want_in, got, exp)
    r5.obligation(first_bad is None)
    if first_bad is not None:
        itype, mn, mx, val, want_in, got, exp = first_bad
        r5.violation('css_match.CSSMatch.match_range ordering', mmod.where(mr),
                     f'match_range answers {got} for {":in-range" if want_in else ":out-of-range"} on type={itype} with '
                     f'relative order min={mn}, max={mx}, value={val} (None = missing/invalid); HTML prescribes {exp}')
    report.analysed['match_range_orderings'] = n_cases
