"""C14 - concurrent compilation and matching behave as if run one at a time (confinement analysis).

R1  no shared mutable state is written after import: instances retained at module/class level are never written by
    their methods; no function stores into / mutates a module- or class-level object; no global rebinding; no
    mutable default argument
R2  parser and matcher objects are call-local (constructed per call, never published)
R3  the only process-wide caches are lru_cache wrappers whose values are immutable and whose bodies read no
    module-level variable state
"""
from __future__ import annotations

import ast
import builtins

from ..core import AnalysisError, Report
from ..srcmodel import call_name, unparse, walk_no_nested

MUTATORS = {'append', 'extend', 'add', 'update', 'pop', 'popitem', 'clear', 'setdefault', 'remove', 'discard',
            'insert', 'sort', 'reverse', '__setitem__', '__delitem__', 'appendleft'}
IMMUTABLE_RETURNS = {'str', 'int', 'bool', 'float', 'None', 'bytes'}


def base_name(e: ast.AST):
    """Root Name of an attribute/subscript chain and the chain text."""
    x = e
    while isinstance(x, (ast.Attribute, ast.Subscript)):
        x = x.value
    return x.id if isinstance(x, ast.Name) else None


def local_names(fn: ast.FunctionDef) -> set[str]:
    out = {a.arg for a in fn.args.args + fn.args.kwonlyargs + fn.args.posonlyargs}
    if fn.args.vararg:
        out.add(fn.args.vararg.arg)
    if fn.args.kwarg:
        out.add(fn.args.kwarg.arg)
    for n in walk_no_nested(fn):
        if isinstance(n, ast.Name) and isinstance(n.ctx, ast.Store):
            out.add(n.id)
        elif isinstance(n, (ast.FunctionDef, ast.ClassDef)):
            out.add(n.name)
        elif isinstance(n, ast.ExceptHandler) and n.name:
            out.add(n.name)
        elif isinstance(n, (ast.Import, ast.ImportFrom)):
            for a in n.names:
                out.add(a.asname or a.name.split('.')[0])
    return out


def run(ctx, report: Report) -> None:
    src = ctx.src
    report.explanation = (
        'Confinement argument: the only objects shared between threads are those retained by module- or class-level '
        'bindings (token matcher objects, compiled regexes, constant tables, frozen selector lists) and the two '
        'lru_cache wrappers. The rules show that nothing writes to such an object after import, that parser and '
        'matcher objects never escape the call that created them, and that cached values are immutable. Under the '
        'trusted base that functools.lru_cache is internally locked, absence of shared writes is sufficient for the '
        'property; nothing behavioural is sampled.')
    report.not_decided = 'nothing is sampled; interleavings are not explored - the claim is the absence of shared writes.'
    report.trusted_base = ['functools.lru_cache is thread-safe and may at worst compute a key twice',
                           're.Pattern objects are thread-safe', 'css_types value classes are immutable (C15)']
    imm = set(['css_types.Immutable'] + src.subclasses('css_types.Immutable'))

    # ---- shared classes ---------------------------------------------------------------------------------
    r1 = report.rule('C14-R1', 'no shared mutable state is written after import', floor=1)
    shared: dict[str, str] = {}       # class qual -> where retained

    def retained_ctor_classes(mod, value, where):
        """Classes whose instances are retained by `value` (constructor calls not used as a method receiver)."""
        for n in ast.walk(value):
            if isinstance(n, ast.Call):
                cref = src.resolve_class_ref(mod, n.func)
                if cref is None:
                    continue
                par = mod.parents.get(n)
                if isinstance(par, ast.Attribute) and par.value is n:
                    continue      # temporary: CSSParser(...).process_selectors(...)
                shared.setdefault(cref, where)
                # class objects handed to a retained constructor may be instantiated and retained by it
            if isinstance(n, ast.Name):
                cref = src.resolve_class_ref(mod, n)
                par = mod.parents.get(n)
                if cref is not None and isinstance(par, (ast.Tuple, ast.List)) and cref not in imm:
                    shared.setdefault(cref, where + ' (class handed to a retained table)')
    for mn, mod in src.mods.items():
        for st in mod.tree.body:
            if isinstance(st, (ast.Assign, ast.AnnAssign)) and st.value is not None:
                retained_ctor_classes(mod, st.value, f'{mn} module level: {unparse(st.targets[0] if isinstance(st, ast.Assign) else st.target)}')
        for cq, cnode in mod.classes.items():
            for st in cnode.body:
                if isinstance(st, (ast.Assign, ast.AnnAssign)) and st.value is not None:
                    tgt = st.targets[0] if isinstance(st, ast.Assign) else st.target
                    retained_ctor_classes(mod, st.value, f'{mn}.{cq} class level: {unparse(tgt)}')
    shared = {c: w for c, w in shared.items() if c not in imm}
    closure = dict(shared)
    for c, w in list(shared.items()):
        for b in src.mro(c)[1:]:
            closure.setdefault(b, f'base of {c}')
        for s in src.subclasses(c):
            closure.setdefault(s, f'subclass of {c}')
    report.extra['shared_classes'] = closure
    if not any(c.endswith('SelectorPattern') for c in closure):
        raise AnalysisError('the class-level token table (SelectorPattern objects) was not recognised as shared state')
    for c, w in sorted(closure.items()):
        mn, _, cn = c.partition('.')
        mod = src.mods[mn]
        for q, fn in mod.functions.items():
            if not q.startswith(cn + '.') or q.count('.') != 1:
                continue
            meth = q.split('.')[1]
            if meth in ('__init__', '__new__'):
                continue
            selfname = fn.args.args[0].arg if fn.args.args else None
            writes = []
            for n in walk_no_nested(fn):
                targets = []
                if isinstance(n, ast.Assign):
                    targets = n.targets
                elif isinstance(n, (ast.AugAssign, ast.AnnAssign)):
                    targets = [n.target]
                elif isinstance(n, ast.Delete):
                    targets = n.targets
                for t in targets:
                    for tt in (t.elts if isinstance(t, (ast.Tuple, ast.List)) else [t]):
                        if isinstance(tt, (ast.Attribute, ast.Subscript)) and base_name(tt) == selfname:
                            writes.append((n, unparse(tt)))
                if isinstance(n, ast.Call) and isinstance(n.func, ast.Attribute) and n.func.attr in MUTATORS \
                        and base_name(n.func.value) == selfname and isinstance(n.func.value, (ast.Attribute, ast.Subscript)):
                    writes.append((n, unparse(n.func)))
            r1.instance({'shared_class': c, 'retained_by': w, 'method': meth, 'writes_to_self': [x[1] for x in writes]},
                        key=f'{c}.{meth}')
            r1.obligation(not writes)
            for node, txt in writes:
                r1.violation(f'{c}.{meth} writes {txt}', mod.where(node),
                             f'{c}.{meth} writes `{txt}` on an object that is shared by every thread ({w}): another '
                             f'thread can observe or overwrite it between this write and its use')
    # ---- process-wide interpreter state set from functions ---------------------------------------------------
    PROCESS_SETTERS = {'sys.setrecursionlimit', 'sys.setswitchinterval', 'sys.settrace', 'sys.setprofile', 'os.chdir', 'os.umask', 'os.putenv',
                       'os.environ.setdefault', 'os.environ.update', 'os.environ.pop', 'locale.setlocale', 'warnings.simplefilter',
                       'warnings.filterwarnings', 'warnings.resetwarnings', 'gc.disable', 'gc.enable', 'gc.set_threshold', 'signal.signal',
                       'random.seed', 'decimal.setcontext', 'socket.setdefaulttimeout', 'threading.stack_size', 'sys.set_int_max_str_digits'}
    for mn, mod in src.mods.items():
        for q, fn in mod.functions.items():
            for n in walk_no_nested(fn):
                cn_ = call_name(n) if isinstance(n, ast.Call) else ''
                head = cn_.split('.')[0]
                al = mod.aliases.get(head)
                full = cn_
                if al is not None and al[0] == 'module' and not al[2]:
                    full = al[1] + cn_[len(head):]
                elif al is not None and al[0] == 'symbol' and not al[3]:
                    full = f'{al[1]}.{al[2]}' + cn_[len(head):]
                store_env = isinstance(n, (ast.Assign, ast.Delete)) and any(
                    isinstance(t, ast.Subscript) and unparse(t.value) in ('os.environ', 'sys.modules', 'sys.path') for t in n.targets)
                if full in PROCESS_SETTERS or store_env:
                    r1.instance({'function': f'{mn}.{q}', 'process_wide_setter': full or unparse(n)[:40]}, key=f'{mn}.{q}|setter|{full}')
                    r1.obligation(False)
                    r1.violation(f'{mn}.{q} sets process-wide state with {full or unparse(n)[:40]}', mod.where(n),
                                 f'{mn}.{q}: `{unparse(n)[:70]}` changes state of the whole process (every thread sees it, and a second thread '
                                 f'that saves / restores the same setting interleaves with this one): concurrent calls can fail or leave the '
                                 f'setting changed')
    # ---- module / class level objects written from functions ------------------------------------------------
    try:
        from ..callgraph import CallGraph
        cg_ = ctx.get('callgraph', lambda: CallGraph(ctx.types, src))
        entries_ = [f'__init__.{q_}' for q_ in src.mods['__init__'].functions] + [f'css_match.{q_}' for q_ in src.mods['css_match'].functions
                                                                                   if q_.startswith('SoupSieve.')]
        api_reach = cg_.reachable(entries_)
    except Exception:       # noqa: BLE001  (no call graph: every function counts as reachable)
        api_reach = None
    for mn, mod in src.mods.items():
        modlevel = set()
        for st in mod.tree.body:
            if isinstance(st, ast.Assign):
                for t in st.targets:
                    modlevel.update(n.id for n in ast.walk(t) if isinstance(n, ast.Name))
            elif isinstance(st, ast.AnnAssign) and isinstance(st.target, ast.Name):
                modlevel.add(st.target.id)
        classnames = set(mod.classes)
        for q, fn in mod.functions.items():
            locs = local_names(fn)
            for n in walk_no_nested(fn):
                if isinstance(n, (ast.Global, ast.Nonlocal)):
                    if isinstance(n, ast.Global):
                        r1.instance({'function': f'{mn}.{q}', 'global': n.names}, key=f'{mn}.{q}|global')
                        r1.violation(f'{mn}.{q} global {",".join(n.names)}', mod.where(n),
                                     f'{mn}.{q} rebinds module-level name(s) {n.names}: process-wide state written after import')
                    continue
                targets = []
                if isinstance(n, ast.Assign):
                    targets = n.targets
                elif isinstance(n, (ast.AugAssign, ast.AnnAssign)):
                    targets = [n.target]
                elif isinstance(n, ast.Delete):
                    targets = n.targets
                hits = []
                for t in targets:
                    for tt in (t.elts if isinstance(t, (ast.Tuple, ast.List)) else [t]):
                        if isinstance(tt, (ast.Attribute, ast.Subscript)):
                            b = base_name(tt)
                            if b and b not in locs and (b in modlevel or b in classnames or mod.module_alias_of(b) in src.mods):
                                hits.append(unparse(tt))
                            if b in ('cls',) or unparse(tt).startswith(('self.__class__.', 'type(self).')):
                                hits.append(unparse(tt))
                if isinstance(n, ast.Call) and isinstance(n.func, ast.Attribute) and n.func.attr in MUTATORS:
                    b = base_name(n.func.value)
                    if b and b not in locs and (b in modlevel or b in classnames):
                        hits.append(unparse(n.func))
                    if b == 'cls' and isinstance(n.func.value, ast.Attribute):
                        hits.append(unparse(n.func))
                for h in hits:
                    if api_reach is not None and f'{mn}.{q}' not in api_reach and not any(r.startswith(f'{mn}.{q}.') for r in api_reach):
                        # not reachable from compile / select / match / filter / closest / purge ...: the function runs while the
                        # package is imported (under the import lock), never during a call the property speaks of
                        r1.instance({'function': f'{mn}.{q}', 'writes_module_or_class_state': h, 'reachable_from_the_api': False}, key=f'{mn}.{q}|{h}')
                        continue
                    r1.instance({'function': f'{mn}.{q}', 'writes_module_or_class_state': h}, key=f'{mn}.{q}|{h}')
                    r1.violation(f'{mn}.{q} writes {h}', mod.where(n),
                                 f'{mn}.{q} writes `{h}`, a module- or class-level object shared by all threads')
            # mutable defaults
            for d in fn.args.defaults + [x for x in fn.args.kw_defaults if x is not None]:
                if isinstance(d, (ast.List, ast.Dict, ast.Set)) or (isinstance(d, ast.Call) and call_name(d) in ('list', 'dict', 'set')):
                    r1.instance({'function': f'{mn}.{q}', 'mutable_default': unparse(d)}, key=f'{mn}.{q}|default')
                    r1.violation(f'{mn}.{q} mutable default {unparse(d)}', mod.where(d),
                                 f'{mn}.{q} has the mutable default `{unparse(d)}`, one object shared by all calls and threads')
    # class-level mutable containers reached through `self`: one object shared by every instance (and thread)
    for mn, mod in src.mods.items():
        for cq, cnode in mod.classes.items():
            if '.' in cq:
                continue
            shared_attrs = {}
            for st in cnode.body:
                if isinstance(st, (ast.Assign, ast.AnnAssign)) and st.value is not None:
                    tgt = st.targets[0] if isinstance(st, ast.Assign) else st.target
                    v = st.value
                    mutable = isinstance(v, (ast.List, ast.Dict, ast.Set, ast.ListComp, ast.DictComp, ast.SetComp)) or (
                        isinstance(v, ast.Call) and call_name(v).split('.')[-1] in ('list', 'dict', 'set', 'defaultdict', 'OrderedDict',
                                                                                     'deque', 'Counter', 'bytearray'))
                    if mutable and isinstance(tgt, ast.Name):
                        shared_attrs[tgt.id] = st
            if not shared_attrs:
                continue
            users = [f'{mn}.{cq}'] + src.subclasses(f'{mn}.{cq}')
            for u in users:
                um, _, ucn = u.partition('.')
                umod = src.mods[um]
                init = umod.functions.get(f'{ucn}.__init__')
                shadowed = set()
                if init is not None:
                    for n in walk_no_nested(init):
                        if isinstance(n, ast.Assign):
                            for t in n.targets:
                                if isinstance(t, ast.Attribute) and isinstance(t.value, ast.Name) and t.value.id == 'self':
                                    shadowed.add(t.attr)
                for q, fn in umod.functions.items():
                    if not q.startswith(ucn + '.') or q.count('.') != 1:
                        continue
                    for n in walk_no_nested(fn):
                        hit = None
                        if isinstance(n, ast.Call) and isinstance(n.func, ast.Attribute) and n.func.attr in MUTATORS | {'add', 'discard'} \
                                and isinstance(n.func.value, ast.Attribute) and isinstance(n.func.value.value, ast.Name) \
                                and n.func.value.value.id in ('self', 'cls') and n.func.value.attr in shared_attrs \
                                and n.func.value.attr not in shadowed:
                            hit = unparse(n.func)
                        if isinstance(n, (ast.Subscript,)) and isinstance(n.ctx, (ast.Store, ast.Del)) and isinstance(n.value, ast.Attribute) \
                                and isinstance(n.value.value, ast.Name) and n.value.value.id in ('self', 'cls') \
                                and n.value.attr in shared_attrs and n.value.attr not in shadowed:
                            hit = unparse(n)
                        if hit:
                            r1.instance({'function': f'{um}.{q}', 'writes_class_level_container': hit}, key=f'{um}.{q}|{hit}')
                            r1.violation(f'{um}.{q} writes {hit}', umod.where(n),
                                         f'{um}.{q} mutates `{hit}`: the container is created once in the body of class {cq} and is '
                                         f'shared by every instance and thread (no instance attribute shadows it)')
    r1.instance({'functions_scanned_for_module/class-level writes': sum(len(m.functions) for m in src.mods.values())},
                key='scan', nontrivial=False)

    # ---- R2 ------------------------------------------------------------------------------------------------
    r2 = report.rule('C14-R2', 'parser and matcher objects are call-local', floor=4)
    percall = {'css_parser.CSSParser', 'css_match.CSSMatch', 'css_parser._Selector', 'css_match._FakeParent'}
    # further per-call classes: package classes that are not value classes and are only ever constructed inside functions (a parse
    # state, a cursor, a context object): storing a per-call object in a field of such an object does not publish it
    ctor_sites = {}
    for mn_, mod_ in src.mods.items():
        for n_ in ast.walk(mod_.tree):
            if isinstance(n_, ast.Call):
                cref_ = src.resolve_class_ref(mod_, n_.func)
                if cref_:
                    ctor_sites.setdefault(cref_, []).append(mod_.enclosing_function(n_))
    percall_holders = {c for c, sites in ctor_sites.items() if c not in imm and all(q_ is not None and not q_.endswith('>') for q_ in sites)
                       and not any(b.split('.')[-1] in ('Exception', 'NamedTuple') for b in [unparse(x) for x in src.cls(c)[1].bases])} | percall
    for mn, mod in src.mods.items():
        for n in ast.walk(mod.tree):
            if not isinstance(n, ast.Call):
                continue
            cref = src.resolve_class_ref(mod, n.func)
            if cref not in percall:
                continue
            fnq = mod.enclosing_function(n)
            par = mod.parents.get(n)
            how = 'other'
            ok = False
            if isinstance(par, ast.Attribute) and par.value is n:
                how, ok = 'receiver of an immediate method call', True
            elif isinstance(par, ast.Return):
                how, ok = 'returned to the caller', fnq is not None
            elif isinstance(par, ast.Assign) and all(isinstance(t, ast.Name) for t in par.targets) and fnq is not None \
                    and 'class' not in (how,):
                fnode = mod.functions.get(fnq)
                is_fn_scope = fnode is not None and any(par is x for x in ast.walk(fnode))
                how, ok = 'bound to a local name', is_fn_scope
            elif isinstance(par, ast.Call) and fnq is not None:
                # argument of a call: only list building of the per-compile working set is accepted
                cn = call_name(par)
                ok = cn.endswith('.append') and not cn.startswith('self.')
                how = f'argument of {cn}'
            elif isinstance(par, (ast.List, ast.Tuple)) and fnq is not None:
                how, ok = 'element of a local list', True
            elif isinstance(par, (ast.Assign, ast.AnnAssign)) and fnq is not None and '.' in fnq and all(
                    isinstance(t, ast.Attribute) and isinstance(t.value, ast.Name) and t.value.id == 'self'
                    for t in (par.targets if isinstance(par, ast.Assign) else [par.target])) and f'{mn}.{fnq.split(".")[0]}' in percall_holders:
                how, ok = f'field of a per-call {fnq.split(".")[0]} object', True
            if fnq is None or fnq.endswith('>'):
                ok = ok and how == 'receiver of an immediate method call'
            r2.instance({'construction': f'{mn}.{fnq or "<module>"}: {unparse(n)[:60]}', 'use': how, 'call_local': ok},
                        key=f'{mn}.{fnq}|{unparse(n)[:60]}|{getattr(n, "lineno", 0) - getattr(mod.functions.get(fnq), "lineno", 0) if fnq in mod.functions else 0}')
            r2.obligation(ok)
            if not ok:
                r2.violation(f'{mn}.{fnq or "<module>"} publishes {cref.split(".")[1]} ({how})', mod.where(n),
                             f'a {cref.split(".")[1]} object is {how} in {mn}.{fnq or "<module>"}: per-call mutable state '
                             f'outlives the call / is visible to other threads')

    # ---- R3 ------------------------------------------------------------------------------------------------
    r3 = report.rule('C14-R3', 'process-wide caches hold immutable values and read no variable state', floor=1)
    n_cached = 0
    for mn, mod in src.mods.items():
        for q, fn in mod.functions.items():
            decos = [d for d in fn.decorator_list if 'lru_cache' in unparse(d) or unparse(d).endswith('cache')]
            if not decos:
                continue
            n_cached += 1
            ret = unparse(fn.returns) if fn.returns is not None else '?'
            ok = ret in IMMUTABLE_RETURNS or (fn.returns is not None and {x.id for x in ast.walk(fn.returns) if isinstance(x, ast.Name)} | {
                x.attr for x in ast.walk(fn.returns) if isinstance(x, ast.Attribute)} | {str(x.value) for x in ast.walk(fn.returns) if isinstance(x, ast.Constant)}
                <= IMMUTABLE_RETURNS | {'Optional', 'Union', 'tuple', 'Tuple', 'frozenset', 'FrozenSet', 'Pattern', 'typing', 're', 'Ellipsis', 'Final', 'Literal'})
            cref = src.resolve_class_ref(mod, fn.returns) if fn.returns is not None else None
            if cref in imm:
                ok = True
            params = local_names(fn)
            free = set()
            for st in fn.body:
                for x in ast.walk(st):
                    if isinstance(x, ast.Name) and isinstance(x.ctx, ast.Load) and x.id not in params \
                            and not hasattr(builtins, x.id):
                        free.add(x.id)
            bad_free = sorted(f for f in free if not (f in mod.functions or f in mod.classes or f in mod.aliases
                                                      or f.isupper()))
            r3.instance({'cached_function': f'{mn}.{q}', 'returns': ret, 'immutable_value': ok,
                         'free_variables': sorted(free), 'non_constant_free': bad_free}, key=f'{mn}.{q}')
            r3.obligation(ok and not bad_free)
            if not ok:
                r3.violation(f'{mn}.{q} cached mutable {ret}', mod.where(fn),
                             f'{mn}.{q} is memoised process-wide but returns `{ret}`, which is not an immutable value: every '
                             f'caller (and thread) with equal arguments gets the same mutable object')
            for f in bad_free:
                r3.violation(f'{mn}.{q} cached reads {f}', mod.where(fn),
                             f'{mn}.{q} is memoised but reads the module-level variable {f}')
    r3.instance({'memoised_functions': n_cached}, key='count', nontrivial=False)
    # module-level dict/list/set used as ad-hoc caches: a module-level mutable literal that some function indexes
    # and stores into is already reported by R1.
