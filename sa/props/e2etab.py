"""Metamorphic tables over concrete selector texts, compiled by interpretation (sa.e2e).  All of them are bounded in the texts
they enumerate: a failing row is a genuine counterexample (a text, and what it compiles to), a clean table is not a proof."""
from __future__ import annotations

import itertools
import re

from ..core import AnalysisError
from ..e2e import Outcome, alternatives, compile_text, list_fact, prefetch
from ..interp import Raised, call_function
from ..miniev import Unsupported

MAND, OPT = '\u2423', '\u00b7'      # slot markers in templates: white space required / white space optional

MAND_VARIANTS = [' ', '\t', '\n', '\r', '\f', '\r\n', '  ', '\n    ', ' /* c */ ', '/* c */ ', ' /* c */', ' /**/ /* x */ ', '\r\n\r\n']
OPT_VARIANTS = ['', ' ', '\t', '\n', '\r\n', '  ', '/* c */', ' /* c */ ', '/**/\n', '\f']

TEMPLATES = [
    f'a{MAND}b', f'{OPT}a{OPT}>{OPT}b{OPT}', f'a{OPT}+{OPT}b', f'a{OPT}~{OPT}b', f'{OPT}a{OPT},{OPT}b{OPT}', f'a{MAND}b{OPT}>{OPT}c{MAND}d',
    f':is({OPT}a{OPT},{OPT}b{OPT})', f':where({OPT}a{OPT},{OPT}b{OPT})', f':not({OPT}a{MAND}b{OPT},{OPT}c{OPT})', f'a:has({OPT}>{OPT}b{OPT},{OPT}+{OPT}c{MAND}d{OPT})',
    f'p:nth-child({OPT}2n+1{OPT})', f'p:nth-child({OPT}2n+1{MAND}of{MAND}.x{OPT},{OPT}.y{OPT})', f'p:nth-last-of-type({OPT}odd{OPT})',
    f'[{OPT}a{OPT}]', f'[{OPT}a{OPT}={OPT}b{OPT}]', f'[{OPT}a{OPT}~={OPT}"b"{MAND}i{OPT}]', f'[{OPT}x|a{OPT}^={OPT}\'b\'{OPT}]',
    f':lang({OPT}en{OPT},{OPT}"fr"{OPT})', f':-soup-contains({OPT}"x"{OPT},{OPT}y{OPT})', f':-soup-contains-own({OPT}x{OPT})', f':dir({OPT}ltr{OPT})',
    f'p{MAND}*{OPT}>{OPT}b', f'a.b#c{MAND}d:root{OPT},{OPT}e',
]


def _fill(template, mand=' ', opt=''):
    return template.replace(MAND, mand).replace(OPT, opt)


def _refused(rule, text, outcome):
    """A text of the table's own pool - a valid selector by the Selectors specification - is refused by the parser."""
    if any(f.key == f'valid selector `{text}` is refused' for f in rule.findings):
        return
    rule.obligation(False)
    rule.violation(f'valid selector `{text}` is refused', 'soupsieve/css_parser.py',
                   f'{text!r} is a valid selector, but compiling it raises {outcome.raises}' + (f' ({outcome.message})' if outcome.message else ''))


def _same(a: Outcome, b: Outcome):
    return a == b


def _template_texts(t, deep):
    slots = [(m.start(), m.group()) for m in re.finditer(f'[{MAND}{OPT}]', t)]
    texts = []
    for i, (pos, kind) in enumerate(slots):
        for v in (MAND_VARIANTS if kind == MAND else OPT_VARIANTS):
            parts = []
            k = 0
            for ch in t:
                if ch in (MAND, OPT):
                    parts.append(v if k == i else (' ' if ch == MAND else ''))
                    k += 1
                else:
                    parts.append(ch)
            texts.append(''.join(parts))
    for mv, ov in itertools.product(MAND_VARIANTS if deep else MAND_VARIANTS[:7:2] + MAND_VARIANTS[8:9], OPT_VARIANTS if deep else OPT_VARIANTS[1::3]):
        texts.append(_fill(t, mv, ov))
    return list(dict.fromkeys(texts))


def _respelling_texts(deep):
    for t in TEMPLATES:
        yield _fill(t)
        yield from _template_texts(t, deep)


def respelling_table(ctx, rule, deep=False):
    """White space and comments wherever CSS allows them: every spelling of a slot compiles to the structure of the canonical
    spelling (one space where white space is required, nothing where it is optional)."""
    bad = None
    n = 0
    prefetch(ctx, list(_respelling_texts(deep)))
    for t in TEMPLATES:
        base_text = _fill(t)
        base = compile_text(ctx, base_text)
        if base.raises:
            _refused(rule, base_text, base)
            continue
        texts = _template_texts(t, deep)
        for text in dict.fromkeys(texts):
            got = compile_text(ctx, text)
            n += 1
            if not _same(got, base) and bad is None:
                bad = (base_text, text, got)
        rule.instance({'selector': base_text, 'respellings_compared': len(set(texts))}, key=f'respell|{base_text}')
    rule.obligation(bad is None)
    rule.instance({'rows': n}, key='respell-rows')
    if bad is not None:
        base_text, text, got = bad
        rule.violation(f'respelling of `{base_text}`', 'soupsieve/css_parser.py (tokenizer patterns / parse_selectors)',
                       f'{text!r} differs from {base_text!r} only in white space and comments at places where CSS allows them, but it '
                       f'{"raises " + got.raises + (": " + got.message if got.message else "") if got.raises else "compiles to a different structure"}'
                       f': the compiled meaning depends on the spelling, not on the token sequence')


EQUIV = [
    # (what, canonical, respellings) - escapes, quoting, case
    ('escape in a type selector', 'abc', ['\\61 bc', 'a\\62 c', '\\000061bc', 'ab\\63', 'ab\\63 ', '\\61\tbc', '\\61\r\nbc', '\\a\\b\\c'.replace('\\a', '\\61 ').replace('\\b', 'b').replace('\\c', 'c')]),
    ('escape in a class', '.abc', ['.\\61 bc', '.a\\62 c', '.ab\\63']),
    ('escape in an id', '#abc', ['#\\61 bc', '#ab\\000063']),
    ('escape of a character that is not a name character', '.a\\.b', ['.a\\2e b', '.a\\00002eb', '.a\\2E b']),
    ('escaped leading digit', '#\\31 0', ['#\\31\t0', '#\\000031 0', '#\\0000310']),
    ('escape in an attribute name', '[abc]', ['[\\61 bc]', '[ab\\63 ]']),
    ('quoting of an attribute value', '[x="abc"]', ['[x=abc]', "[x='abc']", '[x="\\61 bc"]', '[x=\\61 bc]', "[x='ab\\63']", '[x="a\\\nbc"]', '[x="a\\\r\nbc"]']),
    ('quoting of a value with a space', '[x="a b"]', ["[x='a b']", '[x=a\\ b]', '[x="a\\20 b"]', '[x=a\\20 b]']),
    ('quoting in :lang()', ':lang("en")', [':lang(en)', ":lang('en')", ':lang(\\65 n)', ':lang("\\65 n")']),
    ('quoting in :-soup-contains()', ':-soup-contains("abc")', [':-soup-contains(abc)', ":-soup-contains('abc')", ':-soup-contains("\\61 bc")']),
    ('hex escape of U+0001 in a string', '[x="\x01"]', ['[x="\\1 "]', '[x="\\000001"]', '[x="\\01 "]']),
    ('hex escape of U+007F in a string', '[x="\x7f"]', ['[x="\\7f "]', '[x="\\7F "]', '[x="\\00007f"]']),
    ('hex escape of U+0080 in a string', '[x="\x80"]', ['[x="\\80 "]', '[x="\\000080"]']),
    ('hex escape of U+D7FF', '[x="\ud7ff"]', ['[x="\\d7ff "]', '[x="\\00D7FF"]']),
    ('hex escape of U+E000', '[x="\ue000"]', ['[x="\\e000 "]', '[x="\\00e000"]']),
    ('hex escape of U+FFFD', '[x="\ufffd"]', ['[x="\\fffd "]', '[x="\\0 "]', '[x="\\000000"]', '[x="\\110000 "]', '[x="\\ffffff"]']),
    ('hex escape of U+FFFF', '[x="\uffff"]', ['[x="\\ffff "]', '[x="\\00FFFF"]']),
    ('hex escape of U+10000', '[x="\U00010000"]', ['[x="\\10000 "]', '[x="\\010000"]']),
    ('hex escape of the last code point', '[x="\U0010ffff"]', ['[x="\\10ffff "]', '[x="\\10FFFF"]', '[x="\\10FFFF "]']),
    ('hex escape of the last code point in an identifier', '.a\U0010ffff', ['.a\\10ffff ', '.a\\10FFFF']),
    ('hex escape in an identifier, astral', '#\U0001f600', ['#\\1f600 ', '#\\01F600']),
    ('escapes in the name of :nth-child', ':nth-child(2)', [':\\6e th-child(2)', ':n\\74 h-child(2)', ':\\4E th-child(2)', ':nth-\\43 hild(2)', ':nth-chil\\64 (2)']),
    ('escapes in the name of :nth-last-of-type', ':nth-last-of-type(2n+1)', [':nth-\\4C ast-of-type(2n+1)', ':nth-last-\\4f f-type(2n+1)', ':\\6e th-last-of-type(2n+1)']),
    ('escapes in the name of :not', ':not(a)', [':n\\6ft(a)', ':\\4e OT(a)', ':no\\74 (a)']),
    ('escapes in the name of :is / :where / :has', ':is(a):where(b):has(> c)', [':\\69s(a):w\\68 ere(b):h\\61s(> c)', ':\\49 S(a):WHER\\45 (b):ha\\53 (> c)']),
    ('escapes in the name of a simple pseudo-class', ':first-child:root:checked', [':f\\69rst-child:r\\6f ot:\\63 hecked', ':\\46 irst-child:roo\\54 :CHECKE\\44 ']),
    ('escapes in :lang / :dir / :-soup-contains names', ':lang(en):dir(ltr):-soup-contains(x)', [':l\\61ng(en):d\\69r(ltr):-soup-c\\6f ntains(x)', ':\\4c ANG(en):DI\\52 (ltr):-SOUP-\\43 ONTAINS(x)']),
    ('escapes in the attribute name type', '[type=TEXT]', ['[t\\79pe=TEXT]', '[\\74ype=TEXT]', '[typ\\65=TEXT]', '[typ\\65 =TEXT]']),
    ('escapes in the attribute name type, with operator', '[type^="Te"]', ['[t\\79pe^="Te"]', '[typ\\65 ^="Te"]']),
    ('escapes in a namespaced attribute name', '[*|type="A"]', ['[*|t\\79pe="A"]', '[*|typ\\65="A"]']),
    ('an identifier range that begins with an escaped quote', ':lang("\\"de\\"")', [':lang(\\"de\\")', ':lang(\\22 de\\22 )']),
    ('an identifier needle that begins with an escaped quote', ':-soup-contains("\\"a b\\"")', [':-soup-contains(\\"a\\ b\\")']),
    ('an attribute value that begins with an escaped quote', '[x="\\"q\\""]', ['[x=\\"q\\"]', "[x='\\22q\\22']"]),
    ('comments in a :-soup-contains() list', ':-soup-contains("a", "b")', [':-soup-contains("a" /* or */ , "b")', ':-soup-contains(/* x */"a"/* "y" */,/* z */"b"/**/)', ':-soup-contains("a",/* , "c" */ "b")']),
    ('comments in a :lang() list', ':lang(en, fr)', [':lang(en /* de */ , fr)', ':lang(/* x */ en,/* , it */ fr /* y */)']),
    ('comments around of in :nth-child()', ':nth-child(2n+1 of p)', [':nth-child(2n+1/* c */ of p)', ':nth-child(2n+1 of/* c */ p)', ':nth-child(2n+1 /* c */of/* d */ p)', ':nth-child(2n+1/**/ of /**/p)']),
    ('case of a pseudo-class name', ':is(a)', [':IS(a)', ':Is(a)']),
    ('case of :not', ':not(a)', [':NOT(a)', ':Not(a)']),
    ('case of :has', ':has(> a)', [':HAS(> a)']),
    ('case of a simple pseudo-class', ':root', [':ROOT', ':Root']),
    ('case of a state pseudo-class', ':checked', [':CHECKED', ':Checked']),
    ('case of :nth-child and its keywords', ':nth-child(2n+1 of b)', [':NTH-CHILD(2n+1 of b)', ':nth-child(2N+1 of b)', ':nth-child(2n+1 OF b)', ':Nth-Child(2N+1 Of b)']),
    ('case of even/odd', ':nth-child(even)', [':nth-child(EVEN)', ':nth-child(Even)', ':NTH-CHILD(eVeN)']),
    ('odd is 2n+1', ':nth-of-type(odd)', [':nth-of-type(ODD)', ':nth-of-type(2n+1)', ':nth-of-type(2N+1)', ':nth-of-type(+2n+1)', ':nth-of-type(2n + 1)']),
    ('even is 2n', ':nth-last-child(even)', [':nth-last-child(2n)', ':nth-last-child(2n+0)', ':nth-last-child(+2N)']),
    ('case of :dir() and its argument', ':dir(ltr)', [':DIR(ltr)', ':dir(LTR)', ':Dir(Ltr)']),
    ('case of :dir(rtl)', ':dir(rtl)', [':dir(RTL)', ':DIR(Rtl)']),
    ('case of the i flag', '[a=b i]', ['[a=b I]', '[a="b" i]', '[a="b"i]', "[a='b' I]"]),
    ('case of the s flag', '[a=b s]', ['[a=b S]', '[a="b"s]']),
    ('case of :lang', ':lang(en)', [':LANG(en)', ':Lang(en)']),
    ('case of :-soup-contains', ':-soup-contains(x)', [':-SOUP-CONTAINS(x)', ':-Soup-Contains(x)']),
    ('case of :-soup-contains-own', ':-soup-contains-own(x)', [':-SOUP-CONTAINS-OWN(x)']),
    ('case of :any-link / :link', ':any-link', [':ANY-LINK', ':link', ':LINK']),
    ('case of a custom pseudo-class', ':--foo', [':--FOO', ':--Foo']),
]


def equivalent_spellings_table(ctx, rule, only=None):
    """Escapes, quoting styles and letter case in keywords: the listed spellings compile to the structure of the canonical one."""
    custom = {':--foo': 'a.b'}
    bad = None
    n = 0
    for what, canon, others in EQUIV:
        if only is not None and not any(o in what for o in only):
            continue
        cust = custom if '--' in canon else None
        base = compile_text(ctx, canon, custom=cust)
        if base.raises:
            _refused(rule, canon, base)
            continue
        for text in others:
            got = compile_text(ctx, text, custom=cust)
            n += 1
            if got != base and bad is None:
                bad = (what, canon, text, got)
        rule.instance({'class': what, 'canonical': canon, 'spellings': others}, key=f'spell|{what}')
    rule.obligation(bad is None)
    if bad is not None:
        what, canon, text, got = bad
        rule.violation(f'spelling `{text}` of `{canon}`', 'soupsieve/css_parser.py',
                       f'{what}: {text!r} and {canon!r} are spellings of the same token sequence, but {text!r} '
                       f'{"raises " + got.raises + (": " + str(got.message) if got.message else "") if got.raises else "compiles to a different structure: " + got.brief(200)}')


POOL = ['a', 'a b', '.c > d', 'x|y', ':checked', ':nth-child(2)', '[t=v]', ':lang(en)', ':has(> i)', ':root', ':-soup-contains(z)', 'a:not(.b)',
        ':is(p, q)', '*|e + f', ':first-child', ':disabled', '#i ~ j', '[type="X" i]', ':placeholder-shown', ':in-range']


SEPARATORS = [',', ' ,', ' /* c */, ', ' ,/* c */ ', '\n,\n', ' /* c */ , /* d */ ', '\r\n,\r\n', '\t,']
CYCLE = set(zip(POOL, POOL[1:] + POOL[:1]))


def list_union_table(ctx, rule, deep=False):
    """`A, B` compiles to the alternatives of A followed by those of B, and so do the lists inside :is(), :where(), :not():
    no alternative changes how a sibling alternative is compiled."""
    seps_ = SEPARATORS if deep else SEPARATORS[2:6]
    pre = list(POOL)
    for a_, b_ in itertools.product(POOL, POOL if deep else POOL[::2] + POOL[1:2]):
        pre.append(f'{a_}, {b_}')
        if (a_, b_) in CYCLE:
            pre += [f'{a_}{sp}{b_}' for sp in seps_]
            for w in (':is(%s)', ':not(%s)', ':where(%s)'):
                pre += [w % f'{a_}, {b_}', w % a_, w % b_] + [w % f'{a_}{sp}{b_}' for sp in seps_]
    prefetch(ctx, pre)
    single = {}
    for a in POOL:
        o = compile_text(ctx, a)
        if o.raises:
            _refused(rule, a, o)
            return
        single[a] = alternatives(o.ir)
    bad = None
    n = 0
    seps = SEPARATORS if deep else SEPARATORS[2:6]
    for a, b in itertools.product(POOL, POOL if deep else POOL[::2] + POOL[1:2]):
        for wrap, inner in ((None, None), (':is(%s)', 'selectors'), (':not(%s)', 'selectors'), (':where(%s)', 'selectors')):
            if wrap is None:
                got = compile_text(ctx, f'{a}, {b}')
                want = None if got.raises else tuple(single[a]) + tuple(single[b])
                have = None if got.raises else alternatives(got.ir)
                if have == want and (a, b) in CYCLE:
                    # the comma in other clothes (white space and comments on either side)
                    for sep in seps:
                        g2 = compile_text(ctx, f'{a}{sep}{b}')
                        n += 1
                        if (None if g2.raises else alternatives(g2.ir)) != want:
                            got, have = g2, None
                            a_b_text = f'{a}{sep}{b}'
                            if bad is None:
                                bad = (a_b_text, a, b, g2)
                            break
            else:
                if (a, b) not in CYCLE:
                    continue        # the wrapped forms are compared on a cycle of pairs
                got = compile_text(ctx, wrap % f'{a}, {b}')
                ga, gb = compile_text(ctx, wrap % a), compile_text(ctx, wrap % b)
                if got.raises or ga.raises or gb.raises:
                    have, want = (got.raises, ga.raises, gb.raises), (None, None, None)
                else:
                    def inner_alts(o):
                        sel = dict(alternatives(o.ir)[0][1:])
                        lst = sel['selectors'][0]
                        return alternatives(lst)
                    have, want = inner_alts(got), tuple(inner_alts(ga)) + tuple(inner_alts(gb))
                    if have == want:
                        for sep in seps:
                            g2 = compile_text(ctx, wrap % f'{a}{sep}{b}')
                            n += 1
                            if g2.raises or inner_alts(g2) != want:
                                if bad is None:
                                    bad = (wrap % f'{a}{sep}{b}', a, b, g2)
                                break
            n += 1
            if have != want and bad is None:
                bad = ((wrap or '%s') % f'{a}, {b}', a, b, got)
    rule.instance({'pairs': n, 'pool': POOL}, key='list-union')
    rule.obligation(bad is None)
    if bad is not None:
        text, a, b, got = bad
        rule.violation(f'list `{text}`', 'soupsieve/css_parser.py (parse_selectors)',
                       f'{text!r} does not compile to the alternatives of {a!r} followed by those of {b!r}'
                       f'{" (it raises " + got.raises + ")" if got.raises else ""}: an alternative is dropped, duplicated or compiled '
                       f'differently because of its neighbour, so the list is not the union of its alternatives')


def _esc(ctx, s):
    try:
        return call_function(ctx, 'css_parser.escape', [s], {}, {}, None, {'regex_engine': True, 'persist': ctx._cache.setdefault('e2e-persist', {})})
    except Raised as e:
        return Outcome(raises=e.exc_name)
    except Unsupported as e:
        raise AnalysisError(f'escape({s!r}): outside the evaluable fragment: {e}')


HOSTILE = ['\x00', '\x01', '\x1f', '\x7f', '\x80', '\x9f', '\xa0', '0', '9', '-', '_', 'a', 'Z', ' ', '\t', '\n', '\r', '\f', '!', '~', '\\', '"', "'", '(', ')',
           '[', ']', ',', '>', '+', '*', '|', ':', '#', '.', '/', '@', '\ud800', '\udfff', '\U0010ffff', '\ufffd', '\u00e9', '\u2028', '\u3000', '\x0b', '\x1c']


def escape_roundtrip_table(ctx, rule):
    """escape(s) read back by the parser: `#` + escape(s) compiles to the id s, `.` + escape(s) to the class s, escape(s) alone
    to the type selector s, and `[a=` + escape(s) + `]` to the structure of the quoted value (NUL reads back as U+FFFD)."""
    strings = []
    for c in HOSTILE:
        strings += [c, '-' + c, 'a' + c, c + 'a', 'a' + c + 'b', '--' + c, c + c]
    strings += ['', '-', '--', '-0', '0a', 'a b c', '\\61', 'a\\', '\x00\x00', 'x' * 40]
    bad = None
    n = 0
    encs = {}
    pre = []
    for s in dict.fromkeys(strings):
        if not s:
            continue
        encs[s] = _esc(ctx, s)
        if not isinstance(encs[s], Outcome):
            lit_ = '"' + ''.join(c if c not in '"\\\n\r\f' and c != '\x00' else ('\\%x ' % ord(c) if c != '\x00' else '\ufffd') for c in s) + '"'
            pre += ['#' + encs[s], '.' + encs[s], encs[s], '[a=' + encs[s] + ']', '[a=' + lit_ + ']']
    prefetch(ctx, pre)
    for s in dict.fromkeys(strings):
        if not s:
            continue
        want = s.replace('\x00', '\ufffd')
        enc = encs[s]
        if isinstance(enc, Outcome):
            if bad is None:
                bad = (s, None, f'escape() raises {enc.raises}')
            continue
        for prefix, field in (('#', 'ids'), ('.', 'classes'), ('', 'tag')):
            got = compile_text(ctx, prefix + enc)
            n += 1
            problem = None
            if got.raises:
                problem = f'raises {got.raises}' + (f' ({got.message})' if got.message else '')
            else:
                alts = alternatives(got.ir)
                if len(alts) != 1:
                    problem = f'compiles to {len(alts)} alternatives'
                else:
                    d = dict(alts[0][1:])
                    if field == 'tag':
                        tag = dict(d['tag'][1:]) if d['tag'] else {}
                        val = (tag.get('name'),) if tag.get('prefix') is None else ('prefix!', tag.get('prefix'), tag.get('name'))
                    else:
                        val = d[field]
                    rest_empty = not any(d[k] for k in ('ids', 'classes', 'attributes', 'nth', 'selectors', 'contains', 'lang') if k != field) \
                        and not d['flags'] and not alternatives(d['relation'])
                    if val != (want,) or not rest_empty or (field != 'tag' and dict(d['tag'][1:]).get('name') != '*' if d['tag'] else False):
                        problem = f'compiles to {field} {val!r}' + ('' if rest_empty else ' plus other constraints')
            if problem and bad is None:
                bad = (s, prefix + enc, problem)
        # attribute value
        got = compile_text(ctx, '[a=' + enc + ']')
        lit = '"' + ''.join(c if c not in '"\\\n\r\f' and c != '\x00' else ('\\%x ' % ord(c) if c != '\x00' else '\ufffd') for c in s) + '"'
        ref = compile_text(ctx, '[a=' + lit + ']')
        n += 1
        if not ref.raises and got != ref and bad is None:
            bad = (s, '[a=' + enc + ']', f'{"raises " + got.raises if got.raises else "compiles to a different structure"} than [a={lit}]')
    rule.instance({'strings': len(set(strings)), 'rows': n}, key='escape-roundtrip')
    rule.obligation(bad is None)
    if bad is not None:
        s, text, problem = bad
        rule.violation(f'escape({s!r}) round trip', 'soupsieve/css_parser.py (escape / css_unescape / IDENTIFIER)',
                       f'escape({s!r}) = {text!r}: read back by the selector parser it {problem}; it must be consumed as the one identifier '
                       f'{s.replace(chr(0), chr(0xfffd))!r}')


ALPHABET = ['a', ' ', ',', '>', '+', '~', '*', '|', '.', '#', ':', '::', '(', ')', '[', ']', '=', '"', "'", '\\', '@', '/*', '*/', '\n', '\r\n', '\x00',
            ':is(', ':not(', ':has(', ':nth-child(', ':lang(', ':-soup-contains(', ':dir(', ':root', ':--x', '2n+1', ' of ', '-', '1', 'i', '!', '$=', '^',
            '\\110000 ', '\\0 ', '\\', '\U0010ffff', '\ud800', '{', '}', '%', '&', ';', '\x7f', '\x80']
ALLOWED = {'SelectorSyntaxError', 'NotImplementedError'}


def error_type_table(ctx, rule, depth=2, custom_too=True):
    """Every text over an alphabet of selector fragments (all sequences up to `depth` fragments, plus longer hand-picked ones)
    compiles or is refused with SelectorSyntaxError / NotImplementedError; a refused text is refused with an offset inside it."""
    texts = ['']
    for k in range(1, depth + 1):
        for combo in itertools.product(ALPHABET, repeat=k):
            texts.append(''.join(combo))
    texts += ['a:is(b', 'a:not(', ':is(a,,b)', ':is(,)', ':not(,)', 'a > > b', '> a', 'a >', 'a,', ',a', '[a', '[a=', '[a="b', '[a=b', 'a[b=c]d', ':nth-child(', ':nth-child()',
              ':nth-child(n of)', ':nth-child(2n+ of a)', ':lang()', ':lang(', ':lang(,)', ':-soup-contains()', ':-soup-contains("a', ':dir()', ':dir(up)', 'a/*', '/* */', 'a /* b',
              '\\', 'a\\', '\\\n', '"', ':--', ':--x:--x', 'a|', '|a', '*|', 'a||b', '.#', '#.', '..a', 'a::before', '@media', 'a @b', ':has()', ':has(>)', ':has(> a,)',
              ':is(a', ':is(a))', ')', '(', ':not(:not(:not(a', '\\110000', '\\ffffff ', '\\0', 'a\x00b', '\x00', ':nth-child(99999999999999999999999999n+1)',
              ':nth-child(1' + '0' * 60 + ')', '[a="\\"]', "[a='\\']", ':root(', ':root()', ':foo', ':foo(a)', '::', ':', 'a:', 'a.', 'a#', 'a[', '$', '^=a', '[^=a]', '[a^]',
              'a[b][', 'a[href], p[id', ':is([a]) [', '/* ] */ a[b', '[a="]"] [', 'a[b] c[', '"]" [', 'a[b]]', ']', 'a]', '[[a]]', '[a][', '[a] [b', '[a=b]c[d=',
              '[a i]', '[a=b x]', '[a=b i s]', 'A|B|C', '\r\n', '\f', ' ', '\t\t', 'a\r\n,\r\nb', '\ud800', '\udc00\ud800', 'a\U0010ffffb', '-', '--', '-1', '1a', 'a,,b']
    bad = None
    pos_bad = None
    n = 0
    kinds = {}
    prefetch(ctx, texts)
    for text in dict.fromkeys(texts):
        got = compile_text(ctx, text)
        n += 1
        kinds[got.raises or 'compiles'] = kinds.get(got.raises or 'compiles', 0) + 1
        if got.raises and got.raises not in ALLOWED and bad is None:
            bad = (text, got)
        if got.raises == 'SelectorSyntaxError' and pos_bad is None:
            args = got.extra.get('args', ())
            ints = [a for a in args[1:] if isinstance(a, int) and not isinstance(a, bool)]
            pats = [a for a in args[1:] if isinstance(a, str)]
            if ints and pats and not (0 <= ints[0] <= len(pats[0])):
                pos_bad = (text, ints[0], pats[0])
    if custom_too:
        for name, definition in ((':--a', ':--a'), (':--a', ':--b'), (':--a', 'x:is('), (':--a', ''), ('--a', 'x'), (':--', 'x'), (':--A', 'x'), (':--a', 'a::b'),
                                 (':--a', '@x'), (':--\\', 'x'), (':--a b', 'x'), (':--a', '\\110000'), (':--a', ':--a, b')):
            for text in (name if name.startswith(':') else ':--a', 'p'):
                got = compile_text(ctx, text, custom={name: definition, ':--b': ':--a'}, cache=False)
                n += 1
                kinds[got.raises or 'compiles'] = kinds.get(got.raises or 'compiles', 0) + 1
                if got.raises and got.raises not in ALLOWED and bad is None:
                    bad = (f'{text} with custom {{{name!r}: {definition!r}, ":--b": ":--a"}}', got)
                if got.raises == 'SelectorSyntaxError' and pos_bad is None:
                    args = got.extra.get('args', ())
                    ints = [a for a in args[1:] if isinstance(a, int) and not isinstance(a, bool)]
                    pats = [a for a in args[1:] if isinstance(a, str)]
                    if ints and pats and not (0 <= ints[0] <= len(pats[0])):
                        pos_bad = (f'{text} with custom {{{name!r}: {definition!r}}}', ints[0], pats[0])
        # the documented KeyError belongs to two names that differ only in case - and to nothing else: the same name spelled once
        # plainly and once with an escape is not that case, whichever comes first
        for custom, dup_by_case in (({':--a': 'p', ':--A': 'div'}, True), ({':--A': 'p', ':--a': 'div'}, True), ({':--a': 'p', ':--\\61': 'div'}, False),
                                    ({':--\\61': 'p', ':--a': 'div'}, False), ({':--x-y': 'p', ':--x\\-y': 'div'}, False), ({':--x\\-y': 'p', ':--x-y': 'div'}, False),
                                    ({':--caf\\e9': 'p', ':--caf\u00e9': 'div'}, False), ({':--a': 'p', ':--b': 'div', ':--\\62': 'i'}, False),
                                    # only ASCII letters are folded: names that coincide under Unicode case folding / upper-casing are different names
                                    ({':--stra\u00dfe': 'p', ':--strasse': 'div'}, False), ({':--\ufb01x': 'p', ':--fix': 'div'}, False),
                                    ({':--\u03c3': 'p', ':--\u03c2': 'div'}, False), ({':--\u212aey': 'p', ':--key': 'div'}, False),
                                    ({':--caf\u00e9': 'p', ':--caf\u00c9': 'div'}, False), ({':--\u0131d': 'p', ':--id': 'div'}, False),
                                    ({':--ID': 'p', ':--id': 'div'}, True), ({':--caf\u00e9': 'p', ':--CAF\u00e9': 'div'}, True)):
            got = compile_text(ctx, 'p', custom=custom, cache=False)
            n += 1
            kinds[got.raises or 'compiles'] = kinds.get(got.raises or 'compiles', 0) + 1
            ok = (got.raises == 'KeyError') if dup_by_case else (got.raises in (None,) + tuple(ALLOWED))
            if not ok and bad is None:
                bad = (f'p with custom {custom!r} (names {"differ only in case" if dup_by_case else "do not differ only in case"})', got)
        # errors inside (multi-line, nested) custom definitions: the offset belongs to the text the error shows
        for custom in ({':--x': 'div > , p'}, {':--x': 'a,\n\n  b > > c'}, {':--x': ':--y', ':--y': 'p:is(a, b'}, {':--x': 'a' * 30 + ' $'}, {':--x': 'ok', ':--y': '[a='}):
            for text in ('a:--x', ':--x', 'p, :--y'):
                got = compile_text(ctx, text, custom=custom, cache=False)
                n += 1
                if got.raises and got.raises not in ALLOWED and bad is None:
                    bad = (f'{text} with custom {custom!r}', got)
                if got.raises == 'SelectorSyntaxError' and pos_bad is None:
                    args = got.extra.get('args', ())
                    ints = [a for a in args[1:] if isinstance(a, int) and not isinstance(a, bool)]
                    pats = [a for a in args[1:] if isinstance(a, str)]
                    if ints and pats and not (0 <= ints[0] <= len(pats[0])):
                        pos_bad = (f'{text} with custom {custom!r}', ints[0], pats[0])
    rule.instance({'texts': n, 'outcomes': kinds}, key='error-types')
    rule.obligation(bad is None and pos_bad is None)
    if bad is not None:
        text, got = bad
        rule.violation(f'compile({text!r}) raises {got.raises}', 'soupsieve/css_parser.py',
                       f'compiling {text!r} raises {got.raises}' + (f' ({got.message})' if got.message else '') +
                       ': every text must either compile or be refused with SelectorSyntaxError (NotImplementedError for at-rules and '
                       'pseudo-elements)')
    if pos_bad is not None:
        text, idx, pat = pos_bad
        rule.violation(f'compile({text!r}) error offset', 'soupsieve/css_parser.py',
                       f'the SelectorSyntaxError for {text!r} is raised with offset {idx}, which lies outside the pattern (length {len(pat)}): '
                       f'line, column and the caret of the diagnostic are then computed for a position that does not exist')



def custom_isolation_table(ctx, rule):
    """Compiling is a function of (pattern, custom map, flags): the structure compiled for a pattern under one custom map is the
    same whether or not other maps - with entries of the same text that mean something else - were compiled before it in the same
    process (module-level state of the interpreted package is carried from one compile to the next)."""
    cases = [
        (':--a', {':--a': ':--b', ':--b': 'p'}, {':--a': ':--b', ':--b': 'div.x'}),
        ('x:--a', {':--a': ':is(:--b, q)', ':--b': 'p > i'}, {':--a': ':is(:--b, q)', ':--b': '[t]'}),
        (':--a, :--c', {':--a': 'p', ':--c': ':--a:not(.y)'}, {':--a': 'li', ':--c': ':--a:not(.y)'}),
        (':--a', {':--a': 'p'}, {':--A': 'div'}),
    ]
    bad = None
    n = 0
    for text, m1, m2 in cases:
        for first, second in ((m1, m2), (m2, m1)):
            state = {}
            compile_text(ctx, text, custom=first, persist=state)
            got = compile_text(ctx, text, custom=second, persist=state)
            again = compile_text(ctx, text, custom=first, persist=state)
            fresh2 = compile_text(ctx, text, custom=second, persist={})
            fresh1 = compile_text(ctx, text, custom=first, persist={})
            n += 5
            ok = got == fresh2 and again == fresh1
            rule.instance({'pattern': text, 'first_map': first, 'second_map': second, 'independent': ok}, key=f'custom-iso|{text}|{sorted(first.items())}')
            if not ok and bad is None:
                bad = (text, first, second, got if got != fresh2 else again, fresh2 if got != fresh2 else fresh1)
    rule.obligation(bad is None)
    if bad is not None:
        text, first, second, got, fresh = bad
        rule.violation(f'custom map isolation `{text}`', 'soupsieve/css_parser.py (parse_pseudo_class_custom / process_custom)',
                       f'compiling {text!r} with custom={second!r} after compiling it with custom={first!r} gives {got.brief(160)}, a fresh process '
                       f'gives {fresh.brief(160)}: what a custom selector expands to depends on maps that were compiled earlier')


HISTORY_POOL = [':nth-child(-n+3)', ':nth-child(-2n+3)', ':nth-child(n-1)', ':nth-child(n-2)', ':nth-child(-1)', ':nth-child(-2)', ':nth-last-child(-n+3)',
                ':nth-of-type(-n+3)', 'a', 'A', 'b', 'a.b', 'a .b', 'a > .b', 'a ~ .b', '[a=b]', '[a="b" i]', '[a^=b]', ':is(a)', ':where(a)', ':not(a)',
                ':has(a)', ':has(> a)', 'a, b', 'b, a', ':nth-child(1)', ':nth-child(0n+1)', ':first-child', ':nth-last-child(1)', ':last-child', ':nth-of-type(1)',
                ':nth-child(1 of a)', ':nth-child(1 of b)', '*', '*|*', '|a', '*|a', 'x|a', ':root', ':empty', ':scope', '&', ':lang(en)', ':lang(de)',
                ':-soup-contains(a)', ':-soup-contains-own(a)', ':-soup-contains("a", "b")', ':dir(ltr)', ':dir(rtl)', ':checked', ':default', '#a', '.a', '#a.a',
                ':not(:nth-child(-n+3))', ':not(:nth-child(-2n+3))', ':is(a, b):not(.c)', ':is(a, b):not(.d)', '', ' ', 'a,', ':nth-child(0)', ':nth-child(-0)']


def compile_history_table(ctx, rule):
    """Compiling is a function of the text: every pattern of a pool compiles to the same structure (or raises the same error)
    whatever patterns were compiled before it in the same process - the module-level state of the interpreted package (tables,
    interned objects, counters) is carried from one compile to the next, in pool order, in reverse order and interleaved."""
    fresh = {t: compile_text(ctx, t, persist={}) for t in HISTORY_POOL}
    orders = {'pool order': list(HISTORY_POOL), 'reverse order': list(reversed(HISTORY_POOL)),
              'interleaved': HISTORY_POOL[::2] + HISTORY_POOL[1::2], 'each twice': [t for t in HISTORY_POOL for _ in (0, 1)]}
    bad = None
    for oname, seq in orders.items():
        state = {}
        before = []
        for t in seq:
            got = compile_text(ctx, t, persist=state)
            ok = got == fresh[t]
            rule.instance({'history': oname, 'pattern': t, 'position': len(before), 'as_fresh': ok}, key=f'history|{oname}|{len(before)}|{t}', sample_cap=4)
            if not ok and bad is None:
                culprit = None
                for prev in dict.fromkeys(before):          # the single earlier pattern that is enough to change the outcome, if there is one
                    st2 = {}
                    compile_text(ctx, prev, persist=st2)
                    if compile_text(ctx, t, persist=st2) != fresh[t]:
                        culprit = prev
                        break
                bad = (oname, t, got, fresh[t], culprit, len(before))
            before.append(t)
    rule.obligation(bad is None)
    if bad is not None:
        oname, t, got, want, culprit, pos = bad
        rule.violation(f'compile history `{t}`', 'soupsieve/css_parser.py / css_types.py (state kept between compiles)',
                       f'{t!r} compiled after ' + (f'{culprit!r}' if culprit is not None else f'{pos} other patterns ({oname})') + f' gives {got.brief(200)}; '
                       f'compiled first in a fresh process it gives {want.brief(200)}: what compile() returns depends on the calls that preceded it')


def _work(ctx, text, custom=None, cap=3_000_000):
    """(evaluator steps + regex matcher steps) needed to compile `text`, or None if a budget ran out."""
    from .. import rematch
    from ..interp import Obj, Raised, call_function
    from .sem import strict_lower
    stats = {}
    opts = {'regex_engine': True, 'real_immutable': True, 'max_depth': 400, 'max_steps': cap, 'stats': stats,
            'persist': ctx._cache.setdefault('e2e-persist', {})}
    stubs = {'util.lower': strict_lower}
    rematch.STEPS[0] = 0
    old = rematch.BUDGET[0]
    rematch.BUDGET[0] = cap
    total = 0
    try:
        me = Obj(_cls='css_parser.CSSParser', _name='parser')
        table = call_function(ctx, 'css_parser.process_custom', [dict(custom)], {}, stubs, None, opts) if custom is not None else None
        total += stats.get('steps', 0)
        call_function(ctx, 'css_parser.CSSParser.__init__', [text, table, 0], {}, stubs, me, opts)
        total += stats.get('steps', 0)
        call_function(ctx, 'css_parser.CSSParser.process_selectors', [], {}, stubs, me, opts)
    except Raised:
        pass
    except RecursionError:
        return None
    except Unsupported as e:
        if 'budget' in str(e):
            return None
        raise AnalysisError(f'work of compiling a text of length {len(text)}: outside the evaluable fragment: {e}')
    finally:
        rematch.BUDGET[0] = old
    return total + stats.get('steps', 0) + rematch.STEPS[0]


FAMILIES = [
    # (description, text(n) [, custom(n)])  - inputs whose size grows linearly with n
    ('white space run between compounds', lambda n: 'a' + ' ' * n + 'b'),
    ('CR LF run between compounds', lambda n: 'a' + '\r\n' * n + 'b'),
    ('CR LF run before an invalid character', lambda n: 'a' + '\r\n' * n + '$'),
    ('comments between compounds', lambda n: 'a' + ' /* c */' * n + ' b'),
    ('white space and comments before an invalid character', lambda n: 'a' + ' /**/' * n + '!'),
    ('unterminated comment openers', lambda n: 'a ' + '/*' * n),
    ('chain of child combinators', lambda n: 'a' + ' > b' * n),
    ('list of alternatives', lambda n: 'a' + ', a' * n),
    ('nested :is()', lambda n: ':is(' * min(n, 40) + 'a' + ')' * min(n, 40)),
    ('nested :not() left open', lambda n: ':not(' * min(n, 40) + 'a'),
    ('long attribute value', lambda n: '[a="' + 'x' * n + '"]'),
    ('long unterminated attribute value', lambda n: '[a="' + 'x' * n),
    ('attribute with white space run before the bracket', lambda n: '[a=b' + ' ' * n + ']'),
    ('attribute with white space run and no bracket', lambda n: '[a=b' + ' ' * n),
    ('hex escapes', lambda n: 'a' + '\\61 ' * n),
    ('backslashes at the end', lambda n: 'a' + '\\' * n),
    ('class chain', lambda n: 'a' + '.b' * n),
    ('white space inside :nth-child()', lambda n: ':nth-child(' + ' ' * n + '2n+1' + ' ' * n + ')'),
    (':nth-child() with a white space run and no parenthesis', lambda n: ':nth-child(2n+1' + ' ' * n),
    (':lang() value list', lambda n: ':lang(' + ', '.join(['en'] * n) + ')'),
    (':lang() value list left open', lambda n: ':lang(' + ', '.join(['"en"'] * n)),
    (':-soup-contains() with a long quoted value left open', lambda n: ':-soup-contains("' + 'x ' * n),
    ('long identifier', lambda n: 'a' * n + '$'),
    ('dashes', lambda n: '-' * n),
    ('trailing white space and comments', lambda n: 'a' + ' /**/ ' * n),
]


def scaling_table(ctx, rule, sizes=(6, 12, 24)):
    """Work (evaluator steps + steps of the analyser's backtracking regex matcher, which explores what sre explores) needed to
    compile inputs of growing size, family by family: doubling the input must not multiply the work by more than 12 (that is,
    growth beyond roughly n^3.5), and no budget may run out.  Also: layered custom aliases are compiled once each."""
    bad = None
    for what, make in FAMILIES:
        work = [_work(ctx, make(n)) for n in sizes]
        ratios = [None if (a is None or b is None or a == 0) else round(b / a, 2) for a, b in zip(work, work[1:])]
        ok = all(w is not None for w in work) and all(r is not None and r <= 12 for r in ratios)
        rule.instance({'family': what, 'sizes': list(sizes), 'work': work, 'growth_per_doubling': ratios, 'polynomial': ok}, key=f'scale|{what}')
        if not ok and bad is None:
            bad = (what, make(sizes[0]), work, ratios)
    # layered aliases: :--a0 -> ':--a1, :--a1' -> ... ; a definition must be compiled once, not once per reference
    def layered(n):
        cm = {f':--a{i}': f':--a{i + 1}, :--a{i + 1}' for i in range(n)}
        cm[f':--a{n}'] = 'p'
        return cm
    work = [_work(ctx, ':--a0', custom=layered(n)) for n in (4, 8, 16)]
    ratios = [None if (a is None or b is None or a == 0) else round(b / a, 2) for a, b in zip(work, work[1:])]
    ok = all(w is not None for w in work) and all(r is not None and r <= 12 for r in ratios)
    rule.instance({'family': 'layered custom aliases, each referenced twice', 'sizes': [4, 8, 16], 'work': work, 'growth_per_doubling': ratios, 'polynomial': ok},
                  key='scale|custom')
    if not ok and bad is None:
        bad = ('layered custom aliases, each referenced twice', ':--a0 with {":--a0": ":--a1, :--a1", ...}', work, ratios)
    rule.obligation(bad is None)
    if bad is not None:
        what, sample, work, ratios = bad
        rule.violation(f'scaling `{what}`', 'soupsieve/css_parser.py',
                       f'compiling inputs of the family "{what}" (smallest: {sample[:60]!r}) at sizes {list(sizes)} takes {work} steps '
                       f'(None = the step budget ran out), growth per doubling {ratios}: super-polynomial work - a short pattern can keep '
                       f'compile() busy for an unbounded time')



def custom_cycle_table(ctx, rule):
    """Custom selector maps with cycles, self references, undefined names, repeated and layered references: a definition that
    (transitively) needs itself is refused with SelectorSyntaxError - not RecursionError -, an undefined name likewise, and a name
    that is referenced several times in one pattern is still defined at the second reference."""
    cases = [
        ('cycle of two', ':--a', {':--a': ':--b', ':--b': ':--a'}, 'SelectorSyntaxError'),
        ('self reference', ':--a', {':--a': 'p:--a'}, 'SelectorSyntaxError'),
        ('cycle of three behind :is()', 'x:--a', {':--a': ':is(:--b)', ':--b': ':not(:--c)', ':--c': 'q, :--a'}, 'SelectorSyntaxError'),
        ('cycle not on the path of the pattern', 'p', {':--a': ':--b', ':--b': ':--a'}, None),
        ('undefined name', ':--nope', {':--a': 'p'}, 'SelectorSyntaxError'),
        ('undefined name inside a definition', ':--a', {':--a': ':--nope'}, 'SelectorSyntaxError'),
        ('same name twice in one pattern', ':--a, :--a', {':--a': 'p'}, None),
        ('same name twice, nested', ':--a:not(:--a > :--a)', {':--a': 'p.x'}, None),
        ('diamond', ':--a', {':--a': ':--b, :--c', ':--b': ':--d', ':--c': ':--d', ':--d': 'p'}, None),
        ('a definition used directly and through another', ':--b, :--a', {':--a': ':--b', ':--b': 'p'}, None),
        ('upper-case reference', ':--A', {':--a': 'p'}, None),
    ]
    bad = None
    for what, text, custom, want in cases:
        got = compile_text(ctx, text, custom=custom, cache=False)
        rule.instance({'case': what, 'pattern': text, 'custom': custom, 'outcome': got.raises or 'compiles', 'expected': want or 'compiles'}, key=f'custom-cycle|{what}')
        if (got.raises or None) != want and bad is None:
            bad = (what, text, custom, got, want)
    rule.obligation(bad is None)
    if bad is not None:
        what, text, custom, got, want = bad
        rule.violation(f'custom selectors: {what}', 'soupsieve/css_parser.py (parse_pseudo_class_custom)',
                       f'compiling {text!r} with custom={custom!r} ({what}) {"raises " + got.raises if got.raises else "compiles"}'
                       + (f' ({got.message})' if got.message else '') + f'; expected: {want or "compiles"}. A definition that needs itself must be '
                       f'refused with SelectorSyntaxError (a nested parser that still sees the name recurses until RecursionError), and a name '
                       f'must stay defined after it was expanded')


def debug_invariance_table(ctx, rule):
    """The DEBUG flag changes no result: a pool of valid and malformed texts (with %, braces, backslashes, quotes, line breaks,
    custom selectors) compiles to the same structure / raises the same error with and without the flag."""
    DEBUG = ctx.consts.const('util', 'DEBUG')
    texts = ['a', 'a > b, c', '[width="100%"]', ':-soup-contains("50% off")', '[a="%s"]', '[a="%(x)s %d"]', '.a\\%b', '#\\{x\\}', '[a="{0}"]', '[a="{"]', ':is(a, b):not(.c)',
             'p:nth-child(2n+1 of .x)', ':lang("de-*", en)', ':dir(rtl)', 'a::b', '@x', 'a[', 'a > > b', ':is(a', '%', 'a %', '[a=%]', ':--c', 'x:--c > y', '\\', 'a\\',
             'a\r\n,\r\nb', '/* % */ a', ':root:empty:checked', ':has(> a, + b)', 'ns|a[ns|b="c" i]']
    custom = {':--c': 'div.x[y="100%"]'}
    prefetch(ctx, texts, flags=0, custom=custom)
    prefetch(ctx, texts, flags=DEBUG, custom=custom)
    bad = None
    for t in texts:
        plain = compile_text(ctx, t, 0, custom)
        dbg = compile_text(ctx, t, DEBUG, custom)
        same = plain == dbg and plain.message == dbg.message
        rule.instance({'text': t, 'without_DEBUG': plain.raises or 'compiles', 'with_DEBUG': dbg.raises or 'compiles', 'same': same}, key=f'debug|{t}', sample_cap=6)
        if not same and bad is None:
            bad = (t, plain, dbg)
    rule.obligation(bad is None)
    if bad is not None:
        t, plain, dbg = bad
        rule.violation(f'DEBUG changes the result for `{t}`', 'soupsieve/css_parser.py (debug output)',
                       f'compiling {t!r} {"raises " + plain.raises if plain.raises else "succeeds"} without the DEBUG flag and '
                       f'{"raises " + dbg.raises + (" (" + str(dbg.message) + ")" if dbg.message else "") if dbg.raises else "succeeds with a different structure"} '
                       f'with it: the flag must only print')
