"""Metamorphic tables over the public API, run by interpretation of the package source on abstract bs4 trees (sa.e2e.api).

Every table compares API results with each other or with a reference that is a one-line formula of the property itself (set
union, the An+B formula, string equality of an id) - never with a second selector engine.  All tables are bounded in the
trees and selectors they enumerate: a failing row is a genuine counterexample, a clean table is not a proof."""
from __future__ import annotations

import itertools

from ..core import AnalysisError
from ..e2e import api, elements, label, make_doc
from ..interp import Obj
from ..tables import TextNode

TREE = [('html', {'_label': 'root', 'lang': 'en'}, [
    ('head', {}, [('title', {}, ['T'])]),
    ('body', {'class': ['main']}, [
        ('div', {'id': 'd1', 'class': ['x', 'y'], '_label': 'd1'}, [
            ('p', {'id': 'p1', 'class': ['x']}, ['hello ', ('b', {}, ['bold']), ' world']),
            ('p', {'id': 'p2', 'lang': 'fr'}, []),
            ('#comment', 'c'),
            ('span', {'class': ['y'], 'title': 'A b'}, ['s']),
            ('p', {'id': 'p3', 'class': ['x', 'z']}, [('a', {'href': '#t', '_label': 'a'}, ['l'])]),
        ]),
        ('ul', {'id': 'u', '_label': 'ul'}, [('li', {'class': ['x']}, ['1']), ('li', {}, ['2']), ('li', {'class': ['z']}, ['3']), ('li', {}, [])]),
        ('form', {}, [('input', {'type': 'text', 'required': ''}, []), ('input', {'type': 'checkbox', 'checked': ''}, []),
                      ('button', {'type': 'submit'}, ['go'])]),
    ])])]

SELECTORS = ['p', '*', '.x', '#p2', 'div > p', 'div p', 'p + p', 'p ~ span', 'li:nth-child(2n+1)', 'li:nth-last-child(-n+2)', 'p:nth-of-type(2)',
             ':first-child', 'li:last-child', 'p:not(.x)', ':is(p, li).x', 'div:has(> span)', 'ul:has(li.z)', ':root', 'p:empty', ':empty',
             '[class~=y]', '[href^="#"]', '[title="a B" i]', '[type=text]', ':checked', ':required', ':enabled', 'p:lang(fr)', ':lang(en)',
             'p:-soup-contains(bold)', 'p:-soup-contains-own(bold)', 'body > *', 'li:only-child, b:only-child', ':link', 'html|p', '*|li', 'x|p',
             ':nth-child(2 of .x)', 'p:first-of-type', ':dir(ltr)', 'input:not(:checked)', 'div :is(b, a)', ':where(ul, form) > :not(li)']


def _ids(nodes):
    return [id(n) for n in nodes]


def _show(nodes):
    return [label(n) for n in nodes]


def api_consistency_table(ctx, rule, deep=False):
    """select / iselect / select_one / limit / filter / closest are views of one relation: match().  For every selector of a
    pool and every element of a tree (HTML and XML flavours) the API results are compared with what match() says element by
    element."""
    from ..e2e import batch_api
    kinds = ('html', 'xml', 'xhtml', 'html5') if deep else ('html', 'xml')
    sels = SELECTORS if deep else SELECTORS[::3] + ['p:not(.x)', ':checked']
    ns = (('namespaces', {'html': 'http://www.w3.org/1999/xhtml', 'x': 'urn:x'}),)
    docs, meta = {}, {}
    for kind in kinds:
        doc, order, L = make_doc(TREE, kind)
        docs[kind] = (doc, order)
        idx = {id(n_): i for i, n_ in enumerate(order)}
        els = [idx[id(e)] for e in elements(order)]
        body = [i for i in els if order[i].get('name') == 'body'][0]
        below = []

        def walk(x):
            for c in x.get('contents'):
                if not isinstance(c, TextNode):
                    below.append(idx[id(c)])
                    walk(c)
        walk(L['d1'])
        meta[kind] = dict(order=order, els=els, body=body, kids=[idx[id(c)] for c in order[body].get('contents') if not isinstance(c, TextNode)],
                          some=els[3::4], closest=[idx[id(L['a'])], els[-1]], d1=idx[id(L['d1'])], below=below)
    reqs, keys = [], []
    for kind in kinds:
        m = meta[kind]
        for s in sels:
            plan = [('select', None, ns), ('iselect', None, ns), ('select_one', None, ns), ('select', None, ns + (('limit', 2),)), ('filter', m['body'], ns),
                    ('filter', m['some'], ns), ('select', m['d1'], ns)] + [('closest', c, ns) for c in m['closest']] + [('filter', ('iter', tuple(m['some'])), ns)] \
                + [('match', e, ns) for e in m['els']]
            for j, (fn, tgt, kw) in enumerate(plan):
                reqs.append((kind, fn, s, tgt, kw))
                keys.append((kind, s, j))
    res = dict(zip(keys, batch_api(ctx, docs, reqs)))
    bad = None
    for kind in kinds:
        m = meta[kind]
        order = m['order']
        show = lambda ixs: [label(order[i]) if isinstance(i, int) and i >= 0 else ('document' if i == -1 else i) for i in ixs]     # noqa: E731
        for s in sels:
            r = [res[(kind, s, j)] for j in range(10 + len(m['els']))]
            sel, isel, one, lim, fbody, fsome, inner, c1, c2, fiter = r[:10]
            verdict = dict(zip(m['els'], r[10:]))
            problems = []
            odd = [v for v in verdict.values() if v[0] != 'ok' or v[1] not in (True, False)]
            if odd:
                problems.append(f'match() gives {odd[0]}')
            acc = [e for e in m['els'] if verdict[e] == ('ok', True)]
            if sel[0] != 'ok':
                problems.append(f'select() raises {sel[1]}')
            else:
                if sel[1] != acc:
                    problems.append(f'select() = {show(sel[1])} but the elements match() accepts, in document order, are {show(acc)}')
                if isel != sel:
                    problems.append(f'iselect() = {show(isel[1]) if isel[0] == "ok" else isel} differs from select() = {show(sel[1])}')
                if one != ('ok', sel[1][0] if sel[1] else None):
                    problems.append(f'select_one() = {show([one[1]]) if one[0] == "ok" else one}, the first of select() is {show(sel[1][:1])}')
                if lim != ('ok', sel[1][:2]):
                    problems.append(f'select(limit=2) = {show(lim[1]) if lim[0] == "ok" else lim}, the first two of select() are {show(sel[1][:2])}')
            want = [c for c in m['kids'] if c in acc]
            if fbody != ('ok', want):
                problems.append(f'filter(body) = {show(fbody[1]) if fbody[0] == "ok" else fbody}, the element children match() accepts are {show(want)}')
            want = [c for c in m['some'] if c in acc]
            if fsome != ('ok', want):
                problems.append(f'filter(list) = {show(fsome[1]) if fsome[0] == "ok" else fsome}, the members match() accepts are {show(want)}')
            if fiter != fsome:
                problems.append(f'filter(iterator over the same members) = {show(fiter[1]) if fiter[0] == "ok" else fiter}, filter(list) = '
                                f'{show(fsome[1]) if fsome[0] == "ok" else fsome}: a one-shot iterable must be filtered like a list')
            want = [c for c in m['below'] if c in acc]
            if inner != ('ok', want):
                problems.append(f'select() from <div id=d1> = {show(inner[1]) if inner[0] == "ok" else inner}, its descendants that match() accepts are {show(want)}')
            for start, got in zip(m['closest'], (c1, c2)):
                chain, p_ = [], order[start]
                pos = {id(n_): i for i, n_ in enumerate(order)}
                while p_ is not None and id(p_) in pos:
                    chain.append(pos[id(p_)])
                    p_ = p_.get('parent')
                exp = next((c for c in chain if c in acc), None)
                if got != ('ok', exp):
                    problems.append(f'closest({label(order[start])}) = {show([got[1]]) if got[0] == "ok" else got}, the nearest of it and its ancestors '
                                    f'that match() accepts is {show([exp])}')
            rule.instance({'document': kind, 'selector': s, 'selected': show(sel[1]) if sel[0] == 'ok' else sel, 'consistent': not problems},
                          key=f'api|{kind}|{s}', sample_cap=6)
            if problems and bad is None:
                bad = (kind, s, problems[0])
    # filter() over a list of siblings with selectors that read :scope: every member is its own scope, as in match(member)
    n_scope = 0
    for kind in kinds:
        m = meta[kind]
        order = m['order']
        sibs = [order[i] for i in m['kids']]
        for s in (':scope', ':not(:scope)', ':scope:nth-child(even)', ':scope + *', ':is(:scope, p) > *'):
            alone = []
            for e in sibs:
                st, v = api(ctx, 'match', s, e, **dict(ns))
                alone.append(v if st == 'ok' else f'raises {v}')
            for how, tgt in (('list', list(sibs)), ('iterator', iter(list(sibs)))):
                st, got = api(ctx, 'filter', s, tgt, **dict(ns))
                n_scope += 1
                g = [label(x) for x in got] if st == 'ok' else f'raises {got}'
                want = [label(e) for e, a in zip(sibs, alone) if a is True]
                rule.instance({'document': kind, 'selector': s, 'filter_over': f'{how} of the children of <body>', 'kept': g, 'consistent': g == want},
                              key=f'api-scope|{kind}|{s}|{how}', sample_cap=4)
                if g != want and bad is None:
                    bad = (kind, s, f'filter({how} of the element children of <body>) = {g}, the members that match() accepts one by one (each member is '
                                    f'its own :scope) are {want}')
    rule.instance({'api_calls': len(reqs) + n_scope}, key='api-calls')
    rule.obligation(bad is None)
    if bad is not None:
        kind, s, problem = bad
        rule.violation(f'API consistency `{s}` ({kind})', 'soupsieve/css_match.py (SoupSieve / CSSMatch entry points)',
                       f'selector {s!r} on the {kind} flavour of the reference tree: {problem}. The entry points are no longer views of the '
                       f'one match relation')


PAIR_POOL = ['p', '.x', 'li', '#p2', 'div > p', ':checked', 'p:not(.x)', 'li:nth-child(odd)', ':has(> a)', '[type]', ':lang(fr)', 'x|li', ':required',
             ':first-child', 'span, b', ':root', ':empty', ':link', 'html|b', ':dir(ltr)', 'p:defined', 'x|li:dir(ltr)']


NEST_X = [':empty', ':root', 'p', ':first-child', ':checked', ':scope', '.x', ':link', ':lang(fr)', ':required', '[type]']
NEST_A = ['p, span', 'html, li, input', '.x', ':empty, a']


def boolean_algebra_table(ctx, rule, deep=False):
    """`A, B` selects the union of A and B (document order), :is(A, B) the same set, :not(A) the complement of :is(A),
    X:is(A) the intersection - on HTML and XML flavours of a tree, with a namespace map."""
    from ..e2e import batch_api
    kinds = ('html', 'xml', 'xhtml') if deep else ('html', 'xml')
    ns = (('namespaces', {'x': 'urn:x'}),)
    pairs = list(itertools.combinations(PAIR_POOL, 2)) if deep else [(a, b) for i, a in enumerate(PAIR_POOL) for b in PAIR_POOL[i + 1::4]]
    texts = list(PAIR_POOL)
    for a, b in pairs:
        texts += [f'{a}, {b}', f':is({a}, {b})', f':not({a}, {b})', f'{b}, {a}']
    for a in PAIR_POOL:
        texts += [f'{x}:is({a})' for x in ('p', '*', 'li')] + [f':not({a})']
    texts += ['p', '*', 'li']
    # the same laws one level down: a compound X:is(A) used as an alternative of an enclosing list
    nest_x = NEST_X if deep else NEST_X[:6]
    nest_a = NEST_A if deep else NEST_A[:2]
    nested = [(x, a) for x in nest_x for a in nest_a]
    for x, a in nested:
        c = f'{x}:is({a})'
        texts += [x, f':is({a})', c, f':is({c})', f':where({c})', f':not({c})', f':is({c}, b)', f':not({c}, b)', 'b', f'*:nth-child(n of {c})']
    # three and four levels of nesting: wrapping in :is() / :where() and double negation change nothing
    deep_forms = [':is(:where(:is({})))', ':not(:not({}))', ':not(:is(:not({})))', ':is(:not(:not(:is({}))))', ':not(:not(:not(:not({}))))']
    for a in PAIR_POOL:
        texts += [f.format(a) for f in deep_forms]
    texts = list(dict.fromkeys(texts))
    docs, meta = {}, {}
    for kind in kinds:
        doc, order, L = make_doc(TREE, kind)
        docs[kind] = (doc, order)
        idx = {id(n_): i for i, n_ in enumerate(order)}
        meta[kind] = (order, [idx[id(e)] for e in elements(order)])
    reqs = [(kind, 'select', t, None, ns) for kind in kinds for t in texts]
    res = dict(zip([(r[0], r[2]) for r in reqs], batch_api(ctx, docs, reqs)))
    bad = None
    for kind in kinds:
        order, els = meta[kind]
        show = lambda r: [label(order[i]) for i in r[1]] if r[0] == 'ok' else f'raises {r[1]}'      # noqa: E731

        def sel(t):
            return res[(kind, t)]

        def check(text, want, law):
            nonlocal bad
            got = sel(text)
            if got != ('ok', want) and bad is None:
                bad = (kind, text, show(got), f'{law}: {[label(order[i]) for i in want]}')
        for a, b in pairs:
            ra, rb = sel(a), sel(b)
            if ra[0] != 'ok' or rb[0] != 'ok':
                if bad is None:
                    bad = (kind, a if ra[0] != 'ok' else b, show(ra if ra[0] != 'ok' else rb), 'a result (each selector of the pool is valid)')
                continue
            union = sorted(set(ra[1]) | set(rb[1]))
            check(f'{a}, {b}', union, 'the union of its alternatives')
            check(f':is({a}, {b})', union, 'the union of its alternatives')
            check(f'{b}, {a}', union, 'the union of its alternatives (in document order)')
            check(f':not({a}, {b})', [e for e in els if e not in union], 'the complement of :is() of the same list')
        for a in PAIR_POOL:
            ra = sel(a)
            if ra[0] != 'ok':
                continue
            for x in ('p', '*', 'li'):
                rx_ = sel(x)
                check(f'{x}:is({a})', [e for e in rx_[1] if e in ra[1]], f'the intersection of {x!r} and {a!r}')
            check(f':not({a})', [e for e in els if e not in ra[1]], f'the complement of {a!r}')
            for f_ in deep_forms:
                check(f_.format(a), ra[1], f'what {a!r} selects (nested :is() / :where() and double negations change nothing)')
        for x, a in nested:
            rx_, ra, rb = sel(x), sel(f':is({a})'), sel('b')
            if rx_[0] != 'ok' or ra[0] != 'ok' or rb[0] != 'ok':
                if bad is None:
                    bad = (kind, x if rx_[0] != 'ok' else a, show(rx_ if rx_[0] != 'ok' else ra), 'a result (each selector of the pool is valid)')
                continue
            c = f'{x}:is({a})'
            both = [e for e in rx_[1] if e in ra[1]]
            check(c, both, f'the intersection of {x!r} and :is({a})')
            check(f':is({c})', both, f'what {c!r} selects (a list of one alternative)')
            check(f':where({c})', both, f'what {c!r} selects (a list of one alternative)')
            check(f'*:nth-child(n of {c})', both, f'what {c!r} selects (every child counted among its own kind)')
            check(f':not({c})', [e for e in els if e not in both], f'the complement of {c!r}')
            check(f':is({c}, b)', sorted(set(both) | set(rb[1])), f'the union of {c!r} and b')
            check(f':not({c}, b)', [e for e in els if e not in both and e not in rb[1]], f'the complement of the union of {c!r} and b')
    rule.instance({'api_calls': len(reqs)}, key='boolean-algebra')
    rule.obligation(bad is None)
    if bad is not None:
        kind, text, got, law = bad
        rule.violation(f'Boolean algebra `{text}` ({kind})', 'soupsieve/css_match.py / css_parser.py',
                       f'{text!r} on the {kind} flavour of the reference tree selects {got}; it must select {law}')


def long_list_table(ctx, rule, deep=False):
    """The union law for lists of 1 .. 9 alternatives (a shortcut taken above some length must answer as the loop does): type
    selectors under a default namespace on a tree with the same local names in three namespaces, classes, ids and a mix;
    bare, inside :is() and inside :not()."""
    from ..e2e import batch_api
    X, Y = 'urn:x', 'urn:y'
    names = ['e', 'f', 'g', 'h', 'i', 'j', 'k', 'l', 'm']
    kids = []
    for n_, nm in enumerate(names):
        kids.append((nm, {'_ns': (X, Y, None)[n_ % 3], 'class': [f'c{n_}'], 'id': f'i{n_}'}, []))
        kids.append((nm, {'_ns': (Y, None, X)[n_ % 3], 'class': [f'c{(n_ + 1) % 9}']}, []))
        kids.append((nm.upper(), {'_ns': X}, []))
    T = [('root', {'_ns': X}, kids)]
    doc, order, L = make_doc(T, 'xml')
    idx = {id(n_): i for i, n_ in enumerate(order)}
    els = [idx[id(e)] for e in elements(order)]
    pools = {'type': names, 'class': [f'.c{i}' for i in range(9)], 'id': [f'#i{i}' for i in range(9)],
             'mixed': ['e', '.c3', '#i5', 'q|g', '*|h', '|i', 'j', '[id=i1]', 'k:first-child']}
    maps = {'default': {'': X, 'q': Y}, 'plain': {'q': Y}}
    if not deep:
        pools = {k: pools[k] for k in ('type', 'mixed')}
        maps = {'default': maps['default']}
    lengths = range(1, 10) if deep else (2, 4, 5, 6, 9)
    forms = ('{}', ':is({})', '*|*:is({})', '*|*:nth-child(n of {})')
    reqs, keys = [], []
    for mk in maps:
        kw = (('namespaces', maps[mk]),)
        for pk, pool in pools.items():
            for form in forms:
                for a in pool:
                    reqs.append(('t', 'select', form.format(a), None, kw))
                    keys.append((mk, pk, form, a))
                for n_ in lengths:
                    reqs.append(('t', 'select', form.format(', '.join(pool[:n_])), None, kw))
                    keys.append((mk, pk, form, n_))
            for n_ in lengths:
                reqs.append(('t', 'select', '*|*:not({})'.format(', '.join(pool[:n_])), None, kw))
                keys.append((mk, pk, 'not', n_))
    res = dict(zip(keys, batch_api(ctx, {'t': (doc, order)}, reqs)))
    show = lambda r: [label(order[i]) for i in r[1]] if r[0] == 'ok' else f'raises {r[1]}'      # noqa: E731
    bad = None
    for mk in maps:
        for pk, pool in pools.items():
            for n_ in lengths:
                lst = ', '.join(pool[:n_])
                for form in forms:
                    parts = [res[(mk, pk, form, a)] for a in pool[:n_]]
                    if any(p_[0] != 'ok' for p_ in parts):
                        raise AnalysisError(f'long list table: {form} of {pool[:n_]} does not compile / select: {parts}')
                    union = sorted(set().union(*[set(p_[1]) for p_ in parts]))
                    got = res[(mk, pk, form, n_)]
                    text = form.format(lst)
                    rule.instance({'namespaces': mk, 'selector': text, 'selected': len(got[1]) if got[0] == 'ok' else got},
                                  key=f'long|{mk}|{pk}|{n_}|{form}', sample_cap=4)
                    if got != ('ok', union) and bad is None:
                        bad = (mk, text, show(got), [label(order[i]) for i in union], n_, 'the union of what its alternatives select one by one in the same place')
                pos, neg = res[(mk, pk, '*|*:is({})', n_)], res[(mk, pk, 'not', n_)]
                want = [e for e in els if pos[0] == 'ok' and e not in pos[1]]
                if neg != ('ok', want) and bad is None:
                    bad = (mk, f'*|*:not({lst})', show(neg), [label(order[i]) for i in want], n_, f'the complement of *|*:is() of the same list')
    rule.obligation(bad is None)
    if bad is not None:
        mk, text, got, want, n_, law = bad
        rule.violation(f'long list `{text}` ({mk} map)', 'soupsieve/css_match.py (match_selectors)',
                       f'{text!r} (a list of {n_} alternatives, namespace map {maps[mk]}) on the XML reference tree selects {got}; {law} '
                       f'is {want}')


LOOKALIKE_SELECTORS = ['p + span', 'p + b', 'p ~ *', 'li + li', 'li ~ li', 'p:has(+ span)', 'p:has(+ b)', 'p:has(~ *)', 'p:not(:has(+ *))', 'li:has(+ li)',
                       'li:has(~ li)', 'li:not(:has(~ li))', 'section:has(> p + span)', 'section:has(p ~ b)', 'section:has(> p:only-child)', 'li:nth-child(2)',
                       'li:nth-last-child(1)', 'li:only-child', 'li:first-child', 'li:last-child', 'li:nth-child(odd)', 'p:first-of-type', 'p:only-of-type',
                       'li:nth-last-of-type(2)', ':empty', 'ul:has(> li:nth-child(3))', 'ul:not(:has(> li:nth-child(3)))', 'ul > :is(li + li)', 'section > :not(p)',
                       'input:indeterminate', 'input:checked', ':default', 'form:has(:checked)', 'input:not(:indeterminate)', 'input + input', 'input:has(+ input)',
                       'i:-soup-contains(t)', 'section:-soup-contains(xs)', 'section:-soup-contains-own(x)', 'p:lang(de)', 'p:lang(en)', 'p:dir(ltr)', 'b, span, li:last-child',
                       'section:nth-of-type(2) > p', 'section + section > p + *', '* + ul > li', 'p:has(+ span, + b)', ':is(p, li):not(:has(+ *))']


def lookalike_table(ctx, rule):
    """Elements are told apart by identity, and nodes that are not elements do not take part in structure: on a tree full of
    elements with identical markup in different contexts, (a) an attribute no selector reads, unique per element, changes no
    result (bs4 compares and hashes tags by markup: a table keyed by a tag confuses look-alikes); (b) taking out the comments and
    empty strings that are sprinkled between the elements (empty comments and empty strings are falsy objects) changes no result."""
    from ..e2e import batch_api

    def tree(sprinkle, unique):
        n = [0]

        def el(name, attrs, kids):
            n[0] += 1
            a = dict(attrs)
            if unique:
                a['data-u'] = str(n[0])
            out = []
            for k in kids:
                if sprinkle:
                    out += [('#comment', ''), '', ('#comment', 'c')][n[0] % 3:][:2]
                out.append(k)
            if sprinkle and kids:
                out.append('')
            return (name, a, out)
        sec = lambda kids, **a: el('section', a, kids)        # noqa: E731
        return [el('html', {'lang': 'en'}, [el('body', {}, [
            sec([el('p', {}, ['x']), el('span', {}, ['s'])]), sec([el('p', {}, ['x']), el('b', {}, ['s'])]), sec([el('p', {}, ['x'])]),
            sec([el('p', {}, ['x']), el('span', {}, ['s'])], lang='de'), sec([el('p', {}, ['x']), el('i', {}, ['t']), el('i', {}, ['t'])]),
            el('ul', {}, [el('li', {}, ['a']), el('li', {}, ['a']), el('li', {}, ['a'])]), el('ul', {}, [el('li', {}, ['a']), el('li', {}, ['a'])]),
            el('ul', {}, [el('li', {}, ['a'])]), el('ul', {}, []), el('ul', {}, []),
            el('form', {}, [el('input', {'type': 'radio', 'name': 'g'}, []), el('input', {'type': 'radio', 'name': 'g', 'checked': ''}, [])]),
            el('form', {}, [el('input', {'type': 'radio', 'name': 'g'}, []), el('input', {'type': 'radio', 'name': 'g'}, [])]),
            el('form', {}, [el('input', {'type': 'radio', 'name': 'g', 'checked': ''}, []), el('input', {'type': 'radio', 'name': 'g'}, []),
                            el('input', {'type': 'submit'}, []), el('input', {'type': 'submit'}, [])])])])]
    docs, pos = {}, {}
    for key, (sp, un) in {'A': (True, False), 'B': (True, True), 'C': (False, False)}.items():
        doc, order, L = make_doc(tree(sp, un), 'html')
        docs[key] = (doc, order)
        els = elements(order)
        pos[key] = {i: k for k, i in enumerate(i_ for i_, n_ in enumerate(order) if not isinstance(n_, TextNode))}
    reqs = [(k, 'select', s_, None, ()) for k in docs for s_ in LOOKALIKE_SELECTORS]
    res = dict(zip([(r[0], r[2]) for r in reqs], batch_api(ctx, docs, reqs)))
    bad = None
    for s_ in LOOKALIKE_SELECTORS:
        out = {}
        for k in docs:
            r = res[(k, s_)]
            out[k] = [pos[k][i] for i in r[1]] if r[0] == 'ok' else f'raises {r[1]}'
        rule.instance({'selector': s_, 'selected_elements': out['A'] if isinstance(out['A'], str) else len(out['A']), 'same_with_unique_attribute': out['A'] == out['B'],
                       'same_without_comments_and_empty_strings': out['A'] == out['C']}, key=f'lookalike|{s_}', sample_cap=6)
        if bad is None and out['A'] != out['B']:
            bad = (s_, out['A'], out['B'], 'the same tree in which every element carries a unique attribute that no selector reads (so that no two elements have the same markup)')
        if bad is None and out['A'] != out['C']:
            bad = (s_, out['A'], out['C'], 'the same tree without the comments, empty comments and empty strings between the elements')
    rule.obligation(bad is None)
    if bad is not None:
        s_, a, b, what = bad
        rule.violation(f'look-alike elements `{s_}`', 'soupsieve/css_match.py (navigation helpers / per-call memos)',
                       f'{s_!r} on a tree of look-alike elements selects the elements number {a} (document order); on {what} it selects {b}')


STATE_TREE = [('html', {'_label': 'root'}, [
    ('head', {}, [('meta', {'charset': 'utf-8'}, []), ('meta', {'http-equiv': 'content-language', 'content': 'es'}, []), ('title', {}, ['T'])]),
    ('body', {}, [
        ('form', {'id': 'f'}, [('input', {'type': 'radio', 'name': 'g', 'id': 'r1', 'checked': ''}, []), ('input', {'type': 'radio', 'name': 'g', 'id': 'r2'}, []),
                               ('input', {'type': 'radio', 'name': 'g', 'id': 'r3'}, []), ('input', {'type': 'submit', 'id': 's1'}, []), ('input', {'type': 'submit', 'id': 's2'}, [])]),
        ('form', {'id': 'f2'}, [('input', {'type': 'radio', 'name': 'h', 'id': 'q1'}, []), ('input', {'type': 'radio', 'name': 'h', 'id': 'q2'}, []), ('button', {'id': 'b1'}, ['go'])]),
        ('textarea', {'id': 't1', 'placeholder': 'hint'}, [('iframe', {'id': 'i1'}, [('html', {}, [('body', {}, [('p', {'id': 'ip'}, ['note'])])])])]),
        ('textarea', {'id': 't2', 'placeholder': 'hint'}, []), ('textarea', {'id': 't3'}, ['note']),
        ('input', {'type': 'number', 'min': '1', 'max': '5', 'value': '7', 'id': 'n1'}, []), ('input', {'type': 'number', 'min': '1', 'max': '5', 'value': '3', 'id': 'n2'}, []),
        ('input', {'type': 'text', 'required': '', 'id': 'n3'}, []), ('input', {'type': 'text', 'disabled': '', 'id': 'n4'}, []),
        ('a', {'href': 'u', 'id': 'a1'}, ['note']), ('p', {'id': 'p1'}, ['note']), ('p', {'id': 'p2', 'lang': 'pt'}, [])])])]
STATE_POOL = [':indeterminate', ':default', ':checked', ':placeholder-shown', ':-soup-contains(note)', ':enabled', ':disabled', ':required', ':optional', ':read-write',
              ':in-range', ':out-of-range', ':link', ':empty', 'input', 'textarea', '#r2', '#r3', ':not([checked])', ':lang(es)', ':lang(pt)', 'form > :first-child',
              'input:not([checked])', '[name=g]', ':root', ':dir(ltr)']


def state_algebra_table(ctx, rule, deep=False):
    """The Boolean laws with the HTML state and text pseudo-classes as operands, on a form tree (radio group whose checked member
    comes first, two forms, placeholders, a textarea holding an iframe, range inputs, a content-language pragma after another
    meta) in html.parser-like and XHTML flavours: `A, B` and :is(A, B) select the union, *:not(A, B) the complement, X:is(A) the
    intersection - whatever is evaluated first within the call."""
    from ..e2e import batch_api
    kinds = ('html', 'xhtml')
    pairs = list(itertools.combinations(STATE_POOL, 2))
    if not deep:
        pairs = pairs[::11] + [(':-soup-contains(note)', ':placeholder-shown'), (':placeholder-shown', ':-soup-contains(note)'), ('#r2', ':indeterminate'),
                              (':lang(es)', ':lang(pt)')]
    xs = ['#r2', 'input:not([checked])', 'textarea', '*', 'textarea:not(:placeholder-shown)', ':lang(es)'] if deep else ['#r2', 'input:not([checked])', 'textarea:not(:placeholder-shown)']
    texts = list(STATE_POOL) + xs
    for a, b in pairs:
        texts += [f'{a}, {b}', f'{b}, {a}', f':is({a}, {b})', f'*:not({a}, {b})']
    for a in STATE_POOL:
        texts += [f'{x}:is({a})' for x in xs] + [f'*:not({a})', f':is({a})']
    texts = list(dict.fromkeys(texts))
    docs, meta = {}, {}
    for kind in kinds:
        doc, order, L = make_doc(STATE_TREE, kind)
        docs[kind] = (doc, order)
        idx = {id(n_): i for i, n_ in enumerate(order)}
        meta[kind] = (order, [idx[id(e)] for e in elements(order)])
    special = [(':-soup-contains(note)', ':placeholder-shown'), (':placeholder-shown', ':-soup-contains(note)'), ('#r2', ':indeterminate'), (':lang(es)', ':lang(pt)')]
    light = set(STATE_POOL) | set(xs)
    for a, b in special:
        light |= {f'{a}, {b}', f'{b}, {a}', f':is({a}, {b})', f'*:not({a}, {b})'}
    for a in (':indeterminate', ':placeholder-shown', ':-soup-contains(note)', ':lang(es)', ':default'):
        light |= {f'{x}:is({a})' for x in xs} | {f'*:not({a})', f':is({a})'}
    # quick tier: the whole plan on the html.parser-like tree, the pairs that share a per-call memo on the XHTML tree
    reqs = [(kind, 'select', t, None, ()) for kind in kinds for t in texts if deep or kind == 'html' or t in light]
    res = dict(zip([(r[0], r[2]) for r in reqs], batch_api(ctx, docs, reqs)))
    bad = None
    for kind in kinds:
        order, els = meta[kind]
        show = lambda r: [(order[i].get('attrs').get('id') or label(order[i])) for i in r[1]] if r[0] == 'ok' else f'raises {r[1]}'      # noqa: E731

        def check(text, want, law):
            nonlocal bad
            if (kind, text) not in res:
                return
            got = res[(kind, text)]
            rule.instance({'document': kind, 'selector': text, 'selected': len(got[1]) if got[0] == 'ok' else got}, key=f'state-algebra|{kind}|{text}', sample_cap=4)
            if got != ('ok', want) and bad is None:
                bad = (kind, text, show(got), f'{law}: {show(("ok", want))}')
        for t in list(STATE_POOL) + xs:
            if res[(kind, t)][0] != 'ok' and bad is None:
                bad = (kind, t, show(res[(kind, t)]), 'a result (each selector of the pool is valid)')
        if bad is not None:
            break
        for a, b in pairs:
            ra, rb = res[(kind, a)], res[(kind, b)]
            union = sorted(set(ra[1]) | set(rb[1]))
            check(f'{a}, {b}', union, 'the union of its alternatives')
            check(f'{b}, {a}', union, 'the union of its alternatives')
            check(f':is({a}, {b})', union, 'the union of its alternatives')
            check(f'*:not({a}, {b})', [e for e in els if e not in union], 'the complement of the union')
        for a in STATE_POOL:
            ra = res[(kind, a)]
            check(f':is({a})', ra[1], f'what {a!r} selects')
            check(f'*:not({a})', [e for e in els if e not in ra[1]], f'the complement of {a!r}')
            for x in xs:
                check(f'{x}:is({a})', [e for e in res[(kind, x)][1] if e in ra[1]], f'the intersection of {x!r} and {a!r}')
    rule.obligation(bad is None)
    if bad is not None:
        kind, text, got, law = bad
        rule.violation(f'state algebra `{text}` ({kind})', 'soupsieve/css_match.py (match_selectors and the per-call memos of the state pseudo-classes)',
                       f'{text!r} on the {kind} flavour of the form tree selects {got}; it must select {law}')


def one_call_table(ctx, rule, deep=False):
    """Within one call the answer for an element does not depend on the elements evaluated before it: select(S, document) equals
    the elements for which a fresh match(S, element) holds - on the form tree, on a document with several top-level elements, and
    on the tree of look-alike elements."""
    from ..e2e import batch_api
    multi = [('#comment', 'lead'), ('div', {'id': 'top1'}, [('p', {}, ['a'])]), 'between', ('section', {'id': 'top2', 'lang': 'fr'}, [('p', {'id': 'mp'}, ['b']), ('ul', {}, [('li', {}, ['c']), ('li', {}, [])])]),
             ('p', {'id': 'top3'}, ['d'])]
    cases = [('form tree', 'html', STATE_TREE, STATE_POOL + ['textarea:-soup-contains(note), textarea:placeholder-shown', ':not(:lang(es))', 'p:lang(es), a:lang(es)',
                                                           ':is(:default, :indeterminate)', 'input:not(:indeterminate)']),
             ('form tree', 'xhtml', STATE_TREE, [':lang(es)', ':indeterminate', ':default', 'textarea:placeholder-shown, textarea:-soup-contains(note)',
                                                 'textarea:-soup-contains(note), textarea:placeholder-shown', ':-soup-contains(note)']),
             ('several top-level elements', 'html', multi, [':dir(ltr)', 'p:dir(ltr)', ':root', ':lang(fr)', 'p', ':first-child', ':last-child', 'p:nth-child(1)', ':empty',
                                                            ':not(:dir(rtl))', 'section :dir(ltr)', ':only-child', 'div ~ p', 'div + section', ':nth-last-child(1)'])]
    ns_f = {'svg': SVG_NS, 'h': XHTML}
    radios = [('html', {}, [('body', {}, [('form', {'id': 'f'}, [
        ('input', {'type': 'radio', 'name': 'size', 'id': 's1'}, []), ('input', {'type': 'radio', 'name': 'colour', 'id': 'c1'}, []),
        ('input', {'type': 'radio', 'name': 'size', 'id': 's2', 'checked': ''}, []), ('input', {'type': 'radio', 'name': 'colour', 'id': 'c2', 'checked': ''}, []),
        ('input', {'type': 'radio', 'name': 'shape', 'id': 'h1'}, []),
        # group names are compared exactly: Size is another group than size
        ('input', {'type': 'radio', 'name': 'Size', 'id': 'z1'}, []), ('input', {'type': 'radio', 'name': 'Size', 'id': 'z2'}, []),
        ('input', {'type': 'radio', 'name': 'SHAPE', 'id': 'h2', 'checked': ''}, [])])])])]
    framed = [('html', {}, [('body', {}, [('div', {'id': 'd'}, [
        ('p', {'id': 'p'}, ['t']), ('iframe', {'id': 'fr'}, [('html', {}, [('body', {}, [('input', {'type': 'checkbox', 'checked': '', 'id': 'ic'}, []), ('a', {'href': 'u', 'id': 'ia'}, ['l']),
                                                                                          ('p', {'id': 'ip'}, [])])])]),
        ('input', {'type': 'checkbox', 'checked': '', 'id': 'oc'}, []), ('a', {'href': 'v', 'id': 'oa'}, ['m'])])])])]
    cases += [('form tree', 'html', STATE_TREE, ['body:-soup-contains(zzz), textarea:placeholder-shown', 'textarea:placeholder-shown, body:-soup-contains(zzz)', ':lang(es), :root',
                                                 'p:lang(pt), :root', ':root, :lang(es)', ':lang(pt), :dir(ltr)', 'form:-soup-contains(go), textarea:placeholder-shown']),
              ('reference tree', 'html', TREE, ['li:nth-child(2 of .x), li:nth-child(2 of .z)', 'li:nth-child(1 of .z):nth-last-child(2 of li)', 'li:nth-child(1 of .x), li:nth-last-child(1 of :not(.x))',
                                                ':nth-child(1 of p), :nth-child(1 of .x)', 'p:nth-of-type(2), p:nth-child(2 of p)', ':has(> li:nth-child(1 of .z)), li:nth-child(1 of .x)']),
              ('HTML tree with SVG and MathML subtrees', 'html5', FOREIGN_TREE, ['p:dir(ltr)', 'p:dir(rtl)', 'p:dir(ltr), p:dir(rtl)', 'p:dir(rtl), p:dir(ltr)', 'p:is(:dir(rtl), :dir(ltr))',
                                                                                   '*|p:lang(en), svg|circle', '*|p:lang(en), svg|*', '*|p:lang(en), *|a:any-link', 'div:lang(en), h|a',
                                                                                   ':is(*|p:lang(en), svg|a)', '*|*:dir(ltr)', ':checked, svg|*', 'svg|* :checked', 'div :checked, svg|a']),
              ('three interleaved radio groups', 'html', radios, [':indeterminate', 'input:not(:indeterminate)', ':checked, :indeterminate', '[name=shape]:indeterminate, [name=size]:indeterminate']),
              ('controls inside and outside an iframe', 'html', framed, ['div :checked', 'div :link', 'div a:any-link, div input:checked', ':is(div :checked)', 'body :enabled', 'div :is(:checked, p)',
                                                                        'div p, div :checked', ':checked, div p', 'div > :checked, div a', 'body :checked, body p'])]
    docs, reqs, keys, meta = {}, [], [], {}
    seen_parts = set()
    for ci, (desc, kind, spec, sels) in enumerate(cases):
        doc, order, L = make_doc(spec, kind)
        dk = f'd{ci}'
        docs[dk] = (doc, order)
        idx = {id(n_): i for i, n_ in enumerate(order)}
        els = [idx[id(e)] for e in elements(order)]
        meta[dk] = (desc, kind, order, els, sels)
        kw_ = (('namespaces', ns_f),)
        for s_ in sels:
            if '(' not in s_.replace(':dir(ltr)', '').replace(':dir(rtl)', '').replace(':lang(en)', '').replace(':lang(es)', '').replace(':lang(pt)', '') and ', ' in s_:
                # a list without nested lists: each alternative asked in a query of its own as well
                for part in s_.split(', '):
                    if (dk, part, 'select') not in seen_parts:
                        seen_parts.add((dk, part, 'select'))
                        reqs.append((dk, 'select', part, None, kw_))
                        keys.append((dk, part, 'part'))
            reqs.append((dk, 'select', s_, None, kw_))
            keys.append((dk, s_, 'select'))
            for e in els:
                reqs.append((dk, 'match', s_, e, kw_))
                keys.append((dk, s_, e))
    # filter(tag) is the matching element children of tag - also when tag is an iframe element, a form, the root
    fplan = []
    for dk, (desc, kind, order, els, sels) in meta.items():
        for e in els:
            if order[e].get('name') in ('iframe', 'form', 'html', 'textarea', 'svg') and any(not isinstance(c, TextNode) for c in order[e].get('contents')):
                for s_ in ('*', ':first-child', 'html, input, p, circle', ':not(p)'):
                    fplan.append((dk, e, s_))
                    reqs.append((dk, 'filter', s_, e, (('namespaces', ns_f),)))
                    keys.append((dk, s_, ('filter', e)))
                    for c in order[e].get('contents'):
                        if not isinstance(c, TextNode):
                            ci_ = next(i for i, n_ in enumerate(order) if n_ is c)
                            reqs.append((dk, 'match', s_, ci_, (('namespaces', ns_f),)))
                            keys.append((dk, s_, ('fmatch', ci_)))
    res = dict(zip(keys, batch_api(ctx, docs, reqs)))
    bad = None
    for dk, e, s_ in fplan:
        desc, kind, order, els, sels = meta[dk]
        kids_ = [next(i for i, n_ in enumerate(order) if n_ is c) for c in order[e].get('contents') if not isinstance(c, TextNode)]
        want = [c for c in kids_ if res[(dk, s_, ('fmatch', c))] == ('ok', True)]
        got = res[(dk, s_, ('filter', e))]
        rule.instance({'document': f'{desc} ({kind})', 'filter_target': label(order[e]), 'selector': s_, 'as_match_says': got == ('ok', want)}, key=f'one-call|filter|{dk}|{e}|{s_}', sample_cap=4)
        if got != ('ok', want) and bad is None:
            show_ = lambda ixs: [(order[i].get('attrs').get('id') or label(order[i])) for i in ixs]      # noqa: E731
            bad = (desc, kind, f'{s_} [filter() on {label(order[e])}]', show_(got[1]) if got[0] == 'ok' else f'raises {got[1]}', show_(want), [])
    for dk, (desc, kind, order, els, sels) in meta.items():
        for s_ in sels:
            sel = res[(dk, s_, 'select')]
            per = [e for e in els if res[(dk, s_, e)] == ('ok', True)]
            odd = [res[(dk, s_, e)] for e in els if res[(dk, s_, e)][0] != 'ok']
            ok = sel == ('ok', per) and not odd
            rule.instance({'document': f'{desc} ({kind})', 'selector': s_, 'select_equals_per_element_match': ok}, key=f'one-call|{dk}|{s_}', sample_cap=4)
            show = lambda ixs: [(order[i].get('attrs').get('id') or label(order[i])) for i in ixs]      # noqa: E731
            if not ok and bad is None:
                bad = (desc, kind, s_, show(sel[1]) if sel[0] == 'ok' else f'raises {sel[1]}', show(per), odd[:1])
            parts = [res.get((dk, part, 'part')) for part in s_.split(', ')] if ', ' in s_ else []
            if parts and all(p_ is not None and p_[0] == 'ok' for p_ in parts) and sel[0] == 'ok' and bad is None:
                union = sorted(set().union(*[set(p_[1]) for p_ in parts]))
                if sel[1] != union:
                    bad = (desc, kind, s_, show(sel[1]), show(union), 'union')
    rule.obligation(bad is None)
    if bad is not None:
        desc, kind, s_, sel, per, odd = bad
        if odd == 'union':
            rule.violation(f'one call `{s_}` ({desc}, {kind})', 'soupsieve/css_match.py (per-call memos)',
                           f'select({s_!r}) on the {desc} ({kind}) gives {sel}; its alternatives, each in a query of its own, select {per} together: within '
                           f'one call the answer to one alternative depends on the other having been evaluated')
            return
        rule.violation(f'one call `{s_}` ({desc}, {kind})', 'soupsieve/css_match.py (CSSMatch.__init__ / per-call memos)',
                       f'select({s_!r}) on the {desc} ({kind}) gives {sel}; asking match() about each element alone accepts {per}'
                       + (f' (match raises: {odd})' if odd else '') + ': the answer for an element depends on what the call evaluated before it, or on where the call started')


def argument_reuse_table(ctx, rule):
    """What a call returns is a function of the VALUES of its arguments at the time of the call: a namespaces / custom dict that
    its owner changes in place between two calls (Beautiful Soup keeps one prefix map per document and adds to it) is read
    again - the second call answers like a call with a new dict of the same contents."""
    doc, order, L = make_doc([('r', {'_label': 'r'}, [('p', {'_ns': 'urn:a', '_label': 'pa'}, []), ('p', {'_ns': 'urn:b', '_label': 'pb'}, []), ('q', {'_label': 'q', 'class': 'k'}, [])])], 'xml')
    bad = None
    n = 0

    def sel(text, **kw):
        nonlocal n
        n += 1
        st, v = api(ctx, 'select', text, doc, **kw)
        return [label(x) for x in v] if st == 'ok' else f'raises {v}'
    plans = [('namespaces', 'x|p', {'x': 'urn:a'}, [('set', 'x', 'urn:b'), ('set', 'y', 'urn:a'), ('del', 'x', None)]),
             ('namespaces', 'p', {}, [('set', '', 'urn:b'), ('set', '', 'urn:a'), ('del', '', None)]),
             ('custom', ':--c', {':--c': 'p'}, [('set', ':--c', 'q'), ('set', ':--c', '.k, r'), ('set', ':--d', 'p')]),
             ('custom', 'r > :--c', {':--c': ':--d', ':--d': 'q'}, [('set', ':--d', 'p'), ('del', ':--d', None)])]
    for argname, text, start, edits in plans:
        mine = dict(start)
        history = [sel(text, **{argname: mine})]
        for op, k, v in edits:
            if op == 'set':
                mine[k] = v
            else:
                del mine[k]
            got = sel(text, **{argname: mine})
            want = sel(text, **{argname: dict(mine)})
            ok = got == want
            rule.instance({'argument': argname, 'selector': text, 'contents_now': dict(mine), 'same_object_as_before': True, 'result': got, 'with_a_new_dict': want},
                          key=f'reuse|{argname}|{text}|{sorted(mine.items())}')
            if not ok and bad is None:
                bad = (argname, text, dict(start), dict(mine), got, want)
    rule.obligation(bad is None)
    if bad is not None:
        argname, text, start, now, got, want = bad
        rule.violation(f'argument reuse `{text}` {argname}', 'soupsieve/__init__.py (compile) / css_parser.py (process_custom, _cached_css_compile)',
                       f'select({text!r}, {argname}=d) with d == {now!r}, after an earlier call with the same dict object when it held {start!r}, gives {got}; '
                       f'a call with a new dict of the same contents gives {want}: the result depends on an earlier call, not on the arguments')


CONJ_POOL = [':has(> a)', ':nth-child(odd)', ':lang(fr)', ':-soup-contains(hello)', ':not(.x)', '.x', '[type]', ':first-child', ':empty', ':checked', ':is(p, li)',
             ':nth-last-child(2)', ':not(:has(+ p))', ':link', ':required', ':nth-of-type(2)', ':-soup-contains-own("1")', ':has(~ span)', ':dir(ltr)', ':not(:empty)',
             '[class~=z]', ':only-child', ':nth-child(2 of .x)', ':has(:checked)', ':where(.x, .z)', ':not(:nth-child(odd))', ':enabled', ':defined']


def compound_conjunction_table(ctx, rule, deep=False):
    """A compound selector designates the elements every one of its simple selectors designates: for pairs (A, B) of simple
    selectors of different families (structural, relational, text, language, state, attribute, logical), `*AB` and `*BA` select
    the intersection of what `*A` and `*B` select - on the HTML and XHTML flavours of the reference tree."""
    from ..e2e import batch_api
    kinds = ('html', 'xhtml') if deep else ('html',)
    pairs = list(itertools.combinations(CONJ_POOL, 2))
    if not deep:
        pairs = pairs[::2]
    texts = [f'*{a}' for a in CONJ_POOL]
    for a, b in pairs:
        texts += [f'*{a}{b}', f'*{b}{a}']
    texts = list(dict.fromkeys(texts))
    docs = {}
    for kind in kinds:
        doc, order, L = make_doc(TREE, kind)
        docs[kind] = (doc, order)
    ns = (('namespaces', {'x': 'urn:x'}),)
    reqs = [(kind, 'select', t, None, ns) for kind in kinds for t in texts]
    res = dict(zip([(r[0], r[2]) for r in reqs], batch_api(ctx, docs, reqs)))
    bad = None
    for kind in kinds:
        order = docs[kind][1]
        show = lambda r: [label(order[i]) for i in r[1]] if r[0] == 'ok' else f'raises {r[1]}'      # noqa: E731
        for a, b in pairs:
            ra, rb = res[(kind, f'*{a}')], res[(kind, f'*{b}')]
            if ra[0] != 'ok' or rb[0] != 'ok':
                if bad is None:
                    bad = (kind, f'*{a}' if ra[0] != 'ok' else f'*{b}', show(ra if ra[0] != 'ok' else rb), 'a result (each selector of the pool is valid)')
                continue
            want = [e for e in ra[1] if e in rb[1]]
            for text in (f'*{a}{b}', f'*{b}{a}'):
                got = res[(kind, text)]
                rule.instance({'document': kind, 'compound': text, 'selected': len(got[1]) if got[0] == 'ok' else got}, key=f'conj|{kind}|{text}', sample_cap=4)
                if got != ('ok', want) and bad is None:
                    bad = (kind, text, show(got), f'the intersection of *{a} and *{b}: {[label(order[i]) for i in want]}')
    rule.obligation(bad is None)
    if bad is not None:
        kind, text, got, law = bad
        rule.violation(f'compound `{text}` ({kind})', 'soupsieve/css_match.py (match_selectors) / css_parser.py',
                       f'{text!r} on the {kind} flavour of the reference tree selects {got}; a compound designates {law}')


HOSTILE = ['a', 'A', '0', '-', '-0', '--', 'a b', 'a b', 'a\tb', 'a\x0bb', 'a b', 'a\x1cb', 'a.b', 'a#b', 'a:b', 'a"b', "a'b", 'a\\b', 'a\x7fb', '\x01',
           '\x80', '\x9f', 'é', '\U0001f600', '\U0010ffff', '�', '(', '*', '[x]', 'a,b', 'a>b', '\x00z',
           # digits and letters outside ASCII are ordinary identifier characters (str.isdigit() / isalnum() know more digits than CSS)
           '\u0663x', '-\u0663', '\uff11', '\u00b2a', '\u0967', '-\uff12b', '\u2460', '\u0663']


def escape_selects_table(ctx, rule):
    """'#' + escape(s) selects exactly the elements whose id is s, '.' + escape(s) those that carry the class s, and
    '[data=' + escape(s) + ']' those whose attribute equals s - on a tree whose elements carry hostile strings (HTML: class is a
    list; XML: class is one string, so the matcher splits it itself)."""
    from .e2etab import _esc
    from ..e2e import Outcome, batch_api
    bad = None
    n = 0
    for kind in ('html', 'xml', 'xhtml'):
        spec_kids = []
        if kind != 'html':
            # attribute names are case-sensitive in XML trees, also on XHTML elements: ID / CLASS / DATA are other attributes,
            # whether they stand alone or before the lower-case one
            spec_kids.append(('i', {'ID': 'a', 'CLASS': 'a', 'DATA': 'a', '_label': 'shout'}, []))
            spec_kids.append(('i', {'ID': 'zz', 'id': 'a', 'CLASS': 'zz', 'class': 'a k', 'DATA': 'zz', 'data': 'a', '_label': 'both'}, []))
            spec_kids.append(('i', {'id': 'zz', 'ID': 'a', 'class': 'zz', 'CLASS': 'a', 'data': 'zz', 'DATA': 'a', '_label': 'both2'}, []))
        for i, s in enumerate(HOSTILE):
            v = s.replace('\x00', '�')
            words = [w for w in v.replace('\t', ' ').replace('\n', ' ').replace('\r', ' ').replace('\f', ' ').split(' ') if w]
            cls = (words + ['k']) if kind != 'xml' else (v + ' k')
            spec_kids.append(('i', {'id': v, 'class': cls, 'data': v, '_label': f'e{i}'}, []))
        # duplicates: the same id twice, and a look-alike
        spec_kids.append(('i', {'id': 'a', 'class': ['a'] if kind != 'xml' else 'a', 'data': 'a', '_label': 'dup'}, []))
        # a class attribute assigned as ONE string through the bs4 API (also in an HTML tree), and look-alikes: a class that merely
        # contains the needle, and the pieces of a needle with a space as consecutive classes
        spec_kids.append(('i', {'id': 'str', 'class': 'a  z\tq', 'data': 'str', '_label': 'strcls'}, []))
        spec_kids.append(('i', {'id': 'decoy', 'class': 'xax ba ab' if kind == 'xml' else ['xax', 'ba', 'ab'], 'data': 'decoy', '_label': 'decoy'}, []))
        spec_kids.append(('i', {'id': 'decoy2', 'class': 'xax ba' , 'data': 'decoy2', '_label': 'decoy2'}, []))
        spec_kids.append(('i', {'id': 'pieces', 'class': ['a', 'b'] if kind != 'xml' else 'a b', 'data': 'pieces', '_label': 'pieces'}, []))
        # near misses of plain values: the value with one white-space character before or after it (an end anchor that lets a final
        # line feed pass, a comparison after stripping)
        for j, near in enumerate(['a\n', '\na', 'a ', ' a', 'a\r', 'a\x0c', 'a\n\n', 'a-', '-\n', '0\n', 'é\n']):
            spec_kids.append(('i', {'id': near, 'class': ['zz'] if kind != 'xml' else 'zz', 'data': near, '_label': f'near{j}'}, []))
        doc, order, L = make_doc([('r', {'_label': 'root'}, spec_kids)], kind)
        idx = {id(n_): i for i, n_ in enumerate(order)}
        els = [e for e in elements(order) if e.get('name') == 'i']

        def classes(e):
            c = e.get('attrs').get('class')
            if c is None:
                return []
            if isinstance(c, str):
                out, cur = [], ''
                for ch in c:
                    if ch in ' \t\n\r\f':
                        if cur:
                            out.append(cur)
                        cur = ''
                    else:
                        cur += ch
                return out + ([cur] if cur else [])
            return list(c)
        reqs, wants = [], []
        for s in HOSTILE:
            enc = _esc(ctx, s)
            if isinstance(enc, Outcome):
                if bad is None:
                    bad = (kind, s, 'escape()', f'raises {enc.raises}', '')
                continue
            v = s.replace('\x00', '\ufffd')
            for text, want in (('#' + enc, [e for e in els if e.get('attrs').get('id') == v]),
                               ('[data=' + enc + ']', [e for e in els if e.get('attrs').get('data') == v]),
                               ('.' + enc, [e for e in els if v in classes(e)])):
                reqs.append((kind, 'select', text, None, ()))
                wants.append((s, text, [idx[id(e)] for e in want]))
        for (s, text, want), got in zip(wants, batch_api(ctx, {kind: (doc, order)}, reqs)):
            n += 1
            if got != ('ok', want) and bad is None:
                bad = (kind, s, text, [label(order[i]) for i in got[1]] if got[0] == 'ok' else f'raises {got[1]}', [label(order[i]) for i in want])
    rule.instance({'strings': len(HOSTILE), 'api_calls': n}, key='escape-selects')
    rule.obligation(bad is None)
    if bad is not None:
        kind, s, text, got, want = bad
        rule.violation(f'escape({s!r}) selects', 'soupsieve/css_parser.py (escape) / css_match.py (match_id, match_classes, match_attributes)',
                       f'on the {kind} tree of hostile identifiers, {text!r} (built with escape({s!r})) selects {got}; exactly the elements that '
                       f'carry {s.replace(chr(0), chr(0xfffd))!r} are {want}')


HTML_ONLY = [':defined', ':dir(ltr)', ':checked', ':link', ':any-link', ':enabled', ':disabled', ':required', ':optional', ':read-write', ':read-only',
             ':default', ':indeterminate', ':placeholder-shown', ':in-range', ':out-of-range']
HTML_ONLY_TEMPLATES = ['{H}', '*{H}:first-child', '*{H}:last-child', '*{H}:not(.zz)', '*{H}:is(*)', ':is({H})', '{H}:root', ':root{H}', '*{H}:empty',
                       '* > {H}:nth-child(n)', '{H}:last-child, {H}:first-child', '*{H}:only-of-type', '*{H}:where(*):not(z)',
                       '* {H}:not(:root)', '{H}:has(*), {H}:not(:has(*))', '*{H}:nth-last-child(n of *)', '*:first-child{H}:first-child']


def case_rules_table(ctx, rule):
    """Name and value case rules by document type: tag and attribute names are ASCII case-insensitive in HTML trees and
    case-sensitive in XML / XHTML trees; attribute values are case-sensitive except `type` in HTML; i / s force the comparison;
    HTML-only pseudo-classes never match in XML that is not XHTML."""
    spec = [('html', {'_label': 'root'}, [('body', {}, [
        ('DIV', {'ID': 'Up', 'Type': 'TeXt', 'data-v': 'MiXed', '_label': 'upper'}, []),
        ('div', {'id': 'Up', 'type': 'text', 'data-v': 'mixed', '_label': 'lower'}, []),
        ('input', {'type': 'CHECKBOX', 'checked': '', '_label': 'box'}, []),
        ('input', {'TYPE': 'checkbox', 'checked': '', '_label': 'box2'}, []),
        ('a', {'href': 'x', '_label': 'link'}, []),
        ('span', {'type': 'Multi\nPart', '_label': 'nl'}, []),
    ])])]
    bad = None
    n = 0
    for kind in ('html', 'html5', 'xhtml', 'xml'):
        doc, order, L = make_doc(spec, kind)
        html_tree = kind in ('html', 'html5')
        html_doc = kind != 'xml'

        def names(ns_):
            return [label(x) for x in ns_]
        U, Lo, B, B2, A, NL = '<upper>', '<lower>', '<box>', '<box2>', '<link>', '<nl>'
        rows = [
            ('div', [U, Lo] if html_tree else [Lo]), ('DIV', [U, Lo] if html_tree else [U]), ('Div', [U, Lo] if html_tree else []),
            ('[id]', [U, Lo] if html_tree else [Lo]), ('[ID]', [U, Lo] if html_tree else [U]),
            ('[id=Up]', [U, Lo] if html_tree else [Lo]), ('[id=up]', []), ('[id=up i]', [U, Lo] if html_tree else [Lo]),
            ('[data-v=mixed]', [Lo]), ('[data-v=mixed i]', [U, Lo]), ('[data-v=MIXED i]', [U, Lo]), ('[data-v=MiXed s]', [U]),
            ('[type=text]', [U, Lo] if html_tree else [Lo]), ('[type=TEXT]', [U, Lo] if html_tree else []),
            ('[type=text s]', [Lo]), ('[type=TEXT i]', [U, Lo] if html_tree else [Lo]),
            ('[*|type=TEXT]', [U, Lo] if html_tree else []), ('[|type=TEXT]', [U, Lo] if html_tree else []),
            ('[type^=te]', [U, Lo] if html_tree else [Lo]), ('[type$=XT]', [U, Lo] if html_tree else []),
            ('input[type=checkbox]', [B, B2] if html_tree else []),
            (':checked', [B, B2] if html_tree else []),       # XHTML / XML: type="CHECKBOX" is not "checkbox", TYPE is not type
            (':link', [A] if html_doc else []), (':any-link', [A] if html_doc else []),
            (':enabled', [B, B2] if html_tree else ([B, B2] if kind == 'xhtml' else [])),
            (':root:dir(ltr)', ['<root>'] if html_doc else []),
            # the type of an element is its name as the document type compares names: <DIV> and <div> are one type in HTML trees only
            ('body > div:first-of-type', [U] if html_tree else [Lo]), ('body > DIV:first-of-type', [U]), ('body > :nth-of-type(2)', [Lo, B2] if html_tree else [B2]),
            ('body > :only-of-type', [A, NL] if html_tree else [U, Lo, A, NL]), ('body > :last-of-type', [Lo, B2, A, NL] if html_tree else [U, Lo, B2, A, NL]),
            # a line feed inside a type value is an ordinary character for every operator, in every document type
            ('[type$=Part]', [NL]), ('[type*=ulti]', [NL]), ('[type^=Multi]', [NL]), ('[type$=part]', [NL] if html_tree else []), ('[type*="i\\a P"]', [NL]),
            ('[type~=Multi]', [NL]), ('[type|=Multi]', []), ('[type="Multi\\a Part"]', [NL]), ('[type$=Part s]', [NL]), ('[type$=part i]', [NL]),
            ('body > :nth-last-of-type(2)', [U, B] if html_tree else [B]),
        ]
        for s, want in rows:
            st, got = api(ctx, 'select', s, doc)
            n += 1
            g = names(got) if st == 'ok' else f'raises {got}'
            rule.instance({'document': kind, 'selector': s, 'selected': g, 'expected': want}, key=f'case|{kind}|{s}', sample_cap=8)
            if g != want and bad is None:
                bad = (kind, s, g, want)
    # the document type is a fact of the document (its root), not of the element the call starts from: XHTML-namespaced
    # elements embedded in an XML document that is not XHTML never match the HTML-only pseudo-classes, whatever the entry point
    XH = 'http://www.w3.org/1999/xhtml'
    doc, order, L = make_doc([('feed', {'_label': 'root'}, [('entry', {}, [
        ('div', {'_ns': XH, '_label': 'xdiv', 'dir': 'ltr'}, [('input', {'_ns': XH, 'type': 'checkbox', 'checked': '', '_label': 'xbox'}, []),
                                               ('a', {'_ns': XH, 'href': 'u', '_label': 'xlink'}, [])])])])], 'xml')
    for fn, s, target, want in (('match', ':checked', L['xbox'], False), ('match', ':link', L['xlink'], False), ('match', ':enabled', L['xbox'], False),
                                ('select', ':checked', L['xdiv'], []), ('select', ':any-link', L['xdiv'], []), ('select', ':checked', doc, []),
                                ('closest', ':root:dir(ltr), div:dir(ltr)', L['xbox'], None), ('filter', ':required, :optional, :link', L['xdiv'], []),
                                ('select', 'input', L['xdiv'], ['<xbox>']), ('match', 'input[type=checkbox]', L['xbox'], True),
                                # an explicit dir attribute on an XHTML element of a document that is not XHTML
                                ('match', ':dir(ltr)', L['xdiv'], False), ('select', ':dir(ltr)', doc, []), ('select', '*:dir(ltr), *:dir(rtl)', doc, []),
                                ('match', ':defined', L['xdiv'], False), ('select', ':defined', doc, []), ('closest', ':dir(ltr)', L['xbox'], None),
                                ('filter', ':dir(ltr), :defined', L['xdiv'], [])):
        st, got = api(ctx, fn, s, target)
        n += 1
        g = ([label(x) for x in got] if isinstance(got, list) else (label(got) if isinstance(got, Obj) else got)) if st == 'ok' else f'raises {got}'
        rule.instance({'document': 'xml with embedded XHTML elements', 'call': f'{fn}({s!r}, {label(target)})', 'result': g, 'expected': want},
                      key=f'case|embedded|{fn}|{s}|{label(target)}')
        if g != want and bad is None:
            bad = (f'xml document with embedded XHTML-namespaced elements, {fn}() from {label(target)}', s, g, want)
    # ... in whatever position of a selector the HTML-only pseudo-class stands, and whatever follows it
    xdoc, xorder, XL = make_doc(spec, 'xml')
    from ..e2e import batch_api
    reqs = [(dk, 'select', tpl.format(H=h), None, ()) for dk in ('plain', 'embedded') for h in HTML_ONLY for tpl in HTML_ONLY_TEMPLATES]
    for (dk, _, s_, _, _), got in zip(reqs, batch_api(ctx, {'plain': (xdoc, xorder), 'embedded': (doc, order)}, reqs)):
        n += 1
        g = [label((xorder if dk == 'plain' else order)[i]) for i in got[1]] if got[0] == 'ok' else f'raises {got[1]}'
        rule.instance({'document': f'xml ({dk})', 'selector': s_, 'selected': g, 'expected': []}, key=f'case|htmlonly|{dk}|{s_}', sample_cap=6)
        if g != [] and bad is None:
            bad = (f'XML document that is not XHTML ({dk}: {"no namespaces" if dk == "plain" else "XHTML-namespaced elements embedded"})', s_, g, [])
    # namespace-aware HTML trees (html5lib) keep the case of foreign element names (foreignObject); selectors still match them
    # regardless of ASCII case, as for every element of an HTML document - XML flavours compare exactly
    SVGN = 'http://www.w3.org/2000/svg'
    fspec = [('html', {'_label': 'root'}, [('body', {}, [('svg', {'_ns': SVGN, '_label': 'svg'}, [('foreignObject', {'_ns': SVGN, '_label': 'fo'}, []),
                                                                                          ('linearGradient', {'_ns': SVGN, '_label': 'lg'}, [])]),
                                                       ('DIV', {'_label': 'div'}, [])])])]
    for kind in ('html5', 'xhtml'):
        doc, order, L = make_doc(fspec, kind)
        fold = kind == 'html5'
        for s_, want in (('svg', ['<svg>']), ('SVG', ['<svg>'] if fold else []), ('foreignObject', ['<fo>']), ('foreignobject', ['<fo>'] if fold else []),
                         ('FOREIGNOBJECT', ['<fo>'] if fold else []), ('s|LinearGradient', ['<lg>'] if fold else []), ('s|linearGradient', ['<lg>']),
                         ('*|SVG > *', ['<fo>', '<lg>'] if fold else []), ('div', ['<div>'] if fold else []), ('DIV', ['<div>'])):
            st, got = api(ctx, 'select', s_, doc, namespaces={'s': SVGN})
            n += 1
            g = [label(x) for x in got] if st == 'ok' else f'raises {got}'
            rule.instance({'document': kind + ' with SVG elements', 'selector': s_, 'selected': g, 'expected': want}, key=f'case|foreign|{kind}|{s_}')
            if g != want and bad is None:
                bad = (kind + ' tree with SVG elements (names stored as foreignObject, linearGradient)', s_, g, want)
    # only ASCII letters are folded: names that differ in the case of a non-ASCII letter are different names, also in HTML trees
    uspec = [('html', {'_label': 'root'}, [('body', {}, [('item\u00e9', {'data-\u00e9': '1', '_label': 'lowe'}, []), ('item\u00c9', {'data-\u00c9': '1', '_label': 'upe'}, []),
                                                       ('\u212aey', {'_label': 'kelvin'}, []), ('key', {'_label': 'key'}, []), ('\u0131d', {'_label': 'dotless'}, []),
                                                       ('ITEM\u00e9', {'_label': 'asciiup'}, [])])])]
    doc, order, L = make_doc(uspec, 'html5')
    for s_, want in (('item\u00e9', ['<lowe>', '<asciiup>']), ('item\u00c9', ['<upe>']), ('ITEM\u00c9', ['<upe>']), ('[data-\u00e9]', ['<lowe>']), ('[data-\u00c9]', ['<upe>']),
                     ('[DATA-\u00e9]', ['<lowe>']), ('key', ['<key>']), ('KEY', ['<key>']), ('\u212aey', ['<kelvin>']), ('id', []), ('\u0131d', ['<dotless>'])):
        st, got = api(ctx, 'select', s_, doc)
        n += 1
        g = [label(x) for x in got] if st == 'ok' else f'raises {got}'
        rule.instance({'document': 'html5 with non-ASCII names', 'selector': s_, 'selected': g, 'expected': want}, key=f'case|nonascii|{s_}')
        if g != want and bad is None:
            bad = ('HTML tree whose element / attribute names contain cased non-ASCII letters (only ASCII letters are folded)', s_, g, want)
    # filter() over a plain iterable: every item is judged by its own document type, whatever stood before it in the iterable
    items = {}
    for kind in ('html', 'xml'):
        d_, o_, l_ = make_doc([('DIV', {'Type': 'TeXt', 'ID': 'Up', '_label': f'{kind}-item'}, [])], kind)
        for k_ in ('parent', 'previous_element', 'previous_sibling', 'next_sibling'):
            l_[f'{kind}-item'].set(k_, None)
        items[kind] = l_[f'{kind}-item']
    for s_ in ('div', 'DIV', '[type=text]', '[id]', '[ID]', ':root', 'div:first-child', '[type="TeXt"]'):
        alone = {}
        for kind, it in items.items():
            st, v = api(ctx, 'match', s_, it)
            n += 1
            alone[kind] = v if st == 'ok' else f'raises {v}'
        for seq in (('html', 'xml'), ('xml', 'html'), ('html', 'html', 'xml', 'xml', 'html')):
            st, got = api(ctx, 'filter', s_, [items[k_] for k_ in seq])
            n += 1
            g = [label(x) for x in got] if st == 'ok' else f'raises {got}'
            want = [label(items[k_]) for k_ in seq if alone[k_] is True]
            rule.instance({'filter_over': list(seq), 'selector': s_, 'kept': g, 'match_alone': alone}, key=f'case|mixed-filter|{s_}|{seq}')
            if g != want and bad is None:
                bad = (f'iterable of detached <DIV Type=TeXt ID=Up> elements from documents of types {list(seq)}, filter()', s_, g, want)
    rule.instance({'api_calls': n}, key='case-rules')
    rule.obligation(bad is None)
    if bad is not None:
        kind, s, g, want = bad
        rule.violation(f'case rules `{s}` ({kind})', 'soupsieve/css_match.py / css_parser.py',
                       f'{s!r} on the {kind} flavour of the case tree selects {g}, the case rules of the document type give {want}')


def nth_formula_table(ctx, rule):
    """:nth-child / :nth-last-child / :nth-of-type / :nth-last-of-type (An+B, optionally `of S`) through the whole pipeline:
    the selected children are those whose 1-based position among the counted siblings is A*n+B for some n >= 0."""
    kids = [('li', {'class': ['k']}, []), 't', ('dd', {}, []), ('li', {}, []), ('#comment', 'c'), ('li', {'class': ['k']}, []), ('dd', {'class': ['k']}, []), ('li', {}, [])]
    doc, order, L = make_doc([('ul', {'_label': 'root'}, kids)], 'html')
    els = [e for e in elements(order) if e is not L['root']]
    bad = None
    n = 0
    forms = []
    for a, b in itertools.product((-2, -1, 0, 1, 2, 3), (-2, 0, 1, 2, 5)):
        forms.append((f'{a}n{b:+d}', a, b))
    forms += [('even', 2, 0), ('odd', 2, 1), ('3', 0, 3), ('n', 1, 0), ('-n+3', -1, 3)]
    from ..e2e import batch_api
    idx = {id(n_): i for i, n_ in enumerate(order)}
    reqs, wants = [], []

    def designated(a, b, of_type, last, of_s):
        want = []
        for e in els:
            if of_type:
                cand = [c for c in els if c.get('name') == e.get('name')]
            elif of_s == '.k':
                cand = [c for c in els if 'k' in (c.get('attrs').get('class') or [])]
            elif of_s == 'li':
                cand = [c for c in els if c.get('name') == 'li']
            else:
                cand = list(els)
            if last:
                cand = cand[::-1]
            if not any(c is e for c in cand):
                continue
            posn = [i for i, c in enumerate(cand) if c is e][0] + 1
            if any(a * k + b == posn for k in range(0, 20)):
                want.append(idx[id(e)])
        return want
    for text, a, b in forms:
        for pseudo, of_type, last, of_s in (('nth-child', False, False, None), ('nth-last-child', False, True, None), ('nth-of-type', True, False, None),
                                            ('nth-last-of-type', True, True, None), ('nth-child', False, False, '.k'), ('nth-last-child', False, True, 'li')):
            sel = f':{pseudo}({text}{" of " + of_s if of_s else ""})'
            reqs.append(('t', 'select', sel, idx[id(L['root'])], ()))
            wants.append((sel, designated(a, b, of_type, last, of_s)))
    # the same `of S` spelled with an explicit universal selector, with and without the any-namespace prefix
    for text, a, b in forms[::3]:
        for pseudo, last in (('nth-child', False), ('nth-last-child', True)):
            for of_s, spellings in (('.k', ('*.k', '*|*.k', '*|*:is(.k)', ':not(:not(.k))', '*|*:not(li:not(.k), dd:not(.k))')), ('li', ('*|li', '*|*:is(li)', 'li:not(.zz)', '*|li:not(dd)'))):
                for sp in spellings:
                    sel = f':{pseudo}({text} of {sp})'
                    reqs.append(('t', 'select', sel, idx[id(L['root'])], ()))
                    wants.append((sel, designated(a, b, False, last, of_s)))
    # several An+B of one query: in one compound (intersection), in a list (union), one negated (difference) - each keeps its own
    # counting state and its own `of S`
    parts = [(':nth-child(-n+5)', -1, 5, False, False, None), (':nth-child(2n+1)', 2, 1, False, False, None), (':nth-child(-2n+6)', -2, 6, False, False, None),
             (':nth-last-child(n+2)', 1, 2, False, True, None), (':nth-of-type(2n)', 2, 0, True, False, None), (':nth-last-of-type(-n+2)', -1, 2, True, True, None),
             (':nth-child(n+2 of .k)', 1, 2, False, False, '.k'), (':nth-child(2n+1 of li)', 2, 1, False, False, 'li'),
             (':nth-last-child(-n+2 of li)', -1, 2, False, True, 'li'), (':nth-last-child(odd of .k)', 2, 1, False, True, '.k'),
             (':nth-child(2 of li)', 0, 2, False, False, 'li'), (':nth-child(2 of .k)', 0, 2, False, False, '.k')]
    des = {t[0]: designated(*t[1:]) for t in parts}
    allels = [idx[id(e)] for e in els]
    for s1, s2 in itertools.permutations(des, 2):
        reqs.append(('t', 'select', f'*{s1}{s2}', idx[id(L['root'])], ()))
        wants.append((f'*{s1}{s2}', [e for e in des[s1] if e in des[s2]]))
        reqs.append(('t', 'select', f'{s1}, {s2}', idx[id(L['root'])], ()))
        wants.append((f'{s1}, {s2}', [e for e in allels if e in des[s1] or e in des[s2]]))
        reqs.append(('t', 'select', f'*{s1}:not({s2})', idx[id(L['root'])], ()))
        wants.append((f'*{s1}:not({s2})', [e for e in des[s1] if e not in des[s2]]))
    for (sel, want), got in zip(wants, batch_api(ctx, {'t': (doc, order)}, reqs)):
        n += 1
        if got != ('ok', want) and bad is None:
            bad = (sel, [label(order[i]) for i in got[1]] if got[0] == 'ok' else f'raises {got[1]}', [label(order[i]) for i in want],
                   [label(e) + ('.k' if e.get('attrs').get('class') else '') for e in els])
    # the element children of the document object are siblings like any others: several top-level elements (an XML tree extended
    # through the bs4 API, an HTML fragment), counted from both ends
    tops = [('a', {}, []), 'text', ('b', {}, []), ('#comment', 'c'), ('a', {}, []), ('c', {}, [])]
    for kind in ('xml', 'html'):
        d2, o2, _l2 = make_doc(tops, kind)
        e2 = elements(o2)
        i2 = {id(n_): i for i, n_ in enumerate(o2)}
        rows2 = []
        for pseudo, a, b, of_type, last in ((':first-child', 0, 1, False, False), (':last-child', 0, 1, False, True), (':nth-child(2)', 0, 2, False, False),
                                            (':nth-last-child(1)', 0, 1, False, True), (':nth-last-child(2)', 0, 2, False, True), (':nth-child(odd)', 2, 1, False, False),
                                            (':nth-last-child(-n+2)', -1, 2, False, True), (':nth-of-type(1)', 0, 1, True, False), (':nth-last-of-type(1)', 0, 1, True, True),
                                            (':first-of-type', 0, 1, True, False), (':last-of-type', 0, 1, True, True), (':nth-last-of-type(2)', 0, 2, True, True)):
            want = []
            for e in e2:
                cand = [c for c in e2 if (not of_type or c.get('name') == e.get('name'))]
                if last:
                    cand = cand[::-1]
                posn = [i for i, c in enumerate(cand) if c is e][0] + 1
                if any(a * k + b == posn for k in range(0, 20)):
                    want.append(i2[id(e)])
            rows2.append((pseudo, want))
        only = [i2[id(e)] for e in e2 if sum(1 for c in e2 if c.get('name') == e.get('name')) == 1]
        rows2 += [(':only-child', []), (':only-of-type', only)]
        for (sel, want), got in zip(rows2, batch_api(ctx, {'m': (d2, o2)}, [('m', 'select', r_[0], None, ()) for r_ in rows2])):
            n += 1
            if got != ('ok', want) and bad is None:
                bad = (f'{sel} (select from a {kind} document with the top-level nodes a, text, b, comment, a, c)', [label(o2[i]) for i in got[1]] if got[0] == 'ok' else f'raises {got[1]}',
                       [label(o2[i]) for i in want], [label(e) for e in e2])
    rule.instance({'api_calls': n}, key='nth-formula')
    rule.obligation(bad is None)
    if bad is not None:
        sel, got, want, kids_ = bad
        rule.violation(f'An+B `{sel}`', 'soupsieve/css_parser.py (parse_pseudo_nth) / css_match.py (match_nth)',
                       f'{sel!r} among the children {kids_} selects {got}; the positions A*n+B, n >= 0, designate {want}')


def history_table(ctx, rule):
    """One compiled selector object answers the same question the same way whatever it answered before: select, then match on
    every element in reverse order, then select on another tree, then select again."""
    from ..interp import call_function, Raised
    from ..miniev import Unsupported
    from .sem import strict_lower
    bad = None
    n = 0
    for kind in ('html', 'xml'):
        doc, order, L = make_doc(TREE, kind)
        doc2, order2, L2 = make_doc([('html', {}, [('body', {}, [('p', {'class': ['x']}, []), ('input', {'type': 'checkbox', 'checked': ''}, [])])])], 'html')
        els = elements(order)
        for s in ('p.x', ':checked', 'li:nth-child(odd)', 'div:has(> p:lang(fr))', 'p:-soup-contains(hello)', ':dir(ltr)', 'x|p, li', ':default, :indeterminate, p'):
            st, comp = api(ctx, 'compile', s, {'x': 'urn:x'})
            if st != 'ok':
                if bad is None:
                    bad = (kind, s, f'compile() raises {comp}', '-', '-')
                continue
            opts = {'regex_engine': True, 'real_immutable': True, 'max_depth': 250, 'no_const_shortcut': True,
                    'persist': ctx._cache.setdefault('e2e-persist-real', {})}

            def meth(name, *a):
                nonlocal n
                n += 1
                try:
                    r = call_function(ctx, f'css_match.SoupSieve.{name}', list(a), {}, {'util.lower': strict_lower}, comp, opts)
                    return list(r) if name in ('select', 'iselect', 'filter') else r
                except Raised as e:
                    return f'raises {e.exc_name}'
                except Unsupported as e:
                    raise AnalysisError(f'SoupSieve.{name}: outside the evaluable fragment: {e}')
            first = meth('select', doc)
            verdicts = [meth('match', e) for e in reversed(els)]
            meth('select', doc2)
            meth('closest', els[-1])
            again = meth('select', doc)
            verdicts2 = [meth('match', e) for e in reversed(els)]
            fresh = api(ctx, 'select', s, doc, {'x': 'urn:x'})
            ok = not isinstance(first, str) and not isinstance(again, str) and _ids(first) == _ids(again) and verdicts == verdicts2 \
                and fresh[0] == 'ok' and _ids(fresh[1]) == _ids(first)
            rule.instance({'document': kind, 'selector': s, 'first': first if isinstance(first, str) else _show(first), 'stable': ok}, key=f'history|{kind}|{s}')
            if not ok and bad is None:
                bad = (kind, s, first if isinstance(first, str) else _show(first), again if isinstance(again, str) else _show(again),
                       _show(fresh[1]) if fresh[0] == 'ok' else fresh[1])
    # within ONE call the answer for an element does not depend on which elements were evaluated before it: select() over a tree
    # with several radio groups, forms and iframes equals the per-element answers of fresh match() calls
    TI = [('html', {}, [('body', {}, [
        ('input', {'type': 'radio', 'name': 'g', '_label': 'o1'}, []), ('input', {'type': 'radio', 'name': 'g', '_label': 'o2'}, []),
        ('iframe', {}, [('html', {}, [('body', {}, [('input', {'type': 'radio', 'name': 'g', 'checked': '', '_label': 'i1'}, []),
                                                    ('input', {'type': 'radio', 'name': 'g', '_label': 'i2'}, []),
                                                    ('form', {}, [('input', {'type': 'submit', '_label': 's1'}, [])])])])]),
        ('form', {}, [('input', {'type': 'radio', 'name': 'g', '_label': 'f1'}, []), ('input', {'type': 'submit', '_label': 's2'}, [])]),
        ('form', {}, [('input', {'type': 'radio', 'name': 'g', '_label': 'f2'}, []), ('input', {'type': 'submit', '_label': 's3'}, [])]),
        ('section', {'lang': 'de'}, [('ul', {}, [('li', {'_label': 'l1'}, ['x'])])]), ('section', {'lang': 'fr'}, [('ul', {}, [('li', {'_label': 'l2'}, ['x'])])])])])]
    doc, order, L = make_doc(TI, 'html')
    els = elements(order)
    for s in (':indeterminate', ':default', 'li:lang(de)', 'li:lang(fr)', 'input:not(:indeterminate)', ':is(:default, :indeterminate)'):
        st, sel = api(ctx, 'select', s, doc)
        per = []
        for e in els:
            st2, v = api(ctx, 'match', s, e)
            n += 1
            if st2 == 'ok' and v is True:
                per.append(e)
        ok = st == 'ok' and _ids(sel) == _ids(per)
        rule.instance({'document': 'radio groups, forms, iframes, look-alike sections', 'selector': s, 'select': _show(sel) if st == 'ok' else sel, 'per_element': _show(per)},
                      key=f'history|one-call|{s}')
        if not ok and bad is None:
            bad = ('html (radio groups in and outside an iframe, look-alike forms and sections)', s, _show(sel) if st == 'ok' else f'raises {sel}',
                   'the same elements - it is one call', _show(per))
    rule.instance({'api_calls': n}, key='history')
    rule.obligation(bad is None)
    if bad is not None:
        kind, s, first, again, fresh = bad
        rule.violation(f'history `{s}` ({kind})', 'soupsieve/css_match.py (SoupSieve / CSSMatch)',
                       f'the compiled selector {s!r} selects {first} on the {kind} reference tree, then - after matching every element, a query '
                       f'on another tree and closest() - {again}; a freshly compiled selector gives {fresh}: answers depend on the history')


def _nm(e):
    a = e.get('attrs')
    return e.get('name') + ('#' + a['id'] if 'id' in a else '') + ''.join('.' + c for c in a.get('class', [])) + (f"[{a['type']}]" if 'type' in a else '')


ALL = ['html', 'head', 'title', 'body.main', 'div#d1.x.y', 'p#p1.x', 'b', 'p#p2', 'span.y', 'p#p3.x.z', 'a', 'ul#u', 'li.x', 'li', 'li.z', 'li', 'form',
       'input[text]', 'input[checkbox]', 'button[submit]']
# what each selector of the pool designates on the HTML reference tree, worked out by hand from Selectors Level 4 / the HTML
# Standard (reviewed against the tree above; `li` appears twice in a row when both plain <li> elements are meant)
EXPECTED = {
    'p': ['p#p1.x', 'p#p2', 'p#p3.x.z'], '*': ALL, '.x': ['div#d1.x.y', 'p#p1.x', 'p#p3.x.z', 'li.x'], '#p2': ['p#p2'],
    'div > p': ['p#p1.x', 'p#p2', 'p#p3.x.z'], 'div p': ['p#p1.x', 'p#p2', 'p#p3.x.z'], 'p + p': ['p#p2'], 'p ~ span': ['span.y'],
    'li:nth-child(2n+1)': ['li.x', 'li.z'], 'li:nth-last-child(-n+2)': ['li.z', 'li'], 'p:nth-of-type(2)': ['p#p2'],
    ':first-child': ['html', 'head', 'title', 'div#d1.x.y', 'p#p1.x', 'b', 'a', 'li.x', 'input[text]'], 'li:last-child': ['li'],
    'p:not(.x)': ['p#p2'], ':is(p, li).x': ['p#p1.x', 'p#p3.x.z', 'li.x'], 'div:has(> span)': ['div#d1.x.y'], 'ul:has(li.z)': ['ul#u'],
    ':root': ['html'], 'p:empty': ['p#p2'], ':empty': ['p#p2', 'li', 'input[text]', 'input[checkbox]'], '[class~=y]': ['div#d1.x.y', 'span.y'],
    '[href^="#"]': ['a'], '[title="a B" i]': ['span.y'], '[type=text]': ['input[text]'], ':checked': ['input[checkbox]'],
    ':required': ['input[text]'], ':enabled': ['input[text]', 'input[checkbox]', 'button[submit]'], 'p:lang(fr)': ['p#p2'],
    ':lang(en)': [x for x in ALL if x != 'p#p2'], 'p:-soup-contains(bold)': ['p#p1.x'], 'p:-soup-contains-own(bold)': [],
    'body > *': ['div#d1.x.y', 'ul#u', 'form'], 'li:only-child, b:only-child': ['b'], ':link': ['a'], 'html|p': ['p#p1.x', 'p#p2', 'p#p3.x.z'],
    '*|li': ['li.x', 'li', 'li.z', 'li'], 'x|p': [], ':nth-child(2 of .x)': ['p#p3.x.z'], 'p:first-of-type': ['p#p1.x'], ':dir(ltr)': ALL,
    'input:not(:checked)': ['input[text]'], 'div :is(b, a)': ['b', 'a'], ':where(ul, form) > :not(li)': ['input[text]', 'input[checkbox]', 'button[submit]'],
}


def core_semantics_table(ctx, rule):
    """Every selector of the pool on the HTML reference tree against the elements it designates according to Selectors Level 4
    and the HTML Standard (expectations written out by hand): soundness and completeness on one tree, through the whole
    pipeline."""
    from ..e2e import batch_api
    doc, order, L = make_doc(TREE, 'html')
    ns = (('namespaces', {'html': 'http://www.w3.org/1999/xhtml', 'x': 'urn:x'}),)
    missing = [s for s in SELECTORS if s not in EXPECTED]
    if missing:
        raise AnalysisError(f'core semantics table: no expectation for {missing}')
    reqs = [('t', 'select', s, None, ns) for s in SELECTORS]
    bad = None
    for s, got in zip(SELECTORS, batch_api(ctx, {'t': (doc, order)}, reqs)):
        g = [_nm(order[i]) for i in got[1]] if got[0] == 'ok' else f'raises {got[1]}'
        rule.instance({'selector': s, 'selected': g, 'expected': EXPECTED[s]}, key=f'core|{s}', sample_cap=6)
        if g != EXPECTED[s] and bad is None:
            bad = (s, g, EXPECTED[s])
    rule.obligation(bad is None)
    if bad is not None:
        s, g, want = bad
        extra = [x for x in g if x not in want] if isinstance(g, list) else []
        lost = [x for x in want if x not in g] if isinstance(g, list) else want
        rule.violation(f'core semantics `{s}`', 'soupsieve (whole pipeline)',
                       f'{s!r} on the HTML reference tree selects {g}; by the Selectors specification it designates {want}'
                       + (f' - {extra} are selected although they do not match (unsound)' if extra else '')
                       + (f' - {lost} match but are not selected (incomplete)' if lost else ''))


def _rows_table(ctx, rule, title, cases, where, why):
    """cases: [(document description, kind, spec, namespaces, [(selector, expected labels), ...])] - select() from the document."""
    from ..e2e import batch_api
    docs, reqs, meta = {}, [], []
    for i, case in enumerate(cases):
        what, kind, spec, ns, rows = case[:5]
        custom = case[5] if len(case) > 5 else None
        doc, order, L = make_doc(spec, kind)
        docs[i] = (doc, order)
        for s, want in rows:
            kw = ((('namespaces', ns),) if ns is not None else ()) + ((('custom', custom),) if custom is not None else ())
            reqs.append((i, 'select', s, None, kw))
            meta.append((i, what, s, want))
    bad = []
    for (i, what, s, want), got in zip(meta, batch_api(ctx, docs, reqs)):
        order = docs[i][1]
        g = [label(order[j]).strip('<>') for j in got[1]] if got[0] == 'ok' else f'raises {got[1]}'
        rule.instance({'document': what, 'selector': s, 'selected': g, 'expected': want}, key=f'{title}|{what}|{s}', sample_cap=8)
        if g != want:
            bad.append((what, s, g, want))
    rule.instance({'api_calls': len(reqs)}, key=f'{title}-calls')
    rule.obligation(not bad)
    # every failing row is reported (a recorded finding in one row must not hide a new one in another); at most 12
    for what, s, g, want in bad[:12]:
        rule.violation(f'{title} `{s}` ({what})', where, f'{s!r} on the document "{what}" selects {g}; {why} gives {want}')


def text_table(ctx, rule):
    """:-soup-contains / :-soup-contains-own / :empty on a tree with text split across elements, comments, CDATA, a processing
    instruction, an iframe and elements without any text node."""
    T = [('html', {}, [('body', {}, [('div', {'id': 't', '_label': 't'}, [
        'ab', ('span', {'_label': 'span'}, ['cd']), ('#comment', 'zz'), 'ef', ('#cdata', 'yy'), ('#pi', 'pp'),
        ('iframe', {'_label': 'frame'}, [('html', {}, [('body', {}, ['inner'])])]),
        ('p', {'_label': 'pe'}, []), ('p', {'_label': 'pc'}, [('#comment', 'q')]), ('p', {'_label': 'ps'}, [('i', {'_label': 'i'}, [])]),
        ('p', {'_label': 'pw'}, [' \n\t']), ('p', {'_label': 'pn'}, ['\u00a0'])])])])]
    rows = [
        ('#t:-soup-contains(abcdef)', ['t']), ('#t:-soup-contains(bcde)', ['t']), ('#t:-soup-contains(zz)', []), ('#t:-soup-contains(yy)', []),
        ('#t:-soup-contains(pp)', []), ('#t:-soup-contains(inner)', []), ('#t:-soup-contains(abx, cd)', ['t']),
        ('#t:-soup-contains-own(ab)', ['t']), ('#t:-soup-contains-own(abcd)', []), ('#t:-soup-contains-own(cd)', []), ('#t:-soup-contains-own(abef)', []),
        ('span:-soup-contains-own(cd)', ['span']), ('#t:-soup-contains-own(zz, ef)', ['t']),
        ('#t:-soup-contains-own("")', ['t']), ('#t > p:-soup-contains-own("")', ['pw', 'pn']), ('#t > p:-soup-contains-own("zzz", "")', ['pw', 'pn']),
        ('#t > p:-soup-contains("")', ['pe', 'pc', 'ps', 'pw', 'pn']), ('i:-soup-contains-own("")', []), ('iframe:-soup-contains-own("")', []),
        ('#t > p:empty', ['pe', 'pc', 'pw']), ('#t > :empty', ['pe', 'pc', 'pw']), ('i:empty', ['i']), ('#t:contains(abcdef)', ['t']),
        ('iframe:-soup-contains(inner)', []), ('body:-soup-contains(abcdef)', ['body']),
    ]
    rows = [(s, [('body' if w == 'body' else w) for w in want]) for s, want in rows]
    # every short needle and needle list against text that is split over five nodes: a needle counts when it occurs in the joined text
    # (descendants) / in one child text node (own) - whatever the other needles of the list are
    pieces = ['ab', 'cd', 'ef', 'g', 'hij']
    TS = [('html', {}, [('body', {}, [('div', {'id': 's', '_label': 's'}, ['ab', ('span', {}, ['cd']), 'ef', ('b', {}, [('i', {}, ['g'])]), 'hij'])])])]
    joined = ''.join(pieces)
    own = ['ab', 'ef', 'hij']
    subs = sorted({joined[i:j] for i in range(len(joined)) for j in range(i + 1, min(len(joined), i + 6) + 1)}, key=lambda t: (len(t), t))
    negs = ['x', 'ba', 'abd', 'acd', 'jk', 'abcdeg', 'bcdfe']
    rows_s = []
    for nd in subs[::2] + negs:
        rows_s.append((f'#s:-soup-contains({nd})', ['s'] if nd in joined else []))
        rows_s.append((f'#s:-soup-contains-own({nd})', ['s'] if any(nd in o for o in own) else []))
    lists = [(a, b) for a in negs[:4] + ['j', 'ab'] for b in ('bcdefg', 'defgh', 'fgh', 'ghi', 'bc', 'abcdeg', 'cdefghi')] + [(b, a) for a in ('x', 'jk') for b in ('bcdefg', 'fghij')]
    for a, b in lists:
        rows_s.append((f'#s:-soup-contains({a}, {b})', ['s'] if a in joined or b in joined else []))
        rows_s.append((f'#s:-soup-contains-own({a}, {b})', ['s'] if any(a in o or b in o for o in own) else []))
    rows_s.append(('#s:-soup-contains(x, y, cdefgh)', ['s']))
    rows_s.append(('#s:-soup-contains(bcdefg):-soup-contains(x, hij)', ['s']))
    # an element that merely has the local name iframe, in a foreign namespace of a namespace-aware tree, is not an HTML iframe: its
    # text is content like any other
    TF = [('html', {}, [('body', {}, [('div', {'id': 'f', '_label': 'f'}, ['out', ('iframe', {'_ns': 'urn:other', '_label': 'fi'}, ['foreign', ('p', {'_label': 'fp'}, ['deep'])]),
                                                                          ('iframe', {'_label': 'hi'}, [('html', {}, [('body', {}, ['inner'])])])])])])]
    rows_f = [('#f:-soup-contains(foreign)', ['f']), ('#f:-soup-contains(deep)', ['f']), ('#f:-soup-contains(outforeigndeep)', ['f']), ('#f:-soup-contains(inner)', []),
              ('#f > *:-soup-contains-own(foreign)', ['fi']), ('#f *:-soup-contains(deep)', ['fi', 'fp']), ('#f > :empty', [])]
    _rows_table(ctx, rule, 'text', [('text nodes, comments, CDATA, iframe', 'html', T, None, rows),
                                    ('text split over five nodes of three depths', 'html', TS, None, rows_s),
                                    ('an element named iframe in a foreign namespace (html5lib tree)', 'html5', TF, None, rows_f),
                                    ('an element named iframe in a foreign namespace (XHTML tree)', 'xhtml', TF, None, rows_f)],
                'soupsieve/css_match.py (match_contains / match_empty)',
                'the definition (text nodes among the descendants in document order / one text node that is a direct child; comments, CDATA, '
                'processing instructions and iframe content are not text)')


def namespace_table(ctx, rule):
    """Type and attribute selectors with namespace prefixes on an XML tree whose elements and attributes live in different
    namespaces, under several prefix maps."""
    from ..tables import NSKey
    X, Y = 'urn:x', 'urn:y'
    T = [('root', {'_label': 'root'}, [
        ('e', {'_ns': X, '_label': 'ex', 'a': '1', NSKey('x:b', X, 'b'): '2'}, []),
        ('e', {'_ns': Y, '_label': 'ey', NSKey('y:a', Y, 'a'): '3'}, []),
        ('e', {'_label': 'en', 'a': '4'}, []),
        ('f', {'_ns': X, '_label': 'fx'}, [('e', {'_ns': X, '_label': 'ex2', NSKey('q:a', Y, 'a'): '5'}, [])]),
        # an attribute in namespace urn:x stored under a key without prefix (the document binds that URI as default namespace as well),
        # and attributes / an element in the XML namespace
        ('g', {'_label': 'gc', NSKey('c', X, 'c'): '7', NSKey('xml:lang', 'http://www.w3.org/XML/1998/namespace', 'lang'): 'de'}, []),
        ('k', {'_ns': 'http://www.w3.org/XML/1998/namespace', '_label': 'xk'}, [])])]
    m1 = {'p': X, 'q': Y}
    rows1 = [('p|e', ['ex', 'ex2']), ('q|e', ['ey']), ('*|e', ['ex', 'ey', 'en', 'ex2']), ('|e', ['en']), ('e', ['ex', 'ey', 'en', 'ex2']),
             ('z|e', []), ('p|*', ['ex', 'fx', 'ex2']), ('|*', ['root', 'en', 'gc']),
             ('[p|b]', ['ex']), ('[q|b]', []), ('[p|a]', []), ('[q|a]', ['ey', 'ex2']), ('[a]', ['ex', 'en']), ('[|a]', ['ex', 'en']),
             ('[*|a]', ['ex', 'ey', 'en', 'ex2']), ('[*|b]', ['ex']), ('[z|a]', []), ('[p|b="2"]', ['ex']), ('[q|a="5"]', ['ex2']),
             ('p|f > p|e', ['ex2']), ('p|e[q|a]', ['ex2']), (':not(p|e)', ['root', 'ey', 'en', 'fx', 'gc', 'xk']), (':is(q|e, |e)', ['ey', 'en']),
             ('[p|c]', ['gc']), ('[*|c]', ['gc']), ('[q|c]', []), ('[p|c="7"]', ['gc']), ('[*|lang]', ['gc']),
             # a prefix that the caller's map does not bind matches nothing - `xml` is no exception
             ('[xml|lang]', []), ('xml|k', []), ('xml|*', []), ('*|k', ['xk'])]
    m2 = {'': X, 'q': Y}
    rows2 = [('e', ['ex', 'ex2']), ('*', ['ex', 'fx', 'ex2']), ('*|e', ['ex', 'ey', 'en', 'ex2']), ('|e', ['en']), ('q|e', ['ey']), ('[a]', ['ex']),
             (':not(e)', ['fx']), ('*|*:not(e)', ['root', 'ey', 'en', 'fx', 'gc', 'xk']), ('f e', ['ex2']), (':is(e)', ['ex', 'ex2']),
             # positions count every element sibling, whatever its namespace (the default namespace restricts the subject only)
             ('*|*:nth-child(2)', ['ey']), ('*|*:nth-child(3)', ['en']), ('*|e:nth-last-child(4)', ['en']), ('e:nth-child(1)', ['ex', 'ex2']),
             ('*|*:nth-child(n+3)', ['en', 'fx', 'gc', 'xk']), ('*:nth-child(4)', ['fx']), ('*:nth-last-child(1)', ['ex2']), ('*:nth-last-child(3)', ['fx']), ('q|e:nth-child(2)', ['ey']),
             ('*|*:nth-child(even)', ['ey', 'fx', 'xk']), ('*|*:nth-last-child(-n+2)', ['root', 'ex2', 'gc', 'xk']), ('*|*:first-child', ['root', 'ex', 'ex2']),
             ('*|*:nth-of-type(2)', []), ('*|*:nth-of-type(1)', ['root', 'ex', 'ey', 'en', 'fx', 'ex2', 'gc', 'xk']), ('*|*:nth-child(2 of *|e)', ['ey']), ('*|*:nth-child(2 of e)', []), ('*|*:nth-child(1 of e)', ['ex', 'ex2'])]
    rows3 = [(':--px', ['ex', 'ex2']), ('root > :--px', ['ex']), (':--qa', ['ey', 'ex2']), (':--both', ['ex2']), ('f :--px', ['ex2']), (':not(:--px)', ['root', 'ey', 'en', 'fx', 'gc', 'xk'])]
    custom = {':--px': 'p|e', ':--qa': '[q|a]', ':--both': ':--px:--qa'}
    XH = 'http://www.w3.org/1999/xhtml'
    T4 = [('html', {'_label': 'root'}, [('body', {'_label': 'body'}, [('e', {'_label': 'hx'}, []), ('e', {'_ns': None, '_label': 'bare'}, [('e', {'_ns': None, '_label': 'bare2'}, [])]),
                                                                       ('e', {'_ns': '', '_label': 'empty'}, [])])])]
    # (the last two rows: a prefixed type selector next to :dir() / :defined - see the recorded findings)
    rows4 = [('h|e:dir(ltr)', ['hx']), ('html|e:defined', []), ('|e', ['bare', 'bare2', 'empty']), ('h|e', ['hx']), ('e', ['hx', 'bare', 'bare2', 'empty']), ('*|e', ['hx', 'bare', 'bare2', 'empty']), ('h|*', ['root', 'body', 'hx']),
             ('|*', ['bare', 'bare2', 'empty'])]
    rows5 = [('e', ['hx']), ('*|e', ['hx', 'bare', 'bare2', 'empty']), ('|e', ['bare', 'bare2', 'empty'])]
    # a prefix bound to the empty URI denotes "no namespace", like the bare `|`
    rows6 = [('none|e', ['en']), ('none|*', ['root', 'en', 'gc']), ('*|*:not(none|*)', ['ex', 'ey', 'fx', 'ex2', 'xk']), ('|e', ['en']), ('p|e', ['ex', 'ex2']),
             (':is(none|e, p|f)', ['en', 'fx'])]
    _rows_table(ctx, rule, 'namespace', [('mixed namespaces, map {p: urn:x, q: urn:y}', 'xml', T, m1, rows1),
                                         ('mixed namespaces, map {p: urn:x, none: ""}', 'xml', T, {'p': X, 'none': ''}, rows6),
                                         ('mixed namespaces, default namespace urn:x', 'xml', T, m2, rows2),
                                         ('mixed namespaces, prefixes used inside custom selectors', 'xml', T, m1, rows3, custom),
                                         ('XHTML document with elements outside any namespace, map {h: XHTML}', 'xhtml', T4, {'h': XH}, rows4),
                                         ('XHTML document with elements outside any namespace, default namespace XHTML', 'xhtml', T4, {'': XH}, rows5)],
                'soupsieve/css_match.py (match_namespace / match_attribute_name)',
                'comparing the namespace URI of the element / attribute with the URI the prefix is mapped to')


def lang_pipeline_table(ctx, rule):
    """:lang() through the whole pipeline on XHTML and XML flavours (attribute names are case-sensitive there, xml:lang counts in
    XML) and on HTML with a content-language pragma."""
    from ..tables import NSKey
    XMLNS = 'http://www.w3.org/XML/1998/namespace'
    TX = [('html', {'lang': 'en', '_label': 'root'}, [('body', {}, [
        ('div', {'LANG': 'fr', '_label': 'shout'}, [('p', {'_label': 'p1'}, [])]),
        ('div', {'lang': 'de-CH', '_label': 'de'}, [('p', {'_label': 'p2'}, []), ('p', {'lang': '', '_label': 'p3'}, [('b', {'_label': 'b'}, [])]),
                                                    # names are case-sensitive in XHTML: <IFRAME> is an unknown element, not a document boundary
                                                    ('IFRAME', {'_label': 'ifr'}, [('p', {'_label': 'p4'}, [])])])])])]
    TS = [('html', {'lang': 'en', '_label': 'root'}, [('body', {}, [
        ('section', {'lang': 'de', '_label': 's1'}, [('ul', {'_label': 'u1'}, [('li', {'_label': 'l1'}, ['x'])])]),
        ('section', {'lang': 'fr', '_label': 's2'}, [('ul', {'_label': 'u2'}, [('li', {'_label': 'l2'}, ['x'])])]),
        ('section', {'_label': 's3'}, [('ul', {'_label': 'u3'}, [('li', {'_label': 'l3'}, ['x'])])])])])]
    rows_s = [('li:lang(de)', ['l1']), ('li:lang(fr)', ['l2']), ('li:lang(en)', ['l3']), ('ul:lang(fr)', ['u2']), (':lang(de)', ['s1', 'u1', 'l1'])]
    rows_x = [('p:lang(en)', ['p1']), ('p:lang(fr)', []), ('p:lang(de)', ['p2', 'p4']), ('p:lang("*-ch")', ['p2', 'p4']), ('p:lang("")', ['p3']), ('b:lang("")', ['b']),
              ('b:lang(de)', []), ('div:lang(en)', ['shout']), (':lang("de-*")', ['de', 'p2', 'ifr', 'p4'])]
    TM = [('doc', {NSKey('xml:lang', XMLNS, 'lang'): 'de', 'lang': 'en', '_label': 'root'}, [('a', {'_label': 'a'}, []), ('b', {'lang': 'fr', '_label': 'b'}, [])])]
    rows_m = [('a:lang(de)', ['a']), ('a:lang(en)', []), ('b:lang(fr)', []), ('b:lang(de)', ['b'])]
    # the pragma is the fallback of ITS document: a nested document without any language information has no language, at any depth;
    # another <meta> may precede the pragma
    TH = [('html', {'_label': 'root'}, [('head', {}, [('meta', {'charset': 'utf-8'}, []), ('meta', {'http-equiv': 'Content-Language', 'content': 'es'}, [])]),
                                        ('body', {}, [('p', {'_label': 'p'}, []), ('p', {'lang': 'pt', '_label': 'q'}, []),
                                                      ('iframe', {'_label': 'fr'}, [('html', {'_label': 'ihtml'}, [('body', {'_label': 'ibody'}, [
                                                          ('p', {'_label': 'ip'}, []),
                                                          ('iframe', {}, [('html', {}, [('head', {}, []), ('body', {}, [('p', {'_label': 'iip'}, [])])])])])])]),
                                                      ('p', {'_label': 'last'}, [])])])]
    rows_h = [('p:lang(es)', ['p', 'last']), ('p:lang(pt)', ['q']), ('body:lang(es)', ['body']), ('p:lang(en)', []),
              (':lang(es)', ['root', 'head', 'meta', 'meta', 'body', 'p', 'fr', 'last']), ('p:not(:lang(es), :lang(pt))', ['ip', 'iip'])]
    # the choice between lang and xml:lang is made for each ancestor by ITS namespace (an SVG ancestor of an HTML element in a
    # namespace-aware HTML tree declares its language with xml:lang)
    SVGN = 'http://www.w3.org/2000/svg'
    TF = [('html', {'lang': 'en', '_label': 'root'}, [('body', {}, [
        ('svg', {'_ns': SVGN, NSKey('xml:lang', XMLNS, 'lang'): 'fr', 'lang': 'de', '_label': 'svg'}, [
            ('circle', {'_ns': SVGN, '_label': 'circle'}, []),
            ('foreignObject', {'_ns': SVGN, '_label': 'fo'}, [('p', {'_label': 'p'}, []), ('p', {'lang': 'it', NSKey('xml:lang', XMLNS, 'lang'): 'es', '_label': 'q'}, [])])]),
        ('div', {NSKey('xml:lang', XMLNS, 'lang'): 'fr', '_label': 'div'}, [])])])]
    rows_f = [('p:lang(fr)', ['p']), ('p:lang(de)', []), ('p:lang(it)', ['q']), ('p:lang(es)', []), ('*|circle:lang(fr)', ['circle']), ('div:lang(en)', ['div']),
              ('div:lang(fr)', [])]
    _rows_table(ctx, rule, 'lang', [('XHTML (XML parser), LANG next to lang', 'xhtml', TX, None, rows_x),
                                    ('namespace-aware HTML with an SVG subtree: xml:lang on foreign ancestors, lang on HTML ones', 'html5', TF, None, rows_f), ('XML, xml:lang next to lang', 'xml', TM, None, rows_m),
                                    ('HTML, content-language pragma', 'html', TH, None, rows_h),
                                    ('HTML, content-language pragma with a comma (not a single language: the HTML Standard ignores it)', 'html',
                                     [('html', {'_label': 'root'}, [('head', {}, [('meta', {'http-equiv': 'content-language', 'content': 'en,fr'}, [])]), ('body', {}, [('p', {'_label': 'p'}, [])])])],
                                     None, [('p:lang(en)', []), ('p:lang(fr)', []), ('p:lang("en-*")', []), ('p:not(:lang(en))', ['p'])]),
                                    ('HTML, look-alike subtrees under different languages', 'html', TS, None, rows_s),
                                    ('XHTML, look-alike subtrees under different languages', 'xhtml', TS, None, rows_s)],
                'soupsieve/css_match.py (match_lang / extended_language_filter)',
                'the nearest lang attribute (xml:lang in XML that is not XHTML; attribute names are case-sensitive in XML trees), else the '
                'content-language pragma, filtered by RFC 4647')


def state_pipeline_table(ctx, rule):
    """:dir() with invalid dir values on the way to the first strong character, radio groups in nested forms, :default,
    :placeholder-shown and the partition laws on one form tree (HTML)."""
    HE = 'אב'
    TD = [('html', {'_label': 'root'}, [('body', {}, [
        ('div', {'dir': 'auto', '_label': 'auto1'}, [('span', {'dir': '', '_label': 's1'}, [HE]), ' latin']),
        ('div', {'dir': 'auto', '_label': 'auto2'}, [('span', {'dir': 'bogus', '_label': 's2'}, [HE]), ' latin']),
        ('div', {'dir': 'auto', '_label': 'auto3'}, [('span', {'dir': 'ltr', '_label': 's3'}, [HE]), ' latin']),
        ('div', {'dir': 'auto', '_label': 'auto4'}, [('span', {'dir': 'RTL', '_label': 's4'}, ['abc']), ' ' + HE]),
        ('div', {'dir': 'rtl', '_label': 'r'}, [('p', {'_label': 'rp'}, []), ('p', {'dir': 'nope', '_label': 'rq'}, [])]),
        ('bdi', {'_label': 'bdi'}, [HE]),
        # a descendant with dir=auto (any spelling) is skipped like one with dir=ltr / rtl: it resolves its own direction
        ('div', {'dir': 'auto', '_label': 'auto5'}, [('span', {'dir': 'auto', '_label': 's5'}, [HE]), ' latin']),
        ('bdi', {'_label': 'bdi2'}, [('em', {'dir': 'AUTO', '_label': 'e6'}, [HE]), 'xyz'])])])]
    rows_d = [('div:dir(rtl)', ['auto1', 'auto2', 'auto4', 'r']), ('div:dir(ltr)', ['auto3', 'auto5']), ('span:dir(rtl)', ['s1', 's2', 's4', 's5']), ('span:dir(ltr)', ['s3']),
              ('p:dir(rtl)', ['rp', 'rq']), ('bdi:dir(rtl)', ['bdi']), ('bdi:dir(ltr)', ['bdi2']), ('em:dir(rtl)', ['e6']), ('html:dir(ltr)', ['root'])]
    TF = [('html', {}, [('body', {}, [
        ('form', {'_label': 'outer'}, [('input', {'type': 'radio', 'name': 'g', '_label': 'o1'}, []), ('input', {'type': 'submit', '_label': 'sub0'}, []),
                                       ('form', {'_label': 'inner'}, [('input', {'type': 'radio', 'name': 'g', 'checked': '', '_label': 'i1'}, []),
                                                                      ('input', {'type': 'radio', 'name': 'g', '_label': 'i2'}, [])]),
                                       ('input', {'type': 'submit', '_label': 'sub1'}, []), ('button', {'_label': 'sub2'}, ['b'])]),
        ('input', {'type': 'radio', 'name': 'g', '_label': 'free'}, []),
        ('input', {'type': 'text', 'placeholder': 'x', '_label': 'ph'}, []), ('input', {'type': 'text', 'placeholder': 'x', 'value': 'v', '_label': 'phv'}, []),
        ('input', {'type': 'text', 'placeholder': '', '_label': 'ph0'}, []),
        ('progress', {'_label': 'prog'}, []), ('input', {'type': 'checkbox', 'indeterminate': '', '_label': 'ind'}, [])])])]
    rows_f = [(':indeterminate', ['o1', 'free', 'prog', 'ind']), (':checked', ['i1']), (':default', ['sub0', 'i1']), (':placeholder-shown', ['ph']),
              ('input:enabled', ['o1', 'sub0', 'i1', 'i2', 'sub1', 'free', 'ph', 'phv', 'ph0', 'ind']), (':disabled', [])]
    # the context of a state pseudo-class is found inside the element's own document: nothing crosses an iframe boundary
    TI = [('html', {'_label': 'root', 'lang': 'fr'}, [('body', {'dir': 'rtl'}, [
        ('form', {'_label': 'oform'}, [
            ('input', {'type': 'radio', 'name': 'g', '_label': 'orad'}, []),
            ('iframe', {'_label': 'frame'}, [('html', {'_label': 'iroot'}, [('body', {}, [
                ('input', {'type': 'submit', '_label': 'isub'}, []), ('input', {'type': 'radio', 'name': 'g', 'checked': '', '_label': 'irad'}, []),
                ('p', {'_label': 'ip'}, [HE])])])]),
            ('input', {'type': 'submit', '_label': 'osub'}, [])]),
        ('div', {'dir': 'auto', '_label': 'auto'}, [('iframe', {}, [('html', {}, [('body', {}, [HE])])]), 'latin']),
        ('input', {'type': 'radio', 'name': 'free', '_label': 'ofree1'}, []), ('input', {'type': 'radio', 'name': 'free', '_label': 'ofree2'}, []),
        ('iframe', {}, [('html', {}, [('body', {}, [('input', {'type': 'radio', 'name': 'free', 'checked': '', '_label': 'ifree1'}, []),
                                                    ('input', {'type': 'radio', 'name': 'free', '_label': 'ifree2'}, [])])])]),
        ('p', {'_label': 'op'}, []),
        # a disabled fieldset of the outer document does not disable the controls of a document nested in it, at any depth
        ('fieldset', {'disabled': '', '_label': 'ofs'}, [('input', {'type': 'text', '_label': 'fsin'}, []), ('iframe', {}, [('html', {}, [('body', {}, [
            ('input', {'type': 'text', '_label': 'deepin'}, []), ('section', {}, [('select', {'_label': 'deepsel'}, [])])])])])])])])]
    rows_i = [('fieldset :disabled', ['fsin']), ('fieldset :enabled', ['deepin', 'deepsel']), (':disabled', ['ofs', 'fsin']),
              ('fieldset :optional', ['fsin', 'deepin', 'deepsel']), ('fieldset :read-write', ['deepin']),
              (':default', ['irad', 'osub', 'ifree1']), (':indeterminate', ['orad', 'ofree1', 'ofree2']), ('input[name=free]:not(:indeterminate)', ['ifree1', 'ifree2']), ('p:dir(rtl)', ['op']), ('p:dir(ltr)', ['ip']), ('html:dir(ltr)', ['root', 'iroot', 'html', 'html', 'html']),
              ('div:dir(ltr)', ['auto']), ('p:lang(fr)', ['op']), ('html:lang(fr)', ['root']), ('form input:checked', ['irad']), ('form :root', ['iroot'])]
    # look-alike forms: two forms with identical markup are two forms (bs4 tags compare equal when their markup is equal)
    TL = [('html', {}, [('body', {}, [
        ('form', {'_label': 'fa'}, [('input', {'type': 'radio', 'name': 'g', '_label': 'a1'}, []), ('input', {'type': 'submit', '_label': 'as'}, [])]),
        ('form', {'_label': 'fb'}, [('input', {'type': 'radio', 'name': 'g', '_label': 'b1'}, []), ('input', {'type': 'submit', '_label': 'bs'}, [])]),
        ('form', {'_label': 'fc'}, [('input', {'type': 'radio', 'name': 'g', 'checked': '', '_label': 'c1'}, []), ('input', {'type': 'radio', 'name': 'g', '_label': 'c2'}, []),
                                   ('input', {'type': 'submit', '_label': 'cs'}, [])]),
        ('form', {'_label': 'fd'}, [('input', {'type': 'radio', 'name': 'g', '_label': 'd1'}, []), ('input', {'type': 'radio', 'name': 'g', '_label': 'd2'}, []),
                                   ('input', {'type': 'submit', '_label': 'ds'}, [])])])])]
    rows_l = [(':default', ['as', 'bs', 'c1', 'cs', 'ds']), (':indeterminate', ['a1', 'b1', 'd1', 'd2']), ('input[type=radio]:not(:indeterminate)', ['c1', 'c2'])]
    _rows_table(ctx, rule, 'state', [('dir=auto with invalid dir values below', 'html', TD, None, rows_d), ('nested forms and radio groups', 'html', TF, None, rows_f),
                                     ('forms with identical markup', 'html', TL, None, rows_l),
                                     ('state across an iframe boundary', 'html', TI, None, rows_i),
                                     # whatever text a control contains is its content, also text of a document nested in it (elements inside
                                     # a textarea: html.parser keeps them)
                                     ('a textarea that holds an iframe', 'html', STATE_TREE, None, [(':placeholder-shown', ['textarea']), ('textarea:not(:placeholder-shown)', ['textarea', 'textarea']),
                                                                                                  ('#t2:placeholder-shown', ['textarea']), ('#t1:placeholder-shown', [])]),
                                     ('a textarea that holds an iframe', 'xhtml', STATE_TREE, None, [(':placeholder-shown', ['textarea']), ('#t1:placeholder-shown', [])])],
                'soupsieve/css_match.py (match_dir / find_bidi / match_indeterminate / match_default / match_placeholder_shown)',
                'the HTML Standard (directionality of dir=auto skips only children whose dir attribute is in a defined state; a radio group is the '
                'same-named radio buttons with the same form owner)')


# attribute values have the shapes parsers store: strings, and lists of strings for the multi-valued attributes (class, accesskey,
# dropzone everywhere; rel / rev on a and area; headers on td / th; accept-charset on form; sandbox on iframe); the content is
# arbitrary (missing, empty, malformed).  Attributes that only attribute / class / id selectors read also carry the odd values the
# bs4 API permits (None, numbers, bytes, nested lists).
HOSTILE_TREE = [('#doctype', 'html'), ('#comment', 'x'), ('html', {'_label': 'root'}, [
    ('head', {}, [('meta', {'http-equiv': 'content-language', 'content': 'en, fr'}, []), ('meta', {}, []), ('meta', {'http-equiv': 'Content-Language'}, []),
                  ('meta', {'http-equiv': 'Content-Language', 'content': ''}, [])]),
    ('body', {'dir': 'LTR', 'lang': 'en', 'class': [], 'accesskey': ['a', 'b']}, [
        ('input', {'type': 'radio', 'name': '', 'checked': ''}, []), ('input', {'type': 'radio'}, []), ('input', {'type': 'RADIO', 'name': 'a b'}, []),
        ('input', {'type': 'number', 'min': '1e', 'max': '', 'value': '5..'}, []), ('input', {'max': '5'}, []), ('input', {'type': '', 'min': '1'}, []),
        ('input', {'type': 'date', 'min': 'x', 'max': '9999-99-99', 'value': '2020-13-45'}, []), ('input', {'type': 'date', 'min': '10000-01-01', 'value': '0000-00-00'}, []),
        ('input', {'type': 'time', 'min': '23:00', 'max': '01:00', 'value': '24:61'}, []), ('input', {'type': 'week', 'min': '0999-W01', 'max': '2020-W54', 'value': '0000-W00'}, []),
        ('input', {'type': 'month', 'min': '0000-00', 'value': '99999-12'}, []), ('input', {'type': 'datetime-local', 'min': '2020-02-30T25:00', 'value': 'T'}, []), ('input', {'type': 'datetime-local', 'max': '2020-13-01T00:00', 'min': '2020-99-99T99:99', 'value': '2020-00-00T00:00'}, []),
        ('input', {'type': 'date', 'min': '2020-13-01', 'max': '2020-00-10', 'value': '2020-99-01'}, []), ('input', {'type': 'month', 'min': '2020-13', 'value': '2020-00'}, []),
        ('input', {'type': 'range', 'min': '-', 'max': '+', 'value': '.'}, []),
        ('input', {'type': 'text', 'dir': 'auto', 'value': '', 'placeholder': ''}, []), ('input', {'type': 'text', 'dir': 'AUTO', 'value': '\u05d0'}, []),
        ('input', {}, []), ('textarea', {'dir': 'auto', 'placeholder': 'x'}, [('#comment', 'c')]), ('bdi', {}, []), ('bdi', {'dir': 'bogus'}, [('#cdata', 'c')]),
        ('form', {'accept-charset': ['a', 'b']}, []), ('option', {'selected': ''}, []), ('a', {'href': '', 'rel': ['x', 'y']}, []), ('area', {'href': 'u', 'rel': []}, []),
        ('iframe', {'sandbox': ['s']}, []),
        ('p', {'id': 'i', 'class': 'plain string', 'lang': 'de-CH', '_label': 'p', 'data-n': 5, 'data-none': None, 'data-b': b'x', 'data-l': ['a', ['b', 'c']]},
         [('#cdata', 'c'), ('#pi', 'p'), ('b', {'_label': 'deep'}, [])]),
        ('p', {'lang': '', 'class': ['a', 'b'], 'id': ''}, ['']), ('p', {'id': 7, 'class': [None, 'a', 3]}, []), ('progress', {'value': 'x'}, []), ('progress', {}, []),
        ('select', {'multiple': '', 'required': ''}, [('optgroup', {'disabled': ''}, [('option', {}, [])]), ('option', {'value': ''}, [])]),
        ('fieldset', {'disabled': ''}, [('legend', {}, [('input', {}, [])]), ('input', {'type': 'checkbox', 'indeterminate': ''}, []), ('button', {}, [])]),
        ('div', {'contenteditable': '', 'dir': 'rtl'}, [('span', {'dir': 'auto'}, [])]), ('x-y', {}, []), ('svg', {}, [('a', {'href': 'z'}, [])]),
        ('table', {}, [('td', {'headers': ['h1', 'h2']}, [])]),
        ('a:b', {'a:c': 'v', 'name': 'q"u\\o\nte', 'type': 'ra"dio', 'dir': 'l\ntr', 'lang': '"'}, [('-', {}, []), ('input', {'type': 'radio', 'name': 'q"u\\o\nte'}, [])]),
    ])]), 'tail text', ('extra', {'_label': 'extra', 'lang': 'x-'}, [])]


DETACHED_EXTRA = [':nth-child(1):dir(ltr)', ':first-child:defined', ':defined:last-child', ':only-child:dir(ltr)', 'legend:first-of-type', ':nth-of-type(1):defined',
                  ':is(:first-child, :dir(rtl))', ':dir(rtl):nth-last-child(1)', ':defined:only-of-type', ':root:nth-child(1)', ':enabled:first-child', 'input:disabled:nth-child(1)']


def no_raise_table(ctx, rule, deep=False):
    """Every pseudo-class and selector kind through select / filter / closest / match on a tree full of unusual but legal bs4
    content - list-valued attributes everywhere, missing attributes, empty values, invalid dates, comments / CDATA / PIs, several
    top-level nodes, an element detached from any tree - in several document flavours: no call raises."""
    from ..e2e import batch_api
    simple = sorted(ctx.consts.const('css_parser', 'PSEUDO_SIMPLE'))
    sels = simple + [':dir(ltr)', ':dir(rtl)', ':lang(en)', ':lang("")', ':lang("*-ch")', ':nth-child(2)', ':nth-last-of-type(2n+1)', ':nth-child(-n+3 of p, input)',
                     ':has(> *)', ':has(+ p)', ':not(:has(~ *))', ':-soup-contains(x)', ':-soup-contains-own("")', '[type=x]', '[class~=plain]', '[id=i]', '#i', '.plain',
                     '[href]', '[lang|=de]', '[value^="5"]', '[content*=fr i]', '[data-n]', '[data-n="5"]', '[data-none]', '[data-b=x]', '[data-l~=a]', '[headers~=h1]', '[rel=x]', '.a', '#\\37 ', 'p > b', 'html|p', '*|*', '|p', ':is(:checked, :default, :indeterminate)',
                     ':not(:enabled):not(:disabled)', ':in-range, :out-of-range', ':root > :first-child:last-child', 'p:empty, :empty']
    kinds = ('html', 'html5', 'xhtml', 'xml') if deep else ('html', 'xhtml')
    docs, reqs, meta = {}, [], []
    ns = (('namespaces', {'html': 'http://www.w3.org/1999/xhtml'}),)
    for kind in kinds:
        doc, order, L = make_doc(HOSTILE_TREE, kind)
        idx = {id(n_): i for i, n_ in enumerate(order)}
        docs[kind] = (doc, order)
        # a detached element with children, in the same flavour
        ddoc, dorder, dL = make_doc([('p', {'_label': 'lone', 'class': ['a'], 'lang': 'x'}, [('b', {}, []), 't'])], kind)
        dL['lone'].set('parent', None)
        dL['lone'].set('previous_element', None)
        dL['lone'].set('previous_sibling', None)
        dL['lone'].set('next_sibling', None)
        docs[kind + '-detached'] = (ddoc, dorder)
        didx = {id(n_): i for i, n_ in enumerate(dorder)}
        # more detached fragments: a legend with a control (the built-in definitions of :disabled / :enabled look at legends by
        # position), a disabled fieldset, a lone radio button, a list item
        frags = []
        for fi, fspec in enumerate([('legend', {'_label': 'lone'}, [('input', {'type': 'text', '_label': 'ctl'}, [])]),
                                    ('fieldset', {'disabled': '', '_label': 'lone'}, [('legend', {}, [('input', {'type': 'radio', 'name': 'r', '_label': 'ctl'}, [])]), ('input', {}, [])]),
                                    ('input', {'type': 'radio', 'name': 'r', '_label': 'lone'}, []), ('li', {'_label': 'lone', 'dir': 'auto'}, ['\u05d0', ('b', {'_label': 'ctl'}, [])])]):
            fdoc, forder, fL = make_doc([fspec], kind)
            for k_ in ('parent', 'previous_element', 'previous_sibling', 'next_sibling'):
                fL['lone'].set(k_, None)
            fkey = f'{kind}-detached{fi}'
            docs[fkey] = (fdoc, forder)
            fidx = {id(n_): i for i, n_ in enumerate(forder)}
            frags.append((fkey, fidx[id(fL['lone'])], fidx[id(fL.get('ctl', fL['lone']))]))
        for s in sels + DETACHED_EXTRA:
            plan = [('select', kind, None), ('closest', kind, idx[id(L['deep'])]), ('filter', kind, idx[id(L['root'])]), ('match', kind, idx[id(L['extra'])]),
                    ('match', kind + '-detached', didx[id(dL['lone'])]), ('select', kind + '-detached', didx[id(dL['lone'])]),
                    ('closest', kind + '-detached', didx[id(dL['lone'])])] if s in sels else [('match', kind + '-detached', didx[id(dL['lone'])])]
            for fkey, lone_i, ctl_i in frags:
                plan += [('match', fkey, lone_i), ('select', fkey, lone_i), ('closest', fkey, ctl_i)]
            for fn, key, tgt in plan:
                reqs.append((key, fn, s, tgt, ns))
                meta.append((kind, fn, s, 'detached' in key))
    bad = None
    raised = {}
    for (kind, fn, s, det), got in zip(meta, batch_api(ctx, docs, reqs)):
        if got[0] != 'ok':
            raised.setdefault((s, got[1]), []).append(f'{fn} ({kind}{", detached element" if det else ""})')
            if bad is None:
                bad = (kind, fn, s, det, got[1])
    rule.instance({'selectors': len(sels), 'flavours': list(kinds), 'api_calls': len(reqs), 'raising': {f'{k[0]} -> {k[1]}': v[:3] for k, v in list(raised.items())[:5]}},
                  key='no-raise')
    rule.obligation(bad is None)
    if bad is not None:
        kind, fn, s, det, exc = bad
        rule.violation(f'{fn}() raises on `{s}`', 'soupsieve/css_match.py',
                       f'{fn}({s!r}, ...) on the {kind} flavour of the tree of unusual content{" (target: an element without a parent)" if det else ""} '
                       f'raises {exc}: matching a valid selector against any bs4 tree must answer, never raise')


SVG_NS = 'http://www.w3.org/2000/svg'
XHTML = 'http://www.w3.org/1999/xhtml'
FOREIGN_TREE = [('html', {'_label': 'root'}, [('body', {}, [
    ('div', {'_label': 'div', 'class': ['k']}, [('p', {'_label': 'p1'}, ['t']), ('input', {'type': 'checkbox', 'checked': '', '_label': 'box1'}, [])]),
    ('svg', {'_ns': SVG_NS, '_label': 'svg'}, [
        ('circle', {'_ns': SVG_NS, '_label': 'circle', 'class': ['k']}, []),
        ('a', {'_ns': SVG_NS, 'href': 'x', '_label': 'sa'}, []),
        ('foreignObject', {'_ns': SVG_NS, '_label': 'fo'}, [
            ('p', {'_label': 'p2', 'class': ['k']}, [('a', {'href': 'y', '_label': 'ha'}, [])]),
            ('input', {'type': 'checkbox', 'checked': '', '_label': 'box2'}, []), ('input', {'type': 'text', 'required': '', '_label': 'txt'}, [])])]),
    ('math', {'_ns': 'http://www.w3.org/1998/Math/MathML', '_label': 'math'}, [('mi', {'_ns': 'http://www.w3.org/1998/Math/MathML', '_label': 'mi'}, ['x'])])])])]


def scope_independence_table(ctx, rule):
    """What an element is does not depend on where the call starts: select(S, E) is select(S, document) restricted to the
    descendants of E, and match(S, x) agrees, for call targets inside and outside foreign-namespace subtrees (SVG, MathML) of
    namespace-aware HTML / XHTML trees and selectors that use namespaces or HTML-only pseudo-classes (none uses :scope)."""
    from ..e2e import batch_api
    sels = ['svg|circle', 'circle', 'h|p', 'p', '*|p', ':checked', 'input:required', '*|*', 'svg|* > *', ':link', '[type=checkbox]', '.k', 'svg|*.k', 'h|*:not(h|p)',
            ':is(svg|a, h|a)', 'a', ':root', 'm|mi', '|p', 'svg|foreignObject > p', ':has(> h|p)']
    ns = (('namespaces', {'svg': SVG_NS, 'h': XHTML, 'm': 'http://www.w3.org/1998/Math/MathML'}),)
    docs, meta, reqs, keys = {}, {}, [], []
    for kind in ('html5', 'xhtml'):
        doc, order, L = make_doc(FOREIGN_TREE, kind)
        docs[kind] = (doc, order)
        idx = {id(n_): i for i, n_ in enumerate(order)}
        scopes = {nm: idx[id(L[nm])] for nm in ('div', 'svg', 'fo', 'p2', 'math', 'root')}
        below = {}
        for nm, i in scopes.items():
            acc = []

            def walk(x):
                for c in x.get('contents'):
                    if not isinstance(c, TextNode):
                        acc.append(idx[id(c)])
                        walk(c)
            walk(order[i])
            below[nm] = acc
        meta[kind] = (order, scopes, below, [idx[id(e)] for e in elements(order)])
        for s in sels:
            reqs.append((kind, 'select', s, None, ns))
            keys.append((kind, s, 'doc'))
            for nm, i in scopes.items():
                reqs.append((kind, 'select', s, i, ns))
                keys.append((kind, s, nm))
            for nm in ('circle', 'p2', 'box2', 'mi', 'ha'):
                reqs.append((kind, 'match', s, idx[id(L[nm])], ns))
                keys.append((kind, s, 'match:' + nm))
        meta[kind] += ({nm: idx[id(L[nm])] for nm in ('circle', 'p2', 'box2', 'mi', 'ha')},)
    res = dict(zip(keys, batch_api(ctx, docs, reqs)))
    bad = None
    for kind in docs:
        order, scopes, below, els, singles = meta[kind]
        show = lambda ixs: [label(order[i]) for i in ixs]      # noqa: E731
        for s in sels:
            full = res[(kind, s, 'doc')]
            if full[0] != 'ok':
                if bad is None:
                    bad = (kind, s, f'select from the document raises {full[1]}')
                continue
            for nm in scopes:
                got = res[(kind, s, nm)]
                want = [i for i in below[nm] if i in full[1]]
                if got != ('ok', want) and bad is None:
                    bad = (kind, s, f'select() from <{nm}> gives {show(got[1]) if got[0] == "ok" else "raises " + str(got[1])}, but the descendants of <{nm}> among '
                                    f'the elements selected from the document are {show(want)}')
            for nm, i in singles.items():
                got = res[(kind, s, 'match:' + nm)]
                if got != ('ok', i in full[1]) and bad is None:
                    bad = (kind, s, f'match() on <{nm}> gives {got[1]}, but select() from the document {"selects" if i in full[1] else "does not select"} it')
            rule.instance({'document': kind, 'selector': s, 'selected_from_document': show(full[1])}, key=f'scope|{kind}|{s}', sample_cap=6)
    rule.instance({'api_calls': len(reqs)}, key='scope-calls')
    rule.obligation(bad is None)
    if bad is not None:
        kind, s, problem = bad
        rule.violation(f'scope independence `{s}` ({kind})', 'soupsieve/css_match.py (CSSMatch.__init__ / supports_namespaces)',
                       f'{s!r} on the {kind} tree with SVG and MathML subtrees: {problem}. Document type and namespace support are facts of the '
                       f'document, not of the element a call starts from')


SCOPE_TEMPLATES = ['{S}', '{S} > p', '{S} p', '*:not({S})', ':has(> {S})', '{S}:defined', ':defined{S}', ':root{S}', '{S}:root', 'body > {S}', ':is({S}, li)',
                   '{S} ~ *', ':not({S}) > b', 'div{S}', '{S}.x', '{S}:not(.z)', ':not({S} *)', '{S}:has(a)', '{S} + *', ':is(div, p){S}:defined',
                   '{S}:first-child', '{S}:nth-child(n of {S})', ':not(:not({S}))']


def scope_denotation_table(ctx, rule, deep=False):
    """:scope and & denote exactly the element the call was made on (the root element for the document): every template
    gives the same answer with `:scope`, with `&` and with `#id` of the call target in its place - through select, select_one,
    match, closest and filter, for several call targets."""
    from ..e2e import batch_api
    # the reference tree with an id on the root element and a nested document (whose root element is a :root, but not the scope)
    name, attrs, (head, (bname, battrs, bkids)) = TREE[0]
    frame = ('iframe', {'id': 'fr'}, [('html', {'id': 'inner'}, [('body', {}, [('p', {'class': ['x'], 'id': 'ipx'}, ['in']), ('div', {}, [('p', {}, [])])])])])
    spec = [(name, dict(attrs, id='rt'), [head, (bname, battrs, list(bkids) + [frame])])]
    doc, order, L = make_doc(spec, 'html')
    idx = {id(n_): i for i, n_ in enumerate(order)}
    byid = {e.get('attrs').get('id'): idx[id(e)] for e in elements(order) if e.get('attrs').get('id')}
    targets = ['d1', 'p3', 'u', 'p1', 'inner', 'fr'] if deep else ['d1', 'p3', 'u', 'inner']
    fns = ('select', 'match', 'closest', 'filter', 'select_one')
    reqs, keys = [], []
    for t in targets:
        for tpl in SCOPE_TEMPLATES:
            for sp, text in (('scope', ':scope'), ('amp', '&'), ('id', f'#{t}')):
                for fn in fns:
                    reqs.append(('t', fn, tpl.format(S=text), byid[t], ()))
                    keys.append((t, tpl, sp, fn))
    for tpl in SCOPE_TEMPLATES:
        for sp, text in (('scope', ':scope'), ('amp', '&'), ('id', '#rt')):
            for fn in ('select', 'select_one'):
                reqs.append(('t', fn, tpl.format(S=text), None, ()))
                keys.append((None, tpl, sp, fn))
    # ... also when :scope stands inside the definition of a custom selector, and with a limit
    cdefs = {':--self': '{S}', ':--kids': '{S} > *', ':--hasx': ':has(> .x)', ':--other': ':not({S})', ':--below': '{S} :--hasx, {S} li'}
    for t in targets:
        for tpl in (':--self', ':--kids', 'p:--other', ':--hasx:--self', ':--below', ':--kids:--hasx', ':is(:--self, :--kids)'):
            for sp, text in (('scope', ':scope'), ('amp', '&'), ('id', f'#{t}')):
                cm = tuple(sorted((k, v.format(S=text)) for k, v in cdefs.items()))
                for fn, kw in (('select', ()), ('match', ()), ('closest', ()), ('select', (('limit', 1),))):
                    reqs.append(('t', fn, tpl, byid[t], (('custom', dict(cm)),) + kw))
                    keys.append((t, f'{tpl} with custom selectors built on it' + (' (limit=1)' if kw else ''), sp, fn))
    res = dict(zip(keys, batch_api(ctx, {'t': (doc, order)}, reqs)))

    def show(r):
        if r[0] != 'ok':
            return f'raises {r[1]}' if r[0] == 'raises' else str(r)
        v = r[1]
        if isinstance(v, list):
            return [label(order[i]) if isinstance(i, int) and i >= 0 else i for i in v]
        return label(order[v]) if isinstance(v, int) and not isinstance(v, bool) and v >= 0 else v
    bad = None
    for (t, tpl, sp, fn), got in res.items():
        if sp == 'id':
            continue
        ref = res[(t, tpl, 'id', fn)]
        rule.instance({'target': t or 'document', 'template': tpl, 'spelling': sp, 'function': fn, 'result': show(got)}, key=f'scope-den|{t}|{tpl}|{sp}|{fn}',
                      sample_cap=6)
        if got != ref and bad is None:
            bad = (t, tpl, sp, fn, show(got), show(ref))
    rule.obligation(bad is None)
    if bad is not None:
        t, tpl, sp, fn, got, ref = bad
        text = tpl.replace('{S}', ':scope' if sp == 'scope' else '&')
        same = tpl.replace('{S}', f'#{t}' if t else '#rt')
        rule.violation(f'scope denotation `{text}` {fn}({t or "document"})', 'soupsieve/css_match.py (match_scope / CSSMatch.__init__ / entry points)',
                       f'{fn}({text!r}) called on {"<#" + t + ">" if t else "the document"} gives {got}; with the call target named outright, {same!r}, the '
                       f'answer is {ref}: {":scope" if sp == "scope" else "&"} does not denote exactly the element the call was made on')


def default_namespace_state_table(ctx, rule):
    """HTML state pseudo-classes and lists that mix them with ordinary selectors, on a namespace-aware HTML tree, when the
    caller's namespace map has a default entry that is NOT the XHTML namespace: the built-in definitions (`input`, `a`, ...) keep
    meaning HTML elements, the partition laws hold, and a list is still the union of its alternatives."""
    from ..e2e import batch_api
    spec = [('html', {'_label': 'root'}, [('body', {}, [
        ('form', {'_label': 'form'}, [('input', {'type': 'text', 'required': '', '_label': 'req'}, []), ('input', {'type': 'checkbox', 'checked': '', '_label': 'box'}, []),
                                     ('textarea', {'_label': 'ta'}, []), ('select', {'disabled': '', '_label': 'sel'}, [('option', {'selected': '', '_label': 'opt'}, [])]),
                                     ('button', {'type': 'submit', '_label': 'btn'}, [])]),
        ('a', {'href': 'x', '_label': 'link'}, []), ('area', {'href': 'y', '_label': 'area'}, []), ('p', {'dir': 'rtl', '_label': 'p'}, []),
        ('svg', {'_ns': SVG_NS, '_label': 'svg'}, [('a', {'_ns': SVG_NS, 'href': 'z', '_label': 'sa'}, [])])])])]
    doc, order, L = make_doc(spec, 'html5')
    idx = {id(n_): i for i, n_ in enumerate(order)}
    lab = lambda ixs: [label(order[i]).strip('<>') for i in ixs]       # noqa: E731
    ns = (('namespaces', {'': SVG_NS, 'h': XHTML}),)
    rows = [('*|*:enabled', ['req', 'box', 'ta', 'opt', 'btn']), ('*|*:disabled', ['sel']), ('h|*:required', ['req']), ('*|*:optional', ['box', 'ta', 'sel']),
            ('*|*:checked', ['box', 'opt']), ('*|*:default', ['box', 'opt', 'btn']), ('*|*:link', ['link', 'area']), ('*|*:any-link', ['link', 'area']),
            ('h|*:read-write', ['req', 'ta']), ('*|*:is(h|input, h|textarea, h|select)', ['req', 'box', 'ta', 'sel']), ('*|*:dir(rtl)', ['p']),
            ('a', ['sa']), ('*|a', ['link', 'sa']), ('h|a:link', ['link'])]
    pairs = [('*|*:optional', '*|*:is(h|input, h|textarea, h|select)'), ('*|*:is(h|a, h|area)', '*|*:link'), ('*|*:required', '*|*:is(h|input)'),
             ('*|*:checked', '*|*:is(h|input[type=checkbox], h|option)'), ('*|*:enabled', 'h|select'), ('a', '*|*:any-link'),
             # lists written by the user that are spelled exactly like the lists inside the built-in definitions (where the unprefixed
             # names mean HTML elements) - here the unprefixed names mean SVG elements
             ('*|*:is(a, area)', '*|*:link'), ('*|*:link', '*|*:is(a, area)'), ('*|*:optional', '*|*:is(input, textarea, select)'),
             ('*|*:is(input, textarea, select)', '*|*:required'), ('*|*:is(button, input)', '*|*:default'), ('*|*:default', '*|*:is(button, input)'),
             ('*|*:not(:is(a, area))', '*|*:any-link')]
    texts = [r[0] for r in rows]
    for a, b in pairs:
        texts += [a, b, f'{a}, {b}', f'{b}, {a}', f'*|*:is({a}, {b})', f'*|*:not({a}, {b})']
    texts = list(dict.fromkeys(texts))
    res = dict(zip(texts, batch_api(ctx, {'d': (doc, order)}, [('d', 'select', t, None, ns) for t in texts])))
    els = [idx[id(e)] for e in elements(order)]
    bad = None
    for s, want in rows:
        got = res[s]
        g = lab(got[1]) if got[0] == 'ok' else f'raises {got[1]}'
        rule.instance({'selector': s, 'selected': g, 'expected': want}, key=f'defaultns|{s}')
        if g != want and bad is None:
            bad = (s, g, f'by the definitions of the HTML Standard: {want}')
    for a, b in pairs:
        ra, rb = res[a], res[b]
        if ra[0] != 'ok' or rb[0] != 'ok':
            continue
        union = sorted(set(ra[1]) | set(rb[1]))
        for text, want in ((f'{a}, {b}', union), (f'{b}, {a}', union), (f'*|*:is({a}, {b})', union), (f'*|*:not({a}, {b})', [e for e in els if e not in union])):
            got = res[text]
            if got != ('ok', want) and bad is None:
                bad = (text, lab(got[1]) if got[0] == 'ok' else f'raises {got[1]}', f'the union / complement of its alternatives: {lab(want)}')
    rule.instance({'api_calls': len(texts)}, key='defaultns-calls')
    rule.obligation(bad is None)
    if bad is not None:
        s, g, law = bad
        rule.violation(f'default namespace and HTML state `{s}`', 'soupsieve/css_match.py (match_selectors / match_subselectors)',
                       f'{s!r} on a namespace-aware HTML tree with namespaces={{"": SVG, "h": XHTML}} selects {g}; {law}')


def range_pipeline_table(ctx, rule):
    """:in-range / :out-of-range through the whole pipeline: the same attribute text on inputs of different types, reversed time
    ranges, years of different width, missing bounds - in both document orders."""
    inputs = [
        ('d1', {'type': 'date', 'min': '2024-05', 'value': '2024-06-01'}, None),            # min is not a date: no bound -> neither
        ('m1', {'type': 'month', 'min': '2024-05', 'value': '2024-04'}, 'out'),
        ('m2', {'type': 'month', 'min': '2024-05', 'value': '2024-06'}, 'in'),
        ('n1', {'type': 'number', 'min': '10', 'value': '9'}, 'out'), ('t1', {'type': 'time', 'min': '10', 'value': '09:00'}, None),
        ('t2', {'type': 'time', 'min': '22:00', 'max': '02:00', 'value': '23:30'}, 'in'), ('t3', {'type': 'time', 'min': '22:00', 'max': '02:00', 'value': '12:00'}, 'out'),
        ('y1', {'type': 'date', 'max': '9999-12-31', 'value': '10000-01-01'}, 'out'), ('y2', {'type': 'date', 'min': '9999-12-31', 'value': '10000-01-01'}, 'in'),
        ('y3', {'type': 'month', 'min': '02020-01', 'value': '2019-12'}, 'out'), ('w1', {'type': 'week', 'min': '2020-W10', 'value': '2020-W09'}, 'out'),
        ('r1', {'type': 'range', 'max': '5', 'value': '5.0'}, 'in'), ('r2', {'type': 'range', 'max': '5', 'value': '5.5e0'}, 'out'),
        ('x1', {'type': 'text', 'min': '1', 'value': '0'}, None), ('x2', {'type': 'number', 'value': '3'}, None),
        ('l1', {'type': 'datetime-local', 'min': '2020-01-01T10:00', 'value': '2020-01-01T09:59'}, 'out'), ('v0', {'type': 'number', 'min': '1', 'value': 'abc'}, 'in'),
        ('f1', {'type': 'date', 'min': '2023-02-29', 'value': '2023-03-01'}, None), ('f2', {'type': 'date', 'min': '2024-02-29', 'value': '2024-02-28'}, 'out'),
    ]
    bad = None
    n = 0
    for order_name, seq in (('document order', inputs), ('reverse order', inputs[::-1])):
        spec = [('html', {}, [('body', {}, [('input', dict(a, _label=nm), []) for nm, a, _ in seq])])]
        doc, order, L = make_doc(spec, 'html')
        for sel, key in ((':in-range', 'in'), (':out-of-range', 'out')):
            st, got = api(ctx, 'select', sel, doc)
            n += 1
            g = [label(x).strip('<>') for x in got] if st == 'ok' else f'raises {got}'
            want = [nm for nm, _, v in seq if v == key]
            rule.instance({'order': order_name, 'selector': sel, 'selected': g, 'expected': want}, key=f'range|{order_name}|{sel}')
            if g != want and bad is None:
                bad = (order_name, sel, g, want)
    rule.obligation(bad is None)
    if bad is not None:
        order_name, sel, g, want = bad
        rule.violation(f'range inputs `{sel}` ({order_name})', 'soupsieve/css_match.py (match_range / Inputs.parse_value)',
                       f'{sel!r} over inputs of every range type with shared attribute texts ({order_name}) selects {g}; by the HTML Standard '
                       f'(a bound or value that is not valid FOR THAT TYPE is ignored; time ranges may wrap; values compare numerically) it '
                       f'designates {want}')
