"""C09 - compiled meaning depends on the token sequence, not on its spelling (decided clauses only).

R1  the alternatives of the combinator token are mutually exclusive by input
R2  regexes applied with unanchored search to raw selector text cannot straddle a token (language inside WS*)
R3  escapes are decoded exactly once on every def-use path from a match group to the IR
R4  text compared with letter-bearing constants is ASCII-lower-cased after the last decode
R5  sibling grammars agree (lang/contains tokens; value lists tile with RE_VALUES)
R6  lexical sub-grammars equal their CSS Syntax definitions (newline, whitespace, comment, escape, identifier, string)
"""
from __future__ import annotations

import ast
import re
import re._constants as sc

from .. import rx
from ..core import AnalysisError, Report
from ..srcmodel import call_name, unparse
from ..strflow import StrFlow, caller_bindings

NEWLINE_REF = r'(?:\r\n|[\n\r\f])'
WS_REF = rf'(?:[ \t]|{NEWLINE_REF})'
COMMENT_REF = r'(?:/\*(?:[^*]|\*+[^*/])*\*+/)'
HEX = '[0-9a-fA-F]'
ESCAPE_REF = rf'(?:\\(?:{HEX}{{1,6}}{WS_REF}?|[^\r\n\f0-9a-fA-F]|$))'
NMSTART = r'[a-zA-Z_\x80-\U0010ffff]'
NMCHAR = r'[a-zA-Z0-9_\-\x80-\U0010ffff]'
IDENT_REF = rf'(?:(?:--|-?(?:{NMSTART}|{ESCAPE_REF}))(?:{NMCHAR}|{ESCAPE_REF})*)'


def string_ref(q):
    return rf'(?:{q}(?:\\(?:[^\r\n\f]|{NEWLINE_REF})|[^\\{q}\r\n\f])*{q})'


VALUE_REF = rf'''(?:{string_ref('"')}|{string_ref("'")}|{IDENT_REF})'''


def sp_groups(pattern: str, flags: int) -> int:
    import re._parser as _sp
    return _sp.parse(pattern, flags).state.groups - 1


def has_letters(v) -> bool:
    if isinstance(v, str):
        return any(c.isascii() and c.isalpha() for c in v)
    if isinstance(v, (tuple, frozenset, set, list)):
        return any(has_letters(x) for x in v)
    return False


def decode_pipeline_rule(ctx, r3, r4):
    """String provenance from match groups to the IR / to comparisons, over every handler of the parser."""
    src, inv = ctx.src, ctx.consts
    pmod = src.mod('css_parser')
    ir_classes = {'css_types.SelectorTag': (0, 1), 'css_types.SelectorAttribute': (0, 1),
                  'css_types.SelectorContains': (0,), 'css_types.SelectorLang': (0,)}
    targets = [(q, fn) for q, fn in pmod.functions.items()
               if (q.startswith('CSSParser.') or q.startswith('SpecialPseudoPattern.') or q in ('process_custom',))]
    for q, fn in targets:
        cls = q.split('.')[0] if '.' in q else None
        flow = StrFlow(src, pmod, fn, cls, caller_bindings(src, pmod, fn, cls))
        fq = f'css_parser.{q}'

        def sink(expr, what, where_node, need_lower=False):
            ps = flow.prov(expr)
            if not ps:
                return
            for p in sorted(ps, key=lambda p: (p.source, p.decodes)):
                desc = {'function': fq, 'sink': what, 'expr': unparse(expr)[:60], 'source': p.source,
                        'decodes': p.decodes, 'lowered': p.lowered}
                r3.instance(desc, key=f'{fq}|{what}|{unparse(expr)}|{p.source}|{p.decodes}')
                r3.obligation(p.decodes == 1)
                if p.decodes != 1:
                    r3.violation(f'{fq} {what} {unparse(expr)[:50]} decodes={p.decodes}', pmod.where(where_node),
                                 f'{fq}: {what} receives text from {p.source} with css_unescape applied {p.decodes} '
                                 f'time(s) (pipeline {list(p.steps)}); escapes must be decoded exactly once, after '
                                 f'tokenisation')
                # transformations between the match group and the IR: quotes are dropped by position ([1:-1]), a namespace bar
                # by [:-1], '.'/'#' by [1:], all BEFORE the decode; nothing that depends on the content (strip, replace)
                steps = list(p.steps)
                after_decode = steps[steps.index('css_unescape') + 1:] if 'css_unescape' in steps else []
                odd = [st_ for st_ in steps if st_.startswith(('.strip(', '.lstrip(', '.rstrip(', '.replace('))]
                late = [st_ for st_ in after_decode if st_.startswith('[')]
                unknown = [st_ for st_ in steps if st_.startswith('[') and st_ not in ('[1:-1]', '[:-1]', '[1:]')]
                r3.obligation(not (odd or late or unknown))
                if odd:
                    r3.violation(f'{fq} {what} {unparse(expr)[:40]} step {odd[0]}', pmod.where(where_node),
                                 f'{fq}: {what} receives text from {p.source} through {steps}: `{odd[0]}` removes characters by '
                                 f'content, not by position - a value that ends (or starts) with an escaped delimiter or with the '
                                 f'stripped characters loses them (the delimiters are exactly the first and last character: [1:-1])')
                if late:
                    r3.violation(f'{fq} {what} {unparse(expr)[:40]} slice after decode', pmod.where(where_node),
                                 f'{fq}: {what} receives text from {p.source} through {steps}: the slice {late[0]} is applied after '
                                 f'css_unescape, i.e. to decoded text - an escaped quote/bar at the edge of the value is cut off as if '
                                 f'it were a delimiter')
                if unknown and not late:
                    raise AnalysisError(f'{fq}: {what}: slice {unknown[0]} in the pipeline {steps} is outside the vocabulary of this rule')
                if need_lower:
                    r4.instance({**desc, 'kind': 'key'}, key=f'{fq}|key|{unparse(expr)}|{p.source}|{p.lowered}')
                    r4.obligation(p.lowered)
                    if not p.lowered:
                        r4.violation(f'{fq} key {unparse(expr)[:50]}', pmod.where(where_node),
                                     f'{fq}: {what} uses text from {p.source} that is not lower-cased after its last '
                                     f'decode (pipeline {list(p.steps)}): an escaped capital or an upper-case '
                                     f'spelling yields a different key')
        nested = set()
        for n in ast.walk(fn):
            if n is not fn and isinstance(n, (ast.FunctionDef, ast.Lambda)):
                nested.update(id(y) for y in ast.walk(n))
        for n in ast.walk(fn):
            if id(n) in nested:
                continue
            if isinstance(n, ast.Call):
                cref = src.resolve_class_ref(pmod, n.func)
                if cref in ir_classes:
                    for i in ir_classes[cref]:
                        if i < len(n.args):
                            sink(n.args[i], f'{cref.split(".")[1]} argument {i}', n)
                cn = call_name(n)
                if cn.endswith('.ids.append') or cn.endswith('.classes.append'):
                    sink(n.args[0], cn.split('.')[-2] + ' list', n)
                if cn == 're.escape' and n.args:
                    sink(n.args[0], 'attribute value pattern', n)
                if isinstance(n.func, ast.Attribute) and n.func.attr == 'get' and n.args \
                        and unparse(n.func.value) in ('self.custom', 'self.patterns'):
                    sink(n.args[0], f'lookup in {unparse(n.func.value)}', n, need_lower=True)
            if isinstance(n, ast.Assign):
                for t in n.targets:
                    if isinstance(t, ast.Subscript) and isinstance(t.value, ast.Name) and t.value.id in (
                            'custom_selectors',):
                        sink(t.slice, f'key of {t.value.id}', n, need_lower=True)
                    if isinstance(t, ast.Subscript) and unparse(t.value) == 'self.custom':
                        sink(t.slice, 'key of self.custom', n, need_lower=True)
            # comparisons with letter-bearing constants
            dyn_const = []
            if isinstance(n, ast.Compare) and len(n.ops) == 1 and isinstance(
                    n.ops[0], (ast.Eq, ast.NotEq, ast.In, ast.NotIn)):
                a, b = n.left, n.comparators[0]
                for dyn, const in ((a, b), (b, a)):
                    cv = inv.folder.try_ev('css_parser', const, default=None)
                    if cv is not None and has_letters(cv):
                        dyn_const.append((dyn, cv, n))
            if isinstance(n, ast.Call) and isinstance(n.func, ast.Attribute) and n.func.attr in (
                    'startswith', 'endswith') and n.args:
                cv = inv.folder.try_ev('css_parser', n.args[0], default=None)
                if cv is not None and has_letters(cv):
                    dyn_const.append((n.func.value, cv, n))
            for dyn, cv, node in dyn_const:
                for p in sorted(flow.prov(dyn), key=lambda p: p.source):
                    shown = cv if isinstance(cv, str) else f'{len(cv)} names'
                    r4.instance({'function': fq, 'comparison': unparse(node)[:70], 'source': p.source,
                                 'lowered': p.lowered, 'constant': shown},
                                key=f'{fq}|{unparse(node)}|{p.source}|{p.lowered}')
                    r4.obligation(p.lowered)
                    if not p.lowered:
                        r4.violation(f'{fq} compare {unparse(node)[:60]}', pmod.where(node),
                                     f'{fq}: `{unparse(node)[:70]}` compares text from {p.source} with a lettered '
                                     f'constant without lower-casing it after the last decode (pipeline '
                                     f'{list(p.steps)}): upper-case or escaped spellings behave differently')


def run(ctx, report: Report) -> None:
    src, inv = ctx.src, ctx.consts
    report.explanation = (
        'Lexical-layer rules: language queries on the folded token regexes (exclusivity of alternatives with exact '
        'look-aheads, inclusion, equivalence with reference grammars transcribed from CSS Syntax 3) and a string '
        'provenance analysis over the parser handlers (how many times css_unescape was applied between a match '
        'group and the IR; whether util.lower was applied after the last decode before a comparison with a '
        'letter-bearing constant).')
    report.not_decided = ('the respelling relation as a whole (equality of compiled structures for all respellings '
                          'at every position); which positions of the grammar admit whitespace/comments beyond the '
                          'sub-grammar equalities checked here.')
    report.trusted_base = ['re._parser.parse', 'reference grammars transcribed from CSS Syntax Level 3 section 4']
    F = inv.by_name('token:combine').flags

    # ---- R1 --------------------------------------------------------------------------------------------
    r1 = report.rule('C09-R1', 'alternatives of the combinator token are mutually exclusive', floor=1)
    comb = inv.by_name('token:combine')
    tree, fl, gd = rx.parse(comb.pattern, comb.flags)
    if 'relation' not in gd:
        raise AnalysisError('token combine: group "relation" not found (anchor vanished)')
    alts = rx.branch_alternatives(tree, gd['relation'])
    if alts is None or len(alts) < 2:
        raise AnalysisError('token combine: group "relation" is not an alternation (unrecognised shape)')
    s = rx.System()
    auts = [s.add_seq(f'alt{i}', a, fl) for i, a in enumerate(alts)]
    s.freeze()
    for i in range(len(auts)):
        for j in range(i + 1, len(auts)):
            try:
                w = rx.prefix_intersect(auts[i], auts[j])
            except rx.Unsupported as e:
                raise AnalysisError(f'token combine: {e}')
            r1.instance({'alternatives': [i, j], 'overlap_witness': w}, key=f'{i}-{j}')
            r1.obligation(w is None)
            if w is not None:
                r1.violation(f'token:combine alternatives {i}/{j} overlap', comb.where,
                             f'both alternatives of the combinator token match at the start of {w!r}: sre takes the '
                             f'first, so whitespace before an explicit combinator is read as a descendant combinator '
                             f'(syntax error, or a silently dropped alternative in a forgiving list)')

    # ---- R2 --------------------------------------------------------------------------------------------
    r2 = report.rule('C09-R2', 'unanchored searches on selector text stay inside whitespace', floor=5)
    ws = inv.const('css_parser', 'WS')
    pmod = src.mod('css_parser')
    for call in [c for c in ast.walk(pmod.tree) if isinstance(c, ast.Call)]:
        f = call.func
        if not (isinstance(f, ast.Attribute) and f.attr == 'search' and isinstance(f.value, ast.Name)):
            continue
        r = inv.find(f'css_parser.{f.value.id}')
        if r is None:
            continue
        t, rfl, _ = rx.parse(r.pattern, r.flags)
        items = list(t)
        anchored = bool(items) and items[0][0] is sc.AT and items[0][1] in (sc.AT_BEGINNING, sc.AT_BEGINNING_STRING)
        w = None
        if not anchored:
            s = rx.System()
            A = s.add('r', r.pattern, r.flags)
            B = s.add('ws', rf'(?:{ws})*', 0)
            s.freeze()
            w = rx.included(A, B)
        r2.instance({'site': f'{pmod.where(call)} {unparse(call)[:60]}', 'anchored_at_start': anchored,
                     'outside_whitespace_witness': w}, key=unparse(call))
        r2.obligation(anchored or w is None)
        if not anchored and w is not None:
            r2.violation(f'css_parser.{pmod.enclosing_function(call)} {unparse(f)}', pmod.where(call),
                         f'{unparse(f)} scans raw text for a pattern that also matches {w!r}: the match can begin '
                         f'inside a token (e.g. at the "/" closing a comment when "*" follows)')

    # ---- R3 / R4 ---------------------------------------------------------------------------------------
    r3 = report.rule('C09-R3', 'escapes are decoded exactly once between a match group and the IR', floor=4)
    r4 = report.rule('C09-R4', 'case folding follows the last decode before comparison with lettered constants', floor=8)
    decode_pipeline_rule(ctx, r3, r4)

    # ---- R5 --------------------------------------------------------------------------------------------
    r5 = report.rule('C09-R5', 'sibling grammars agree', floor=1)
    # the An+B token grammar and the regex that splits an accepted token into its parts (comments and whitespace included)
    nth_src, re_nth = inv.const('css_parser', 'NTH'), inv.by_name('css_parser.RE_NTH')
    if re_nth is None or not isinstance(nth_src, str):
        raise AnalysisError('NTH / RE_NTH not found (anchor vanished)')
    s = rx.System()
    try:
        A = s.add('NTH', nth_src, inv.by_name('token:pseudo_nth_child').flags)
        B = s.add('RE_NTH', re_nth.pattern, re_nth.flags)
        s.freeze()
        d = rx.equivalent(A, B)
    except rx.Unsupported as e:
        raise AnalysisError(f'NTH/RE_NTH outside the exact regex model: {e}')
    r5.instance({'pair': 'NTH (token) ~ RE_NTH (splitter), as full-match languages', 'difference': d}, key='nth-splitter')
    r5.obligation(d is None)
    if d is not None:
        r5.violation(f'NTH~RE_NTH {d[0]} {d[1]!r}', re_nth.where,
                     f'the An+B token grammar and its splitter RE_NTH disagree on {d[1]!r}: where the token admits whitespace or a '
                     f'comment the splitter must too, otherwise it matches a prefix and the rest (the +B offset) is silently dropped')
    lang, cont = inv.by_name('token:pseudo_lang'), inv.by_name('token:pseudo_contains')
    s = rx.System()
    A = s.add('lang', lang.pattern, lang.flags)
    B = s.add('contains', cont.pattern, cont.flags)
    s.freeze()
    d = rx.equivalent(A, B)
    r5.instance({'pair': 'token:pseudo_lang ~ token:pseudo_contains', 'difference': d}, key='lang-contains')
    r5.obligation(d is None)
    if d is not None:
        r5.violation(f'pseudo_lang~pseudo_contains {d[0]} {d[1]!r}', lang.where,
                     f'the value-list grammars of :lang() and :-soup-contains() disagree on {d[1]!r}')
    values_rx = inv.by_name('css_parser.RE_VALUES')
    for tok in (lang, cont):
        s = rx.System()
        G = s.add('values', tok.pattern, tok.flags, group='values')
        R = s.add('tiles', f'(?:{values_rx.pattern})+', values_rx.flags)
        s.freeze()
        w = rx.included(G, R)
        r5.instance({'group': f'{tok.name}:values', 'within': '(RE_VALUES)+', 'counterexample': w}, key=tok.name)
        r5.obligation(w is None)
        if w is not None:
            r5.violation(f'{tok.name}:values not tiled by RE_VALUES {w!r}', tok.where,
                         f'the value list {w!r} accepted by {tok.name} cannot be split by RE_VALUES.finditer')

    # ---- R6 --------------------------------------------------------------------------------------------
    r6 = report.rule('C09-R6', 'lexical sub-grammars equal their CSS Syntax definitions', floor=2)
    table = [('NEWLINE', NEWLINE_REF, 0), ('WS', WS_REF, 0), ('COMMENTS', COMMENT_REF, 0),
             ('CSS_ESCAPES', ESCAPE_REF, F), ('IDENTIFIER', IDENT_REF, F), ('VALUE', VALUE_REF, F)]
    for name, ref, fl_ in table:
        val = inv.const('css_parser', name)
        s = rx.System()
        try:
            A = s.add('code', val, F if fl_ else 0)
            B = s.add('ref', ref, re.I if fl_ else 0)
            s.freeze()
            d = rx.equivalent(A, B)
        except rx.Unsupported as e:
            raise AnalysisError(f'css_parser.{name}: {e}')
        r6.instance({'constant': name, 'reference': ref[:70], 'difference': d}, key=name)
        r6.obligation(d is None)
        if d is not None:
            side = 'the code accepts, CSS does not' if d[0] == 'only-in-first' else 'CSS accepts, the code does not'
            r6.violation(f'css_parser.{name} {d[0]} {d[1]!r}', f'soupsieve/css_parser.py ({name})',
                         f'{name} differs from its CSS Syntax definition on {d[1]!r} ({side})')
    # the decoder's classes mirror the tokenizer's: RE_CSS_ESC == hex | non-hex char | EOF ; RE_CSS_STR_ESC adds newline
    for name, ref in (('css_parser.RE_CSS_ESC', ESCAPE_REF),
                      ('css_parser.RE_CSS_STR_ESC', rf'(?:{ESCAPE_REF}|\\{NEWLINE_REF})')):
        r = inv.by_name(name)
        s = rx.System()
        A = s.add('code', r.pattern, r.flags)
        B = s.add('ref', ref, re.I)
        s.freeze()
        d = rx.equivalent(A, B)
        r6.instance({'regex': name, 'reference': ref[:70], 'difference': d}, key=name)
        r6.obligation(d is None)
        if d is not None:
            r6.violation(f'{name} {d[0]} {d[1]!r}', r.where,
                         f'the escape decoder {name} and the escape grammar disagree on {d[1]!r}: text is tokenised '
                         f'one way and decoded another')
    # group by group, with the semantics of .sub() (each match is a prefix match at some position): the group a piece of text
    # is decoded by decides WHAT it becomes, so "escape at the end of input" must not fire while input remains
    roles = [(1, 'hex escape', rf'\\{HEX}{{1,6}}{WS_REF}?'), (2, 'escaped character', r'\\[^\r\n\f0-9a-fA-F]'),
             (3, 'backslash at the end of input', r'\\\Z'), (4, 'line continuation', rf'\\{NEWLINE_REF}')]
    for name in ('css_parser.RE_CSS_ESC', 'css_parser.RE_CSS_STR_ESC'):
        r = inv.by_name(name)
        ngroups = sp_groups(r.pattern, r.flags)
        for gid, what, ref in roles[:ngroups]:
            s = rx.System()
            try:
                A = s.add('code', r.pattern, r.flags, group=gid)
                B = s.add('ref', ref, re.I)
                A.prefix_lang = B.prefix_lang = True
                s.freeze()
                d = rx.equivalent(A, B)
            except rx.Unsupported as e:
                raise AnalysisError(f'{name} group {gid}: {e}')
            if d is not None and gid == 2:
                # group 2 may also admit hex digits: group 1 is tried first, so they never reach it
                s = rx.System()
                A = s.add('code', r.pattern, r.flags, group=gid)
                B = s.add('ref', r'\\[^\r\n\f]', re.I)
                A.prefix_lang = B.prefix_lang = True
                s.freeze()
                d = rx.equivalent(A, B)
            r6.instance({'regex': name, 'group': gid, 'role': what, 'difference_as_prefix_match': d}, key=f'{name}|g{gid}')
            r6.obligation(d is None)
            if d is not None:
                r6.violation(f'{name} group {gid} {d[0]} {d[1]!r}', r.where,
                             f'group {gid} of {name} (the {what} case of the decoder) {"also matches at the start of" if d[0] == "only-in-first" else "does not match"} '
                             f'{d[1]!r}: `$` also matches before a final line feed, so a string that ends in a line continuation '
                             f'("abc\\<LF>") is decoded as U+FFFD + LF instead of "abc"' if gid == 3 else
                             f'group {gid} of {name} (the {what} case of the decoder) disagrees with the CSS escape grammar on {d[1]!r}')

    from .sem import trailing_whitespace_table
    trailing_whitespace_table(ctx, r2)

    # ---- R7 (texts compiled by interpretation, bounded) -----------------------------------------------------------------
    r7 = report.rule('C09-R7', 'respellings compile to one structure (selector texts compiled by interpretation; bounded)', floor=19)
    from .e2etab import equivalent_spellings_table, respelling_table
    respelling_table(ctx, r7, deep=(ctx.tier == 'thorough'))
    equivalent_spellings_table(ctx, r7)



