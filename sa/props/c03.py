"""C03 - all query entry points are views of one match relation (decided clauses only).

R1  the six module-level wrappers forward every parameter to compile() in the right slot and call the same-named method
R2  one decision procedure: the top-level selector list is evaluated only through CSSMatch.match; select -> iselect,
    select_one -> select(limit=1); every verdict in CSSMatch.select/closest/filter is a call of CSSMatch.match
R3  CSSMatch.match can only be true for a non-document Tag; input validation happens in CSSMatch.__init__
R4  the matcher of each SoupSieve method is scoped on the call target and built from the same four fields
"""
from __future__ import annotations

import ast

from .. import boolpaths
from ..core import AnalysisError, Report
from ..srcmodel import call_name, unparse, walk_no_nested

WRAPPERS = {'select': ('tag', True), 'select_one': ('tag', False), 'iselect': ('tag', True),
            'match': ('tag', False), 'filter': ('iterable', False), 'closest': ('tag', False)}


def run(ctx, report: Report) -> None:
    src = ctx.src
    report.explanation = (
        'Structural agreement rules: argument forwarding of the API wrappers (exact), the call-graph funnel that makes '
        'every entry point consult the same decision procedure, the guards of that procedure as necessary conditions '
        'of a true result (three-valued path evaluation), and the scope argument of every matcher construction.')
    report.not_decided = ('document order / no duplicates (a property of Tag.descendants), the limit arithmetic, '
                          ':scope resolution when the call is made on the document object.')
    report.trusted_base = ['ast']
    imod = src.mod('__init__')

    # ---- R1 ----------------------------------------------------------------------------------------------
    r1 = report.rule('C03-R1', 'module-level wrappers forward every argument (partial evaluation with a recording compile())', floor=2)
    from .sem import wrappers_table
    wrappers_table(ctx, r1)

    # ---- R2 ----------------------------------------------------------------------------------------------
    r2 = report.rule('C03-R2', 'one decision procedure behind every entry point', floor=62)
    mmod = src.mod('css_match')
    # (a) the top-level list self.selectors is handed to match_selectors only inside CSSMatch.match
    for q, fn in mmod.functions.items():
        for c in [n for n in walk_no_nested(fn) if isinstance(n, ast.Call)]:
            if call_name(c).endswith('match_selectors') and len(c.args) >= 2 and unparse(c.args[1]) == 'self.selectors':
                ok = q == 'CSSMatch.match'
                r2.instance({'site': f'{q}: {unparse(c)}', 'inside_CSSMatch.match': ok}, key=f'{q}|{unparse(c)}')
                r2.obligation(ok)
                if not ok:
                    r2.violation(f'css_match.{q} match_selectors(self.selectors)', mmod.where(c),
                                 f'{q} evaluates the top-level selector list directly instead of through '
                                 f'CSSMatch.match: the document/non-element guards of the match relation are skipped')
    # (b) closest() and filter() of the per-call matcher, as tables over abstract trees with a stand-in for CSSMatch.match: the
    # verdict of every candidate comes from match(), the candidates are the target and its ancestors (nearest first) / the
    # element children of the target.  (c) SoupSieve.select / iselect / select_one: soupsieve_methods_table (R4).
    from .sem import closest_filter_table, context_restore_table
    closest_filter_table(ctx, r2)
    context_restore_table(ctx, r2)
    # (d) CSSMatch.select yields exactly the element descendants of the target, in document order (never the target itself,
    # never a following sibling): a table on abstract trees
    from .sem import select_walk_table
    select_walk_table(ctx, r2)

    # ---- R3 ----------------------------------------------------------------------------------------------
    r3 = report.rule('C03-R3', 'guards of the match relation', floor=1)
    _, mfn = src.func('css_match.CSSMatch.match')
    el = mfn.args.args[1].arg
    for atom, val, what in ((f'self.is_doc({el})', True, 'the document object'),
                            (f'self.is_tag({el})', False, 'a node that is not a Tag')):
        bad = [n for v, n, _ in boolpaths.return_values(mfn, {atom: val}) if v is not False]
        r3.instance({'guard': f'{atom} == {val} => result false', 'holds': not bad}, key=atom)
        r3.obligation(not bad)
        if bad:
            r3.violation(f'css_match.CSSMatch.match guard {atom}', mmod.where(mfn),
                         f'CSSMatch.match can return true for {what}: `{atom}` is not a necessary condition of a match')
    _, init = src.func('css_match.CSSMatch.__init__')
    scope_param = init.args.args[2].arg
    ok = any(isinstance(c, ast.Call) and call_name(c) == 'self.assert_valid_input'
             and [unparse(a) for a in c.args] == [scope_param] for c in ast.walk(init))
    r3.instance({'CSSMatch.__init__': f'assert_valid_input({scope_param})', 'present': ok}, key='assert')
    r3.obligation(ok)
    if not ok:
        r3.violation('css_match.CSSMatch.__init__ assert_valid_input', mmod.where(init),
                     'CSSMatch.__init__ no longer validates the call target: a non-Tag target is not rejected with TypeError')
    _, avi = src.func('css_match._DocumentNav.assert_valid_input')
    for rs in [n for n in ast.walk(avi) if isinstance(n, ast.Raise)]:
        t = call_name(rs.exc) if isinstance(rs.exc, ast.Call) else unparse(rs.exc)
        r3.instance({'assert_valid_input raises': t}, key=t)
        if t != 'TypeError':
            r3.violation(f'css_match._DocumentNav.assert_valid_input raises {t}', mmod.where(rs),
                         f'assert_valid_input raises {t}; the documented error for a non-Tag target is TypeError')

    # ---- R4 ----------------------------------------------------------------------------------------------
    r4 = report.rule('C03-R4', 'matchers are scoped on the call target and built from the same fields', floor=3)
    from .sem import iframe_policy, soupsieve_methods_table
    from ..interp import Obj
    from ..tables import el_obj
    soupsieve_methods_table(ctx, r4)
    iframe_policy(ctx, r4, 'css_match.CSSMatch.closest', lambda: [], lambda html, restrict: False,
                  'closest() is the nearest matching ancestor-or-self: the walk considers every ancestor, also across an iframe element',
                  self_fields={'tag': el_obj('start'), 'selectors': Obj(_name='SELECTORS')},
                  extra_stubs={'css_match.CSSMatch.match': lambda el: False, 'css_match.CSSMatch.match_selectors': lambda el, s_: False})

    # select() walks the descendants of its target: the walk itself, on small abstract trees
    from .sem import descendants_table
    descendants_table(ctx, r2)

    from .sem import select_limit_table
    select_limit_table(ctx, r2)

    from .sem import identity_table
    identity_table(ctx, r3)

    # ---- R5 (the whole pipeline by interpretation, bounded) --------------------------------------------------------------
    r5 = report.rule('C03-R5', 'select / iselect / select_one / limit / filter / closest agree with match() element by element (bounded)', floor=59)
    from .e2ematch import api_consistency_table
    api_consistency_table(ctx, r5, deep=(ctx.tier == 'thorough'))
    from .e2ematch import one_call_table
    one_call_table(ctx, r5, deep=(ctx.tier == 'thorough'))

    # ---- R6 (the whole pipeline by interpretation, bounded) --------------------------------------------------------------
    r6 = report.rule('C03-R6', 'results do not depend on the element a call starts from, inside and outside foreign-namespace subtrees (bounded)', floor=10)
    from .e2ematch import scope_independence_table
    scope_independence_table(ctx, r6)

    # ---- R7 (the whole pipeline by interpretation, bounded) --------------------------------------------------------------
    r7 = report.rule('C03-R7', ':scope and & denote exactly the element the call was made on, in every position of a selector and through every '
                     'entry point (bounded)', floor=309)
    from .e2ematch import scope_denotation_table
    scope_denotation_table(ctx, r7, deep=(ctx.tier == 'thorough'))
