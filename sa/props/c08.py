"""C08 - matching never raises on any tree (exception-escape analysis from the matching entry points).

R1  the only exception type that can leave select/select_one/iselect/match/filter/closest is the documented TypeError
    of assert_valid_input
R2  util.lower() never receives None: lru_cache erases its signature, so each call site is checked against the mypy
    type of its argument, refined by nullable-passthrough summaries of the attribute accessors
R3  every partial operation reachable from the matching API is discharged
R4  values obtained from get_parent() are not dereferenced without a None test (mypy-clean, and no suppression at
    those sites)
R5  ancestor / sibling walks advance on every path back to the loop head (necessary condition of termination)
"""
from __future__ import annotations

import ast

from ..callgraph import CallGraph
from ..core import AnalysisError, Report
from ..excflow import ExcFlow
from ..srcmodel import call_name, unparse, walk_no_nested

ENTRIES = [f'css_match.SoupSieve.{x}' for x in ('match', 'closest', 'filter', 'select_one', 'select', 'iselect')]
DOCUMENTED = {('TypeError', 'css_match._DocumentNav.assert_valid_input'): 'documented: the call target is not a Tag'}
CHAIN = {'get_parent', 'get_previous', 'get_previous_tag', 'get_next', 'get_next_tag'}
CHAIN_ATTRS = {'next_sibling', 'previous_sibling', 'parent', 'next_element', 'previous_element'}


def run(ctx, report: Report) -> None:
    src, inv = ctx.src, ctx.consts
    tf = ctx.types
    report.explanation = (
        'Exception-escape analysis from the six matching entry points over the type-resolved call graph (same engine as '
        'C06), plus a type rule for the one function whose signature lru_cache erases (util.lower), and a walk-progress '
        'rule for the ancestor/sibling loops.')
    report.not_decided = ('termination of the arithmetic loops of match_nth (run-time quantities); exceptions from '
                          'operations outside the catalogue (run-time subscripts are listed as unproven); behaviour for odd '
                          'attribute values read by state pseudo-classes (excluded by the property).')
    report.trusted_base = ['mypy inferred types', 're._parser.parse', 'bs4 navigation attributes return a node or None']
    cg = ctx.get('callgraph', lambda: CallGraph(ctx.types, src))
    ef = ExcFlow(ctx, cg)
    reach = cg.reachable(ENTRIES)
    report.analysed['reachable_functions'] = len(reach)
    mmod = src.mod('css_match')

    # ---- R1 / R3 -----------------------------------------------------------------------------------------
    r1 = report.rule('C08-R1', 'only the documented TypeError leaves the matching API', floor=1)
    r3 = report.rule('C08-R3', 'partial operations reachable from the matching API are discharged', floor=1)
    esc = {}
    for e in ENTRIES:
        esc.update(ef.escapes(e))
    for q in sorted(reach):
        for e in ef.events(q):
            if e.kind == 'raise':
                continue
            r3.instance({'function': e.func, 'operation': e.text[:80], 'may_raise': e.exc, 'discharged_by': e.discharged},
                        key=f'{e.func}|{e.kind}|{e.text[:60]}')
            if e.discharged:
                r3.obligation(True)
    for key, e in sorted(esc.items()):
        exc, origin, where = key
        if e.kind == 'raise':
            ok = (exc, origin) in DOCUMENTED
            r1.instance({'raise': e.text[:80], 'type': exc, 'in': origin, 'status': DOCUMENTED.get((exc, origin), 'UNDOCUMENTED')},
                        key=f'{origin}|{exc}|{e.text[:50]}')
            r1.obligation(ok)
            if not ok:
                r1.violation(f'{origin} raises {exc}', where,
                             f'`{e.text[:80]}` in {origin} can propagate out of the matching API along {" -> ".join(e.path[-5:])}')
        else:
            caught_by_caller = ''
            r3.obligation(False)
            r3.violation(f'{origin} {e.kind} {e.text[:50]}', where,
                         f'{origin}: `{e.text[:110]}` can raise {exc} and nothing between it and the matching API handles that '
                         f'(path {" -> ".join(e.path[-5:])})')

    # ---- R2 ------------------------------------------------------------------------------------------------
    r2 = report.rule('C08-R2', 'util.lower() never receives None', floor=4)
    # nullable-passthrough summaries: f(..., default) returns `default` or a normalised (non-None) value
    _, gabn = src.func('css_match._DocumentNav.get_attribute_by_name')
    params = [a.arg for a in gabn.args.args]
    dflt = params[-1]
    rets = [n.value for n in ast.walk(gabn) if isinstance(n, ast.Return)]

    def nonnull_or_default(a, depth=0):
        if a is None:
            return False
        if isinstance(a, ast.Name) and a.id == dflt:
            return True
        if isinstance(a, ast.Call) and call_name(a).endswith('normalize_value'):
            return True
        if isinstance(a, ast.Call) and call_name(a) in ('str', 'cast', 'typing.cast') and a.args:
            return call_name(a) == 'str' or nonnull_or_default(a.args[-1], depth)
        if isinstance(a, ast.IfExp):
            return nonnull_or_default(a.body, depth) and nonnull_or_default(a.orelse, depth)
        if isinstance(a, ast.Name) and depth < 3:
            assigns = [st.value for st in ast.walk(gabn) if isinstance(st, (ast.Assign, ast.AnnAssign)) and any(
                isinstance(t, ast.Name) and t.id == a.id for t in (st.targets if isinstance(st, ast.Assign) else [st.target]))]
            return bool(assigns) and a.id not in params and all(nonnull_or_default(x, depth + 1) for x in assigns)
        return False
    falls_off = not isinstance(gabn.body[-1], (ast.Return, ast.Raise))
    passthrough = bool(rets) and not falls_off and all(nonnull_or_default(r) for r in rets)
    _, nv = src.func('css_match._DocumentNav.normalize_value')
    nv_none = any(isinstance(n, ast.Return) and (n.value is None or (isinstance(n.value, ast.Constant) and n.value.value is None))
                  for n in ast.walk(nv))
    r2.instance({'summary': 'get_attribute_by_name returns its default or a normalize_value() result', 'holds': passthrough,
                 'normalize_value_can_return_None': nv_none}, key='summary')
    if not passthrough or nv_none:
        raise AnalysisError('the nullable-passthrough summary of get_attribute_by_name / normalize_value no longer holds')
    default_none = gabn.args.defaults and isinstance(gabn.args.defaults[-1], ast.Constant) and gabn.args.defaults[-1].value is None
    n_sites = 0
    for mn, mod in src.mods.items():
        for c in [n for n in ast.walk(mod.tree) if isinstance(n, ast.Call)]:
            if call_name(c) not in ('util.lower', 'lower') or not c.args:
                continue
            if call_name(c) == 'lower' and mn != 'util':
                continue
            a = c.args[0]
            fnq = mod.enclosing_function(c) or '<module>'
            if f'{mn}.{fnq}' not in reach:
                continue        # parser-side sites belong to C06/C09
            n_sites += 1
            verdict, why = None, ''
            if isinstance(a, ast.Call) and call_name(a).endswith('get_attribute_by_name'):
                d = a.args[2] if len(a.args) > 2 else next((k.value for k in a.keywords if k.arg == dflt), None)
                if d is None:
                    verdict, why = (not default_none), 'no default given: the accessor returns None when the attribute is missing'
                else:
                    dv = inv.folder.try_ev(mn, d, default='?')
                    verdict, why = dv is not None, f'default {unparse(d)}'
            else:
                t = tf.type_of(mn, a)
                if t is None:
                    verdict, why = True, 'no type recorded (constant or unreachable)'
                elif tf.may_be_none(t):
                    # effective yield type of iter_attributes: values are normalize_value() results
                    if isinstance(a, ast.Name) and _from_iter_attributes(mod, c, a.id):
                        verdict, why = True, 'value yielded by iter_attributes (normalize_value result, never None)'
                    elif isinstance(a, ast.Name) and _from_split_namespace(mod, c, a.id):
                        verdict, why = True, ('local name of a NamespacedAttribute: reached only when its namespace is not None, and '
                                              'bs4 sets name together with namespace (reviewed)')
                    elif isinstance(a, ast.Name) and _param_never_none(ctx, mn, mod, c, a.id):
                        verdict, why = True, ('a parameter: every call site in the package passes a value whose static type excludes None, a value '
                                              'yielded by iter_attributes, or the local name of a NamespacedAttribute (reviewed, as above)')
                    else:
                        verdict, why = False, f'static type {tf.show(t)} includes None'
                else:
                    verdict, why = True, f'static type {tf.show(t)}'
            r2.instance({'site': f'{mn}.{fnq}', 'argument': unparse(a)[:60], 'not_None': verdict, 'why': why},
                        key=f'{mn}.{fnq}|{unparse(a)[:50]}', sample_cap=5)
            r2.obligation(bool(verdict))
            if not verdict:
                r2.violation(f'{mn}.{fnq} util.lower({unparse(a)[:40]})', mod.where(c),
                             f'{mn}.{fnq}: util.lower({unparse(a)[:60]}) may receive None ({why}); lru_cache hides the signature from '
                             f'the type checker and iterating None raises TypeError')
    if n_sites < 5:
        raise AnalysisError(f'only {n_sites} util.lower call sites found')

    # ---- R4 ------------------------------------------------------------------------------------------------
    r4 = report.rule('C08-R4', 'values from get_parent() are None-tested before they are dereferenced', floor=2)
    # only possibly-None dereferences count: an argument-type complaint is not a run-time failure by itself
    errs = [e for e in tf.errors if 'css_match.py' in e and '[union-attr]' in e and '"None"' in e]
    for e in errs:
        r4.violation(f'mypy {e.split("error:")[-1].strip()[:60]}', e.split(': error')[0], f'type error at a dereference: {e}')
    for q, fn in mmod.functions.items():
        for st in walk_no_nested(fn):
            if isinstance(st, ast.Assign) and isinstance(st.value, ast.Call) and call_name(st.value).endswith('get_parent') \
                    and isinstance(st.targets[0], ast.Name):
                var = st.targets[0].id
                # direct attribute access on the variable anywhere in the function must be narrowed (mypy) - count uses
                derefs = [x for x in walk_no_nested(fn) if isinstance(x, ast.Attribute) and isinstance(x.value, ast.Name)
                          and x.value.id == var]
                bad = []
                for d in derefs:
                    t = tf.type_of('css_match', d.value)
                    if t is not None and tf.may_be_none(t):
                        bad.append(d)
                ignores = [i for i in range(fn.lineno, getattr(fn, 'end_lineno', fn.lineno) + 1)
                           if 'type: ignore[union-attr]' in mmod.source.splitlines()[i - 1]]
                r4.instance({'function': q, 'parent_variable': var, 'dereferences': len(derefs), 'possibly_None': len(bad),
                             'union-attr_suppressions': len(ignores)}, key=f'{q}|{var}')
                r4.obligation(not bad and not ignores)
                for d in bad:
                    r4.violation(f'css_match.{q} deref {unparse(d)}', mmod.where(d),
                                 f'{q}: `{unparse(d)}` dereferences a value from get_parent() that may be None (detached element, '
                                 f'top of the tree, iframe boundary)')
                for ln in ignores:
                    r4.violation(f'css_match.{q} union-attr suppression', f'soupsieve/css_match.py:{ln}',
                                 f'{q} suppresses a possibly-None attribute access with type: ignore')

    # ---- R5 ------------------------------------------------------------------------------------------------
    r5 = report.rule('C08-R5', 'ancestor / sibling walks advance on every path back to the loop head', floor=4)
    from ..pathwalk import Domain, Walker
    for q, fn in mmod.functions.items():
        if f'css_match.{q}' not in reach and not q.startswith(('CSSMatch.', '_DocumentNav.')):
            continue
        for loop in [n for n in walk_no_nested(fn) if isinstance(n, ast.While)]:
            # walk variables: assigned inside the loop from a chain accessor applied to themselves
            walkvars = set()
            for st in ast.walk(loop):
                if isinstance(st, ast.Assign) and isinstance(st.targets[0], ast.Name):
                    v, tgt = st.value, st.targets[0].id
                    if isinstance(v, ast.Call) and call_name(v).split('.')[-1] in CHAIN and v.args and unparse(v.args[0]) == tgt:
                        walkvars.add(tgt)
                    if isinstance(v, ast.Attribute) and v.attr in CHAIN_ATTRS and unparse(v.value) == tgt:
                        walkvars.add(tgt)
                    if isinstance(v, ast.Subscript) and unparse(v.value) == f'{tgt}.contents':
                        walkvars.add(tgt)
            if not walkvars:
                continue
            test_names = {x.id for x in ast.walk(loop.test) if isinstance(x, ast.Name)}

            class Prog(Domain):
                def is_state(self, x):
                    return isinstance(x, frozenset)

                def stmt(self, state, node):
                    if isinstance(node, ast.Assign):
                        for t in node.targets:
                            if isinstance(t, ast.Name):
                                v = node.value
                                adv = (isinstance(v, ast.Call) and call_name(v).split('.')[-1] in CHAIN and v.args
                                       and unparse(v.args[0]) == t.id) or (
                                    isinstance(v, ast.Attribute) and v.attr in CHAIN_ATTRS and unparse(v.value) == t.id) or (
                                    isinstance(v, ast.Subscript) and unparse(v.value) == f'{t.id}.contents')
                                if adv and t.id in walkvars:
                                    state = state | {'advanced'}
                                elif t.id in test_names and not (isinstance(v, ast.Constant) and v.value is None):
                                    # a test variable receives a fresh value (found = ..., form = parent)
                                    state = state | {'test-var-set'}
                    return state
            w = Walker(Prog())
            out = w.block(loop.body, {frozenset()})
            stuck = [s for s in (out.normal | out.cont) if not s]
            r5.instance({'function': q, 'loop': f'while {unparse(loop.test)[:60]}', 'walk_variables': sorted(walkvars),
                         'paths_back_without_progress': len(stuck)}, key=f'{q}|{unparse(loop.test)[:60]}')
            r5.obligation(not stuck)
            if stuck:
                r5.violation(f'css_match.{q} walk `{unparse(loop.test)[:40]}` can spin', mmod.where(loop),
                             f'{q}: the loop `while {unparse(loop.test)[:60]}` has a path back to its head on which neither the walk '
                             f'variable ({", ".join(sorted(walkvars))}) is advanced along the tree nor a tested variable receives a new '
                             f'value: on a node that takes this path (e.g. a missing parent) the walk never ends')
    _spin_rule(ctx, r5, mmod, reach)
    # ---- R6 ------------------------------------------------------------------------------------------------
    r6 = report.rule('C08-R6', 'attribute values reach the comparisons normalised (str or list of str)', floor=12)
    from ..interp import Obj, Raised, call_function
    from ..miniev import Unsupported
    from ..tables import NSKey, el_obj, matcher_obj
    U = 'urn:one'
    raw = object()          # a value of an arbitrary type, as the bs4 API allows
    first_bad = None
    for fn_q, mk_args in (('css_match.CSSMatch.match_attribute_name', lambda el, pre: [el, 'a', pre]),
                          ('css_match._DocumentNav.get_attribute_by_name', lambda el, pre: [el, 'a', None])):
        for is_xml in (False, True):
            for supports in (False, True):
                for prefix in ('', '*', 'p'):
                    for key in ('a', NSKey('x:a', U, 'a')):
                        el = el_obj('e', attrs={key: raw}, is_xml=is_xml)
                        me = matcher_obj(is_xml=is_xml, is_html=not is_xml, namespaces={'p': U})
                        stubs = {'css_match.CSSMatch.supports_namespaces': lambda _s=supports: _s,
                                 'css_match._DocumentNav.normalize_value': lambda v: ('normalised', v)}
                        try:
                            got = call_function(ctx, fn_q, mk_args(el, prefix), {}, stubs,
                                                me if 'CSSMatch' in fn_q else None)
                        except Raised as e:
                            got = f'raises {e.exc_name}'
                        except Unsupported as e:
                            raise AnalysisError(f'{fn_q}: outside the evaluable fragment: {e}')
                        ok = got is None or (isinstance(got, tuple) and got[:1] == ('normalised',))
                        r6.instance({'function': fn_q.split('.')[-1], 'xml': is_xml, 'namespaces': supports, 'prefix': prefix,
                                     'attribute': str(key), 'result': 'missing' if got is None else ('normalised' if ok else 'RAW')},
                                    key=f'{fn_q}|{is_xml}|{supports}|{prefix}|{key}', sample_cap=3)
                        if not ok and first_bad is None:
                            first_bad = (fn_q, is_xml, supports, prefix, str(key), got)
    r6.obligation(first_bad is None)
    if first_bad is not None:
        fn_q, is_xml, supports, prefix, key, got = first_bad
        r6.violation(f'{fn_q} raw value', mmod.where(src.func(fn_q)[1]),
                     f'{fn_q.split(".")[-1]} returns the attribute value as stored in the tree ({"XML" if is_xml else "HTML"} document, '
                     f'namespaces {"on" if supports else "off"}, selector prefix {prefix!r}, attribute {key!r}) without passing it through '
                     f'normalize_value: numbers, bytes or nested lists set through the bs4 API reach pattern.match / " ".join and '
                     f'raise TypeError')

    # ---- R7 ------------------------------------------------------------------------------------------------
    r7 = report.rule('C08-R7', 'the state pseudo-classes never raise on trees with multi-valued (list) attributes and odd text', floor=361)
    from ..core import Rule
    from .sem import (alternatives_table, children_table, closest_filter_table, descendants_table, dir_table, empty_table, lang_table,
                      lang_memo_table, nth_bounded_table, relations_table, root_table, select_walk_table)
    for table in (lang_table, lang_memo_table, dir_table, descendants_table, children_table, root_table, nth_bounded_table, relations_table,
                  empty_table, select_walk_table, closest_filter_table, alternatives_table):
        scratch = Rule(r7.rid, r7.title)
        table(ctx, scratch)
        r7.instances += scratch.instances
        r7.nontrivial |= scratch.nontrivial
        r7.samples.extend(scratch.samples[:2])
        r7.obligations += 1
        r7.discharged += 0 if any('raises' in f.message for f in scratch.findings) else 1
        for f in scratch.findings:
            if 'raises' in f.message:
                r7.findings.append(f)

    # ---- R8 (the whole pipeline by interpretation, bounded) --------------------------------------------------------------
    r8 = report.rule('C08-R8', 'no entry point raises on a tree of unusual but legal content, in several document flavours (whole pipeline; bounded)', floor=1)
    from .e2ematch import no_raise_table
    no_raise_table(ctx, r8, deep=(ctx.tier == 'thorough'))

    # ---- R9 --------------------------------------------------------------------------------------------------------------
    r9 = report.rule('C08-R9', 'tree walks are iterative: no navigation helper is part of a call cycle', floor=6)
    from .sem import no_tree_recursion_rule
    no_tree_recursion_rule(ctx, r9)

    # ---- R10 -------------------------------------------------------------------------------------------------------------
    r10 = report.rule('C08-R10', 'tuples that are ordered with < / > hold numbers only (no None, no text) in every position', floor=4)
    ordered_tuples_rule(ctx, r10, cg, reach)



def ordered_tuples_rule(ctx, rule, cg, reach):
    """Every ordering comparison (<, >, <=, >=) in the code reachable from the matching API whose operands are tuples: the tuples
    come from a package function (found through the local definitions of the operands); every tuple display that function can
    return has, by the inferred types, only int / float members - a None or str member raises TypeError when the prefix before it
    compares equal."""
    src, tf = ctx.src, ctx.types
    producers = {}
    site_types = {}
    sites = 0
    for q in sorted(reach):
        try:
            mod, fn = src.func(q)
        except Exception:
            continue
        for n in walk_no_nested(fn):
            if not (isinstance(n, ast.Compare) and any(isinstance(o, (ast.Lt, ast.Gt, ast.LtE, ast.GtE)) for o in n.ops)):
                continue
            for opnd in [n.left] + list(n.comparators):
                t = tf.type_of(mod.name, opnd)
                names = tf.instance_names(t) if t is not None else []
                if not any(x in ('tuple', 'builtins.tuple') for x in names):
                    continue
                sites += 1
                shape = tf.show(t).replace('builtins.', '').replace(' ', '').replace('|None', '').replace('None|', '')
                site_types.setdefault(shape, set()).add(f'{q}: `{unparse(n)[:60]}`')
                rule.instance({'ordering_site': f'{q}: `{unparse(n)[:60]}`', 'operand': unparse(opnd)[:30], 'operand_type': tf.show(t)},
                              key=f'site|{q}|{unparse(n)[:50]}|{unparse(opnd)[:20]}', sample_cap=4)
                # the definitions of the operand in this function: calls of package functions
                if not isinstance(opnd, ast.Name):
                    continue
                for st in walk_no_nested(fn):
                    val = None
                    if isinstance(st, ast.Assign) and any(isinstance(t_, ast.Name) and t_.id == opnd.id for t_ in st.targets):
                        val = st.value
                    elif isinstance(st, ast.AnnAssign) and isinstance(st.target, ast.Name) and st.target.id == opnd.id:
                        val = st.value
                    if isinstance(val, ast.Call):
                        nm = call_name(val).split('.')[-1]
                        for cq in cg.edges.get(q, ()):
                            if cq.split('.')[-1] == nm:
                                producers.setdefault(cq, set()).add(f'{q}: `{unparse(n)[:60]}`')
    if not sites:
        raise AnalysisError('no ordering comparison of tuples found in the code reachable from the matching API (match_range is expected)')
    # ... and, where the operands are parameters or table entries, the reachable functions that are declared to return a tuple of
    # exactly the type that is ordered somewhere
    for q in sorted(reach):
        try:
            mod, fn = src.func(q)
        except Exception:
            continue
        if fn.returns is None:
            continue
        shape = unparse(fn.returns).replace('typing.', '').replace('Tuple', 'tuple').replace(' ', '').replace('|None', '').replace('None|', '')
        if shape.startswith('Optional[') and shape.endswith(']'):
            shape = shape[9:-1]
        if shape in site_types:
            producers.setdefault(q, set()).update(site_types[shape])
    for cq, users in sorted(producers.items()):
        # the tuple displays the producer can return, through local variables, conditional expressions and calls of other
        # package functions whose result it hands on
        displays, seen, work = [], set(), []

        def returns_of(fq):
            try:
                m_, f_ = src.func(fq)
            except Exception:
                return
            if ('fn', fq) in seen:
                return
            seen.add(('fn', fq))
            for r in walk_no_nested(f_):
                if isinstance(r, ast.Return) and r.value is not None:
                    work.append((fq, m_, f_, r.value))
        returns_of(cq)
        while work:
            fq, m_, f_, e = work.pop()
            if isinstance(e, ast.Tuple):
                displays.append((m_, e))
            elif isinstance(e, ast.IfExp):
                work += [(fq, m_, f_, e.body), (fq, m_, f_, e.orelse)]
            elif isinstance(e, ast.Call):
                nm = call_name(e).split('.')[-1]
                for c2 in cg.edges.get(fq, ()):
                    if c2.split('.')[-1] == nm:
                        returns_of(c2)
            elif isinstance(e, ast.Name) and (fq, e.id) not in seen:
                seen.add((fq, e.id))
                for st in walk_no_nested(f_):
                    if isinstance(st, ast.Assign) and any(isinstance(t_, ast.Name) and t_.id == e.id for t_ in st.targets):
                        work.append((fq, m_, f_, st.value))
                    elif isinstance(st, ast.AnnAssign) and isinstance(st.target, ast.Name) and st.target.id == e.id and st.value is not None:
                        work.append((fq, m_, f_, st.value))
        if not displays:
            rule.note(f'{cq}: no tuple display found among the values it returns (undecided)')
        for mod, d in displays:
            bad = []
            for i, el in enumerate(d.elts):
                t = tf.type_of(mod.name, el)
                names = tf.instance_names(t) if t is not None else ['?']
                if isinstance(el, ast.Starred) or not names or not all(x in ('builtins.int', 'builtins.float', 'builtins.bool') for x in names):
                    bad.append((i, unparse(el), names))
            rule.instance({'producer': cq, 'tuple': unparse(d)[:80], 'ordered_in': sorted(users)[:2], 'member_types_numeric': not bad},
                          key=f'{cq}|{unparse(d)[:60]}')
            undec = [b for b in bad if b[2] == ['?'] or 'Any' in b[2]]
            hard = [b for b in bad if b not in undec]
            rule.obligation(not hard)
            if undec and not hard:
                rule.note(f'{cq}: members {[b[1] for b in undec]} of `{unparse(d)[:60]}` have no inferred type (undecided)')
            if hard:
                i, text, names = hard[0]
                rule.violation(f'{cq} tuple member `{text}`', mod.where(d),
                               f'{cq} returns the tuple `{unparse(d)[:80]}` whose member {i} (`{text}`) can be {" or ".join(x.split(".")[-1] for x in names)}; '
                               f'the tuple is ordered in {sorted(users)[0]}: when the members before it are equal, comparing that member '
                               f'with a number raises TypeError out of the matching API')


def _spin_rule(ctx, r5, mmod, reach):
    """Definite non-termination in the no-parent scenario for every function with a walk loop (incl. nested ones)."""
    for q, fn in mmod.functions.items():
        if not any(isinstance(n, ast.While) for n in walk_no_nested(fn)):
            continue
        if not q.startswith(('CSSMatch.', '_DocumentNav.')):
            continue
        cls = q.split('.')[0]
        node = spin_scenario(ctx, mmod, cls, fn)
        r5.instance({'function': q, 'scenario': 'element without parent/siblings', 'definite_spin': node is not None},
                    key=f'spin|{q}', nontrivial=True)
        r5.obligation(node is None)
        if node is not None:
            r5.violation(f'css_match.{q} spins without a parent', mmod.where(node),
                         f'{q}: for an element that has no parent (a detached fragment, or the top of the tree / an iframe '
                         f'boundary) the loop `while {unparse(node.test)[:50]}` returns to its head with exactly the same values of '
                         f'all variables: it never terminates')


def _from_iter_attributes(mod, call, name):
    fn_q = mod.enclosing_function(call)
    fn = mod.functions.get(fn_q) if fn_q else None
    if fn is None:
        return False
    for n in ast.walk(fn):
        if isinstance(n, ast.For) and isinstance(n.target, ast.Tuple) and any(
                isinstance(e, ast.Name) and e.id == name for e in n.target.elts) and isinstance(n.iter, ast.Call) and \
                (call_name(n.iter).endswith('iter_attributes') or call_name(n.iter).endswith('.items')):
            return True
    return False


def _param_never_none(ctx, mn, mod, call, name, depth=0):
    """`name` is a parameter of the function that encloses `call`; is it bound to a non-None value at every call site of that
    function in the module (static type without None, a key yielded by iter_attributes, a split_namespace name, or - up to three
    levels - a parameter for which the same holds)?"""
    tf = ctx.types
    fn_q = mod.enclosing_function(call)
    fn = mod.functions.get(fn_q) if fn_q else None
    if fn is None or depth > 3:
        return False
    params = [a.arg for a in fn.args.args]
    if name not in params:
        return False
    pos = params.index(name)
    is_method = bool(params) and params[0] in ('self', 'cls')
    sites = 0
    for c in ast.walk(mod.tree):
        if not (isinstance(c, ast.Call) and isinstance(c.func, (ast.Attribute, ast.Name))
                and (c.func.attr if isinstance(c.func, ast.Attribute) else c.func.id) == fn.name):
            continue
        i = pos - (1 if is_method and isinstance(c.func, ast.Attribute) else 0)
        arg = c.args[i] if 0 <= i < len(c.args) and not any(isinstance(x, ast.Starred) for x in c.args[:i + 1]) else next(
            (k.value for k in c.keywords if k.arg == name), None)
        if arg is None:
            return False
        sites += 1
        t = tf.type_of(mn, arg)
        if t is not None and not tf.may_be_none(t):
            continue
        if isinstance(arg, ast.Name) and (_from_split_namespace(mod, c, arg.id) or _from_iter_attributes(mod, c, arg.id)
                                          or _param_never_none(ctx, mn, mod, c, arg.id, depth + 1)):
            continue
        return False
    return sites > 0


def _from_split_namespace(mod, call, name):
    fn_q = mod.enclosing_function(call)
    fn = mod.functions.get(fn_q) if fn_q else None
    if fn is None:
        return False
    for n in ast.walk(fn):
        if isinstance(n, ast.Assign) and isinstance(n.targets[0], ast.Tuple) and any(
                isinstance(e, ast.Name) and e.id == name for e in n.targets[0].elts) and isinstance(n.value, ast.Call) and \
                call_name(n.value).endswith('split_namespace'):
            return True
    return False


def spin_scenario(ctx, mod, cls_name, fn, depth=0):
    """Interpret `fn` in the scenario "the element has no parent and no siblings" (a detached fragment - inside the
    property's domain): chain accessors applied to an element return None, everything reachable from there is
    None-propagation through the package's own accessors.  Returns the loop node if a loop head recurs with an
    identical concrete environment (definite non-termination), else None (terminates or no claim)."""
    from .. import miniev
    src = ctx.src

    def method(name):
        q = src.find_method(f'{mod.name}.{cls_name}', name) if cls_name else None
        if q is None:
            return None
        m, f = src.func(q)
        return f

    def resolver(ev, call):
        f = call.func
        if not (isinstance(f, ast.Attribute) and isinstance(f.value, ast.Name) and f.value.id in ('self', 'cls')):
            if isinstance(f, ast.Name) and f.id in getattr(ev, 'nested', {}):
                target = ev.nested[f.id]
            else:
                return NotImplemented
        else:
            target = method(f.attr)
            if target is None:
                return NotImplemented
        args = [ev.ev(a) for a in call.args]
        if isinstance(f, ast.Attribute) and f.attr in CHAIN and args and isinstance(args[0], miniev.Sym):
            return None          # scenario: no parent / no sibling
        if any(isinstance(a, miniev.Sym) for a in args):
            raise miniev.Unsupported('call with an opaque argument')
        if depth > 4:
            raise miniev.Unsupported('call depth')
        params = [a.arg for a in target.args.args]
        if params and params[0] in ('self', 'cls'):
            params = params[1:]
        env = {'self': miniev.Sym('self'), 'cls': miniev.Sym('cls')}
        defaults = target.args.defaults
        for i, p_ in enumerate(params):
            if i < len(args):
                env[p_] = args[i]
            else:
                di = i - (len(params) - len(defaults))
                if di < 0:
                    raise miniev.Unsupported('missing argument')
                env[p_] = ev.ev(defaults[di])
        for k in call.keywords:
            if k.arg:
                env[k.arg] = ev.ev(k.value)
        sub = miniev.MiniEval(env, consts=ev.consts)
        sub.resolver = resolver
        sub.nested = {}
        return sub.run(target.body)
    params = [a.arg for a in fn.args.args]
    env = {p_: miniev.Sym(p_) for p_ in params}
    env.setdefault('self', miniev.Sym('self'))
    ev = miniev.MiniEval(env, consts=lambda n: (_ for _ in ()).throw(KeyError(n)))
    ev.resolver = resolver
    ev.nested = {st.name: st for st in fn.body if isinstance(st, ast.FunctionDef)}
    ev.loop_cap = 16
    try:
        ev.run([st for st in fn.body if not isinstance(st, ast.FunctionDef)])
    except miniev.Spin as s_:
        return s_.node
    except (miniev.Unsupported, Exception):  # noqa: BLE001 - no claim
        return None
    return None

