"""C17 - HTML state pseudo-classes follow their definitions and partition laws (decided clauses only).

R1  partition laws hold by construction of the definitions (selector constants) - see also R5 (semantic comparison)
R2  document-context walks respect the iframe boundary and never anchor on the global document root
R3  the per-call memo tables of :default / :indeterminate are identity-keyed and transparent
R4  :in-range / :out-of-range cover exactly the range-typed inputs with a valid bound (decision table of match_range)
R5  each definition agrees, on a finite universe of abstract form trees, with the HTML Standard's definition
"""
from __future__ import annotations

import ast
import re

from ..core import AnalysisError, Report
from ..srcmodel import call_name, unparse, walk_no_nested

WALKERS = ('get_parent', 'get_tag_descendants', 'get_descendants', 'get_children', 'get_tag_children', 'get_contents',
           'get_text', 'get_own_text')


def strip_css(text: str) -> str:
    text = re.sub(r'/\*.*?\*/', ' ', text, flags=re.S)
    return re.sub(r'\s+', ' ', text).strip()


def split_top(text: str, sep: str = ',') -> list[str]:
    out, depth, cur = [], 0, []
    quote = None
    for ch in text:
        if quote:
            cur.append(ch)
            if ch == quote:
                quote = None
            continue
        if ch in '"\'':
            quote = ch
        elif ch in '([':
            depth += 1
        elif ch in ')]':
            depth -= 1
        if ch == sep and depth == 0:
            out.append(''.join(cur).strip())
            cur = []
        else:
            cur.append(ch)
    out.append(''.join(cur).strip())
    return out


def is_args(compound: str) -> set[str] | None:
    """Argument set of the first :is(...) of a compound like `html|*:is(a, b)[x]`."""
    m = re.search(r':is\(', compound)
    if not m:
        return None
    depth, i = 1, m.end()
    start = i
    while i < len(compound) and depth:
        depth += compound[i] == '('
        depth -= compound[i] == ')'
        i += 1
    return {re.sub(r'\s+', '', a) for a in split_top(compound[start:i - 1])}


def run(ctx, report: Report) -> None:
    src, inv = ctx.src, ctx.consts
    report.explanation = (
        'The state pseudo-classes are defined by selector constants plus small matcher functions. R1 compares the '
        'constants with each other (paired definitions share their control lists; complements are written as :not of '
        'the other; flagged constants keep the specially handled alternative last). R2/R3 are effect rules on the '
        'matcher functions. R4 reuses the exhaustive decision table of match_range. R5 interprets the constants with an '
        'independent selector evaluator over a finite universe of abstract form trees and compares with predicates '
        'transcribed from the HTML Standard.')
    report.not_decided = ('the semantics of each pseudo-class on all documents (form ownership via the form attribute, radio '
                          'groups across the whole tree, bidi resolution of :dir()).')
    report.trusted_base = ['ast', 'HTML Standard definitions transcribed in sa/selsyn_html.py']
    pmod = src.mod('css_parser')
    mmod = src.mod('css_match')
    from .sem import selector_constants
    sc = selector_constants(ctx)
    consts = {k: strip_css(v['text']) for k, v in sc.items() if k.startswith('CSS_')}
    flags = {k: v['flags'] for k, v in sc.items() if k.startswith('CSS_') and isinstance(v['flags'], int)}
    need = ['CSS_LINK', 'CSS_CHECKED', 'CSS_DEFAULT', 'CSS_INDETERMINATE', 'CSS_DISABLED', 'CSS_ENABLED', 'CSS_REQUIRED',
            'CSS_OPTIONAL', 'CSS_READ_WRITE', 'CSS_READ_ONLY', 'CSS_IN_RANGE', 'CSS_OUT_OF_RANGE', 'CSS_PLACEHOLDER_SHOWN']
    for n in need:
        if n not in consts:
            raise AnalysisError(f'selector constant {n} not found (anchor vanished)')
    F = {k: inv.const('css_parser', k) for k in ('FLG_HTML', 'FLG_DEFAULT', 'FLG_INDETERMINATE', 'FLG_IN_RANGE',
                                                 'FLG_OUT_OF_RANGE', 'FLG_PLACEHOLDER_SHOWN', 'FLG_PSEUDO')}

    # ---- R1 ----------------------------------------------------------------------------------------------
    r1 = report.rule('C17-R1', 'partition laws by construction of the definitions', floor=3)

    def law(key, ok, detail, msg):
        r1.instance({'law': key, **detail, 'holds': ok}, key=key)
        r1.obligation(ok)
        if not ok:
            r1.violation(f'C17 law {key}', 'soupsieve/css_parser.py (CSS_* definitions)', msg)
    # :enabled = X:not(:disabled), X = control list of the first alternative of :disabled
    dis_alts = split_top(consts['CSS_DISABLED'])
    en = consts['CSS_ENABLED']
    x_dis = is_args(dis_alts[0])
    x_en = is_args(en)
    law('enabled-is-complement-of-disabled', en.endswith(':not(:disabled)') and len(split_top(en)) == 1,
        {'CSS_ENABLED': en},
        f':enabled is defined as `{en}`; it must be a single compound ending in :not(:disabled) so that :enabled and :disabled are disjoint')
    law('enabled-disabled-same-controls', x_dis is not None and x_dis == x_en,
        {'disabled_controls': sorted(x_dis or []), 'enabled_controls': sorted(x_en or [])},
        f':enabled ranges over {sorted(x_en or [])} but :disabled[disabled] over {sorted(x_dis or [])}: together they no longer cover '
        f'exactly the form controls')
    subjects = set()
    for a in dis_alts[1:]:
        last = re.split(r'\s*>\s*|\s+(?![^()]*\))', a)[-1]
        args = is_args(last)
        subjects |= args if args else {re.sub(r'^html\|', '', last)}
    norm = {re.sub(r'^html\|', '', s) for s in subjects}
    law('disabled-descendant-subjects-are-controls', x_dis is not None and norm <= x_dis,
        {'subjects_of_inherited_disabledness': sorted(norm)},
        f'an alternative of :disabled selects {sorted(norm - (x_dis or set()))}, which :enabled does not range over: an element '
        f'could be :disabled without being a form control of the partition')
    # required / optional
    rq, op = consts['CSS_REQUIRED'], consts['CSS_OPTIONAL']
    law('required-optional-partition', is_args(rq) == is_args(op) and rq.endswith('[required]') and op.endswith(':not([required])')
        and is_args(rq) == {'input', 'textarea', 'select'},
        {'CSS_REQUIRED': rq, 'CSS_OPTIONAL': op},
        f':required = `{rq}` and :optional = `{op}` must be Y[required] / Y:not([required]) over Y = input, textarea, select')
    # read-only
    law('read-only-is-complement-of-read-write', re.sub(r'\s+', '', consts['CSS_READ_ONLY']) == 'html|*:not(:read-write)',
        {'CSS_READ_ONLY': consts['CSS_READ_ONLY']},
        f':read-only is `{consts["CSS_READ_ONLY"]}`; it must be html|*:not(:read-write)')
    # in/out of range
    law('in-range-out-of-range-same-selector', consts['CSS_IN_RANGE'] == consts['CSS_OUT_OF_RANGE']
        and flags.get('CSS_IN_RANGE', 0) & F['FLG_IN_RANGE'] and flags.get('CSS_OUT_OF_RANGE', 0) & F['FLG_OUT_OF_RANGE']
        and not flags.get('CSS_IN_RANGE', 0) & F['FLG_OUT_OF_RANGE'] and not flags.get('CSS_OUT_OF_RANGE', 0) & F['FLG_IN_RANGE'],
        {'same_text': consts['CSS_IN_RANGE'] == consts['CSS_OUT_OF_RANGE']},
        ':in-range and :out-of-range must be the same selector compiled with FLG_IN_RANGE / FLG_OUT_OF_RANGE respectively')
    # link / any-link
    from .sem import pseudo_table
    ptab = pseudo_table(ctx)
    same = ':link' in ptab and ':any-link' in ptab and ptab[':link'] == ptab[':any-link'] and bool(ptab[':link']['consts'])
    law('link-equals-any-link', same, {}, ':link and :any-link no longer have the same effect on the selector (one definition)')
    # :checked is the first alternative of :default; flagged constants keep the special alternative last
    d_alts = split_top(consts['CSS_DEFAULT'])
    law('checked-implies-default', d_alts[0] == ':checked' and flags.get('CSS_DEFAULT', 0) & F['FLG_DEFAULT'],
        {'CSS_DEFAULT_alternatives': d_alts},
        f':default is `{consts["CSS_DEFAULT"]}`: its first alternative must be :checked (every :checked element is :default)')
    law('default-special-alternative-last', 'form' in d_alts[-1] and 'submit' in d_alts[-1],
        {'last': d_alts[-1]},
        f'the last alternative of :default is `{d_alts[-1]}`; the first-submit-button logic is applied to the LAST alternative, '
        f'which must be the form ... [type=submit] one')
    i_alts = split_top(consts['CSS_INDETERMINATE'])
    law('indeterminate-special-alternative-last', 'radio' in i_alts[-1] and '[name]' in i_alts[-1]
        and flags.get('CSS_INDETERMINATE', 0) & F['FLG_INDETERMINATE'],
        {'last': i_alts[-1]},
        f'the last alternative of :indeterminate is `{i_alts[-1]}`; the radio-group logic is applied to the LAST alternative, '
        f'which must be the named radio button one')
    for n in need:
        if n == 'CSS_NTH_OF_S_DEFAULT':
            continue
        ok = bool(flags.get(n, 0) & F['FLG_HTML'])
        law(f'{n}-html-only', ok, {}, f'{n} is not compiled with FLG_HTML: an HTML state pseudo-class would match in plain XML')

    # ---- R2 ----------------------------------------------------------------------------------------------
    r2 = report.rule('C17-R2', 'document-context walks respect the iframe boundary', floor=62)
    const_true = {'match_default', 'match_indeterminate', 'match_indeterminate.get_parent_form', 'match_dir'}
    by_flag = {'match_lang': 'self.is_html', 'match_contains': 'self.is_html', 'match_past_relations': 'self.iframe_restrict',
               'match_future_child': 'self.iframe_restrict'}
    for q, fn in mmod.functions.items():
        if not q.startswith('CSSMatch.'):
            continue
        short = q[len('CSSMatch.'):]
        if short not in const_true and short not in by_flag:
            continue
        for c in [n for n in walk_no_nested(fn) if isinstance(n, ast.Call)]:
            nm = call_name(c).split('.')[-1]
            if nm not in WALKERS:
                continue
            if nm == 'get_parent' and short in ('match_nth',):
                continue
            # `children = self.get_tag_descendants` indirection in match_future_child
            kw = [k for k in c.keywords if k.arg == 'no_iframe']
            val = unparse(kw[0].value) if kw else None
            if kw and isinstance(kw[0].value, ast.Name):
                # a local that holds the flag (`is_html = self.is_html`, assigned once)
                defs = [st.value for st in ast.walk(fn) if isinstance(st, ast.Assign) and len(st.targets) == 1
                        and isinstance(st.targets[0], ast.Name) and st.targets[0].id == kw[0].value.id]
                stores = [x for x in ast.walk(fn) if isinstance(x, ast.Name) and x.id == kw[0].value.id and isinstance(x.ctx, ast.Store)]
                if len(defs) == 1 and len(stores) == 1:
                    val = unparse(defs[0])
            want = 'True' if short in const_true else by_flag[short]
            ok = val == want
            r2.instance({'function': short, 'call': unparse(c)[:70], 'no_iframe': val, 'expected': want}, key=f'{short}|{unparse(c)}')
            r2.obligation(ok)
            if not ok:
                r2.violation(f'css_match.CSSMatch.{short} {nm} no_iframe={val}', mmod.where(c),
                             f'{short}: `{unparse(c)[:70]}` crosses iframe boundaries (no_iframe={val}, expected {want}): the state of '
                             f'an element must be evaluated inside its own document')
        if short in ('match_future_child',):
            for c in [n for n in walk_no_nested(fn) if isinstance(n, ast.Call) and isinstance(n.func, ast.Name)]:
                kw = [k for k in c.keywords if k.arg == 'no_iframe']
                if kw:
                    val = unparse(kw[0].value)
                    ok = val == by_flag[short]
                    r2.instance({'function': short, 'call': unparse(c)[:70], 'no_iframe': val}, key=f'{short}|{unparse(c)}')
                    r2.obligation(ok)
                    if not ok:
                        r2.violation(f'css_match.CSSMatch.{short} indirect no_iframe={val}', mmod.where(c),
                                     f'{short}: `{unparse(c)[:70]}` must pass no_iframe={by_flag[short]}')
    # no global anchors in the state matchers
    anchored = ('match_default', 'match_indeterminate', 'match_indeterminate.get_parent_form', 'match_dir', 'find_bidi',
                'match_placeholder_shown', 'match_range')
    for short in anchored:
        fn = mmod.functions.get(f'CSSMatch.{short}')
        if fn is None:
            continue        # the helper was renamed, merged or split: the iframe rows of the pipeline table (R7) decide
        bad = sorted({unparse(x) for x in walk_no_nested(fn) if isinstance(x, ast.Attribute) and isinstance(x.value, ast.Name)
                      and x.value.id == 'self' and x.attr in ('root', 'scope', 'tag')})
        r2.instance({'function': short, 'global_anchors_read': bad}, key=f'anchor|{short}')
        r2.obligation(not bad)
        for b in bad:
            r2.violation(f'css_match.CSSMatch.{short} anchors on {b}', mmod.where(fn),
                         f'{short} reads `{b}`, the root/target of the whole call: the context of a state pseudo-class (its form, '
                         f'its radio group, its direction) must be found by walking up from the element inside its own document')
    # find_bidi skipping the content of nested iframes: row of the pipeline table (R7)

    # ---- R3 ----------------------------------------------------------------------------------------------
    r3 = report.rule('C17-R3', 'memo tables are identity-keyed lists', floor=14)
    _, init = src.func('css_match.CSSMatch.__init__')
    from .e2ematch import lookalike_table
    from .sem import memo_container_problem
    n_la = len(r3.findings)
    lookalike_table(ctx, r3)
    tables_clean = len(r3.findings) == n_la
    for st in walk_no_nested(init):
        if isinstance(st, ast.Assign) and unparse(st.targets[0]).startswith('self.cached_'):
            name = unparse(st.targets[0])
            problem = memo_container_problem(ctx, mmod, name, st.value)
            r3.instance({'memo': name, 'initialised_as': unparse(st.value), 'keyed_by_tags': problem}, key=name)
            r3.obligation(problem is None)
            if problem:
                r3.violation(f'{name} container', mmod.where(st),
                             f'{name} is initialised as `{unparse(st.value)}` and {problem}: a dict/set keyed by Tag objects compares tags '
                             f'structurally (bs4 tags are equal when their markup is equal), so two identical forms share one entry; '
                             f'the memo must be a list scanned with `is`, or keyed by id(...)')
    for short, cache in (('match_default', 'self.cached_default_forms'), ('match_indeterminate', 'self.cached_indeterminate_forms')):
        fn = mmod.functions.get(f'CSSMatch.{short}')
        # the lookup may live in the matcher function or in a helper method it was moved to
        loops = [(q_, n) for q_, f_ in mmod.functions.items() if q_.startswith('CSSMatch.') for n in walk_no_nested(f_)
                 if isinstance(n, (ast.For, ast.comprehension)) and unparse(n.iter) == cache]
        if fn is None and not loops:
            r3.note(f'{short} and its memo {cache} do not exist on this tree: the look-alike rows of the pipeline table (R7) decide')
            continue
        fn = fn or mmod.functions[loops[0][0]]
        ok = False
        for q_, lp in loops:
            tvars = {x.id for x in ast.walk(lp.target) if isinstance(x, ast.Name)}
            scope_ = lp if isinstance(lp, ast.For) else mmod.parents.get(lp)
            if any(isinstance(c, ast.Compare) and isinstance(c.ops[0], (ast.Is, ast.IsNot)) and (
                    {x.id for x in ast.walk(c.left) if isinstance(x, ast.Name)} | {x.id for x in ast.walk(c.comparators[0]) if isinstance(x, ast.Name)}) & tvars
                    for c in ast.walk(scope_)):
                ok = True
        r3.instance({'function': short, 'lookup_by_identity_scan': ok}, key=short)
        r3.obligation(ok or tables_clean)
        if not ok and tables_clean:
            r3.note(f'{short}: no identity scan of {cache} recognised structurally; the look-alike table (forms and radio groups with identical markup) decides')
        elif not ok:
            r3.violation(f'css_match.CSSMatch.{short} memo lookup', mmod.where(fn),
                         f'{short} does not look its form up in {cache} by an identity (`is`) scan')

    # ---- R4 ----------------------------------------------------------------------------------------------
    r4 = report.rule('C17-R4', 'in-range / out-of-range cover exactly the inputs with a valid bound', floor=224)
    from .c18 import range_table
    _, mr = src.func('css_match.CSSMatch.match_range')
    itype_var = None
    range_table(ctx, report, r4, mmod, mr, itype_var)
    for f in r4.findings:
        f.rule = 'C17-R4'

    # ---- R5 ----------------------------------------------------------------------------------------------
    try:
        from .. import selsyn_html
    except ImportError:
        return
    selsyn_html.check(ctx, report, consts)

    # ---- R6 ----------------------------------------------------------------------------------------------
    r6 = report.rule('C17-R6', 'directionality and placeholder content follow the HTML Standard (decision tables of the matcher functions)',
                     floor=226)
    from .sem import dir_table
    dir_table(ctx, r6)
    from ..interp import Obj, Raised, call_function
    from ..miniev import Unsupported
    from ..tables import el_obj, matcher_obj
    for desc_text, own_text, exp in (('', '', True), ('\n', '\n', True), ('typed', '', False), ('typed', 'typed', False),
                                     ('\n\n', '\n\n', False), (' ', ' ', False)):
        stubs = {'css_match._DocumentNav.get_text': lambda el, no_iframe=False, _t=desc_text: _t,
                 'css_match._DocumentNav.get_own_text': lambda el, no_iframe=False, _t=own_text: ([_t] if _t else [])}
        try:
            got = bool(call_function(ctx, 'css_match.CSSMatch.match_placeholder_shown', [el_obj('textarea')], {}, stubs,
                                     matcher_obj(is_xml=False, is_html=True)))
        except Raised as e:
            got = f'raises {e.exc_name}'
        except Unsupported as e:
            raise AnalysisError(f'match_placeholder_shown: outside the evaluable fragment: {e}')
        r6.instance({'textarea_text_content': desc_text, 'own_text_nodes': own_text, 'placeholder_shown': got, 'expected': exp},
                    key=f'ph|{desc_text!r}|{own_text!r}')
        r6.obligation(got == exp)
        if got != exp:
            r6.violation(f'css_match.CSSMatch.match_placeholder_shown content {desc_text!r}/{own_text!r}',
                         mmod.where(src.func('css_match.CSSMatch.match_placeholder_shown')[1]),
                         f'match_placeholder_shown answers {got} for a control whose text content is {desc_text!r} (own text nodes '
                         f'{own_text!r}); expected {exp}: the placeholder is shown only when the control has no content - the empty '
                         f'string or a single newline - and content held in child nodes counts')

    from .sem import descendants_table
    descendants_table(ctx, r2)

    from .sem import default_button_table
    default_button_table(ctx, r3)

    # ---- R7 (the whole pipeline by interpretation, bounded) --------------------------------------------------------------
    r7 = report.rule('C17-R7', ':dir() below dir=auto with invalid dir values, radio groups in nested forms, :default, :placeholder-shown (whole pipeline; bounded)', floor=13)
    from .e2ematch import state_pipeline_table
    state_pipeline_table(ctx, r7)

    from .e2ematch import default_namespace_state_table
    default_namespace_state_table(ctx, r7)





