"""C10 - escape() output always parses back to the original identifier (transducer argument, non-empty strings).

R1  escape() is a per-character transducer whose decision table can be extracted symbolically
R2  its image language is included in IDENTIFIER (full match)
R3  decoding inverts encoding class by class against the decoder's own tables
R4  escape() contains no partial operation (never raises)
R5  the pattern text travels from compile() to the tokenizer unmodified (except NUL replacement)
"""
from __future__ import annotations

import ast
import re

from .. import rx
from ..core import AnalysisError, Report
from ..rx import ALL, CS, MAXCP
from ..srcmodel import call_name, unparse, walk_no_nested

HEXDIGITS = CS.rng(0x30, 0x39) | CS.rng(0x41, 0x46) | CS.rng(0x61, 0x66)
NEWLINES = CS.of(0x0a, 0x0c, 0x0d)
BACKSLASH = CS.of(0x5c)
FLIP = {ast.LtE: ast.GtE, ast.Lt: ast.Gt, ast.GtE: ast.LtE, ast.Gt: ast.Lt, ast.Eq: ast.Eq, ast.NotEq: ast.NotEq}


STR_PREDICATES = {'isprintable', 'isalnum', 'isalpha', 'isdigit', 'isdecimal', 'isnumeric', 'isspace', 'isascii',
                  'isidentifier', 'islower', 'isupper'}
_pred_memo: dict = {}


def str_predicate(name: str) -> CS:
    """Set of code points c with getattr(chr(c), name)() - a table of the interpreter's Unicode database."""
    if name not in _pred_memo:
        iv, start = [], None
        for c in range(MAXCP):
            if getattr(chr(c), name)():
                if start is None:
                    start = c
            elif start is not None:
                iv.append((start, c))
                start = None
        if start is not None:
            iv.append((start, MAXCP))
        _pred_memo[name] = CS(iv)
    return _pred_memo[name]


def cmp_set(op, k: int) -> CS:
    if isinstance(op, ast.Eq):
        return CS.of(k)
    if isinstance(op, ast.NotEq):
        return CS.of(k).neg()
    if isinstance(op, ast.LtE):
        return CS.rng(0, k)
    if isinstance(op, ast.Lt):
        return CS.rng(0, k - 1) if k > 0 else CS()
    if isinstance(op, ast.GtE):
        return CS(((k, MAXCP),)) if k < MAXCP else CS()
    if isinstance(op, ast.Gt):
        return CS(((k + 1, MAXCP),)) if k + 1 < MAXCP else CS()
    raise AnalysisError(f'escape(): comparison operator {type(op).__name__} outside the table vocabulary')


class TableExtractor:
    def __init__(self, ctx, mod, fn):
        self.ctx = ctx
        self.mod = mod
        self.fn = fn
        self.param = fn.args.args[0].arg
        self.cp_var = None
        self.ch_var = None
        self.idx_var = None
        self.sd_var = None
        self.len_var = None
        self.dash = None
        self.locals = {}      # boolean locals of the loop body: name -> defining expression

    def const(self, n):
        v = self.ctx.consts.folder.try_ev(self.mod.name, n, default=None)
        if isinstance(v, bool) or not isinstance(v, int):
            raise AnalysisError(f'escape(): {unparse(n)} is not an integer constant')
        return v

    def ev(self, cond, index, sd, dom: CS) -> CS:
        """Subset of `dom` (code points) on which `cond` holds in the position context (index 0/1/2+, start_dash)."""
        if isinstance(cond, ast.BoolOp):
            parts = [self.ev(v, index, sd, dom) for v in cond.values]
            out = parts[0]
            for p in parts[1:]:
                out = (out & p) if isinstance(cond.op, ast.And) else (out | p)
            return out
        if isinstance(cond, ast.UnaryOp) and isinstance(cond.op, ast.Not):
            return dom - self.ev(cond.operand, index, sd, dom)
        if isinstance(cond, ast.Name) and cond.id == self.sd_var:
            return dom if sd else CS()
        if isinstance(cond, ast.Name) and cond.id in self.locals:
            return self.ev(self.locals[cond.id], index, sd, dom)
        if isinstance(cond, ast.Call) and isinstance(cond.func, ast.Attribute) and isinstance(cond.func.value, ast.Name) \
                and cond.func.value.id == self.ch_var and not cond.args and cond.func.attr in STR_PREDICATES:
            return dom & str_predicate(cond.func.attr)
        if isinstance(cond, ast.Compare):
            items = [cond.left] + cond.comparators
            out = dom
            for l, op, r in zip(items, cond.ops, items[1:]):
                if isinstance(l, ast.Name) and l.id == self.cp_var:
                    if isinstance(op, (ast.In, ast.NotIn)):
                        if not isinstance(r, (ast.Tuple, ast.List, ast.Set)):
                            raise AnalysisError(f'escape(): `{unparse(cond)}` outside the table vocabulary')
                        s = CS.of(*[self.const(e) for e in r.elts])
                        if isinstance(op, ast.NotIn):
                            s = s.neg()
                    else:
                        s = cmp_set(op, self.const(r))
                elif isinstance(r, ast.Name) and r.id == self.cp_var:
                    if type(op) not in FLIP:
                        raise AnalysisError(f'escape(): `{unparse(cond)}` outside the table vocabulary')
                    s = cmp_set(FLIP[type(op)](), self.const(l))
                elif isinstance(l, ast.Name) and l.id == self.idx_var or isinstance(r, ast.Name) and r.id == self.idx_var:
                    if isinstance(l, ast.Name) and l.id == self.idx_var:
                        k, o = self.const(r), op
                    else:
                        k, o = self.const(l), FLIP.get(type(op), type(None))()
                    # index classes: 0, 1, 2 (= any index >= 2)
                    if isinstance(o, ast.Eq):
                        if k >= 2:
                            raise AnalysisError('escape(): test on an index >= 2 is outside the position model')
                        holds = index == k
                    elif isinstance(o, ast.NotEq):
                        if k >= 2:
                            raise AnalysisError('escape(): test on an index >= 2 is outside the position model')
                        holds = index != k
                    elif isinstance(o, ast.Gt) and k in (0, 1):
                        holds = index > k
                    elif isinstance(o, ast.GtE) and k in (1, 2):
                        holds = index >= k
                    elif isinstance(o, ast.Lt) and k in (1, 2):
                        holds = index < k
                    elif isinstance(o, ast.LtE) and k in (0, 1):
                        holds = index <= k
                    else:
                        raise AnalysisError(f'escape(): `{unparse(cond)}` outside the position model')
                    s = ALL if holds else CS()
                elif False:
                    pass
                elif isinstance(l, ast.Name) and l.id == self.ch_var and isinstance(op, (ast.Eq, ast.NotEq)) \
                        and isinstance(r, ast.Constant) and isinstance(r.value, str) and len(r.value) == 1:
                    s = cmp_set(op, ord(r.value))
                else:
                    raise AnalysisError(f'escape(): `{unparse(cond)}` outside the table vocabulary')
                out = out & s
            return out
        raise AnalysisError(f'escape(): condition `{unparse(cond)}` outside the table vocabulary')

    def template(self, call: ast.Call):
        if not (isinstance(call.func, ast.Attribute) and call.func.attr == 'append' and len(call.args) == 1):
            raise AnalysisError(f'escape(): `{unparse(call)}` is not an output append')
        a = call.args[0]
        if isinstance(a, ast.Constant) and isinstance(a.value, str):
            return [('lit', a.value)]
        if isinstance(a, ast.Name) and a.id == self.ch_var:
            return [('chr',)]
        if isinstance(a, ast.JoinedStr):
            out = []
            for v in a.values:
                if isinstance(v, ast.Constant):
                    out.append(('lit', v.value))
                elif isinstance(v, ast.FormattedValue) and isinstance(v.value, ast.Name) and v.value.id in (
                        self.ch_var, self.param) and v.format_spec is None and v.conversion == -1:
                    out.append(('chr',))
                elif isinstance(v, ast.FormattedValue) and isinstance(v.value, ast.Name) and v.value.id == self.cp_var \
                        and v.format_spec is not None and unparse(v.format_spec) in ("f'x'", "f'X'"):
                    out.append(('hex',))
                else:
                    raise AnalysisError(f'escape(): output piece `{unparse(v)}` outside the template vocabulary')
            return out
        raise AnalysisError(f'escape(): output `{unparse(a)}` outside the template vocabulary')


def table_by_interpretation(ctx):
    """The decision table of escape() obtained by interpreting it (sa.interp) on `prefix + c + suffix` for representatives of
    every code-point interval on which its behaviour can differ: escape() can only distinguish code points through
    comparisons with integer (or one-character string) constants, so every such constant occurring anywhere in the module
    is taken as a boundary; all code points below U+0100 are enumerated one by one.  Returns (table, special_tpl, dash)."""
    from ..interp import Raised, call_function
    from ..miniev import Unsupported
    src = ctx.src
    mod = src.mod('css_parser')
    cuts = {0, MAXCP}
    for n in ast.walk(mod.tree):
        if isinstance(n, ast.Constant):
            v = n.value
            if isinstance(v, bool):
                continue
            if isinstance(v, int) and 0 <= v < MAXCP:
                cuts.update((v, v + 1))
            elif isinstance(v, str) and len(v) == 1:
                cuts.update((ord(v), ord(v) + 1))
    cuts.update(range(0, 0x101))
    cuts.update((0xD800, 0xE000, 0x10000))
    pts = sorted(c for c in cuts if 0 <= c <= MAXCP)
    intervals = [(a, b) for a, b in zip(pts, pts[1:]) if a < b]

    def esc(text):
        try:
            return call_function(ctx, 'css_parser.escape', [text], {}, {}, None)
        except Raised as e:
            return ('raises', e.exc_name)
        except Unsupported as e:
            raise AnalysisError(f'escape(): outside the evaluable fragment: {e}')
    if esc('zz') != 'zz' or esc('zzz') != 'zzz':
        raise AnalysisError('escape(): the probe character "z" is not passed through unchanged (the probing scheme does not apply)')
    dash = '-'
    out_dash = esc('-zz')
    if not isinstance(out_dash, str) or not out_dash.endswith('zz'):
        raise AnalysisError(f'escape("-zz") = {out_dash!r}: probing scheme does not apply')
    dash_piece = out_dash[:-2]

    def piece(sd, index, cp):
        ch = chr(cp)
        if index == 0:
            o = esc(ch + 'zz')
            cut = (0, 2)
        elif index == 1:
            o = esc((dash if sd else 'z') + ch + 'z')
            cut = (len(dash_piece) if sd else 1, 1)
        else:
            o = esc((dash if sd else 'z') + 'z' + ch + 'z')
            cut = ((len(dash_piece) if sd else 1) + 1, 1)
        if not isinstance(o, str):
            return o
        return o[cut[0]:len(o) - cut[1]]

    def kind(cp, o):
        ch = chr(cp)
        if not isinstance(o, str):
            return ('raises', o[1])
        if o == ch:
            return (('chr',),)
        if o == '\\' + ch:
            return (('lit', '\\'), ('chr',))
        if o.lower() == '\\%x ' % cp:
            return (('lit', '\\'), ('hex',), ('lit', ' '))
        return (('lit', o),)
    table = {}
    for sd in (False, True):
        for index in (0, 1, 2):
            rows = {}
            for a, b in intervals:
                if index == 0 and ((a <= ord(dash) < b) != sd):
                    continue
                reps = sorted({a, b - 1, (a + b) // 2})
                ks = {kind(cp, piece(sd, index, cp)) for cp in reps}
                if len(ks) != 1:
                    raise AnalysisError(f'escape(): code points U+{a:04X}..U+{b - 1:04X} are not treated uniformly ({sorted(map(str, ks))[:2]}) '
                                        'although no constant of the module separates them')
                k = ks.pop()
                if k[0] == 'raises':
                    raise AnalysisError(f'escape() raises {k[1]} for U+{a:04X} (index {index}, start_dash={sd})')
                rows.setdefault(k, []).append((a, b))
            table[(sd, index)] = [(CS.norm(iv), [tuple(t) for t in k]) for k, iv in rows.items()]
    special = esc('-')
    if special == '\\-':
        special_tpl = [('lit', '\\'), ('chr',)]
    elif isinstance(special, str):
        special_tpl = [('lit', special)]
    else:
        raise AnalysisError(f'escape("-") raises {special[1]}')
    return table, special_tpl, dash


def decoder_replaces(ctx) -> CS:
    """The set of code points cp for which css_unescape('\\<hex of cp> ') is U+FFFD rather than chr(cp)."""
    from ..interp import Raised, call_function
    from ..miniev import Unsupported
    mod = ctx.src.mod('css_parser')
    top = 0xFFFFFF
    cuts = {0, top + 1, 0xD800, 0xE000, 0x10000, MAXCP, MAXCP + 1}
    for n in ast.walk(mod.tree):
        if isinstance(n, ast.Constant) and isinstance(n.value, int) and not isinstance(n.value, bool) and 0 <= n.value <= top:
            cuts.update((n.value, n.value + 1))
    folder = ctx.consts.folder
    for name in folder.env_nodes.get('css_parser', {}):
        v = folder.try_ev('css_parser', ast.Name(id=name, ctx=ast.Load()), default=None)
        if isinstance(v, int) and not isinstance(v, bool) and 0 <= v <= top:
            cuts.update((v, v + 1))
    pts = sorted(c for c in cuts if 0 <= c <= top + 1)
    out = []
    for a, b in zip(pts, pts[1:]):
        verdicts = set()
        for cp in sorted({a, b - 1, (a + b) // 2}):
            try:
                got = call_function(ctx, 'css_parser.css_unescape', ['\\%x ' % cp], {}, {}, None, {'regex_engine': True})
            except Raised as e:
                raise AnalysisError(f'css_unescape raises {e.exc_name} on the hex escape of U+{cp:04X}')
            except Unsupported as e:
                raise AnalysisError(f'css_unescape: outside the evaluable fragment: {e}')
            if got == '\ufffd' and cp != 0xFFFD:
                verdicts.add('replaced')
            elif cp <= 0x10FFFF and got == chr(cp):
                verdicts.add('kept')
            else:
                raise AnalysisError(f'css_unescape maps the hex escape of U+{cp:04X} to {got!r}: neither the character nor U+FFFD')
        if len(verdicts) != 1:
            raise AnalysisError(f'css_unescape does not treat U+{a:04X}..U+{b - 1:04X} uniformly although no constant of the module separates them')
        if verdicts.pop() == 'replaced':
            out.append((a, b))
    return CS.norm(out)


def branches(ifn: ast.If):
    out = []
    while True:
        out.append((ifn.test, ifn.body))
        if len(ifn.orelse) == 1 and isinstance(ifn.orelse[0], ast.If):
            ifn = ifn.orelse[0]
        else:
            out.append((None, ifn.orelse))
            return out


def cls_rx(cs: CS) -> str:
    return '[' + ''.join((f'\\U{a:08x}' if b == a + 1 else f'\\U{a:08x}-\\U{b - 1:08x}') for a, b in cs.iv) + ']'


def run(ctx, report: Report) -> None:
    src, inv = ctx.src, ctx.consts
    report.explanation = (
        'escape() is modelled as a one-pass per-character transducer: its if/elif chain is evaluated symbolically '
        'over (position class x code-point interval set), giving for every class of characters an output template '
        '(literal text, the character, its hex). From the table the image language is built as a regular expression '
        'and proved included in IDENTIFIER; each template class is then checked against the decoder '
        '(RE_CSS_ESC + css_unescape.replace) so that decode(encode(c)) = c, with NUL -> U+FFFD. This covers every '
        'Unicode string of length >= 1, every code point in every position.')
    report.not_decided = ('that the elements selected by #escape(s), .escape(s), [a=escape(s)] are those whose '
                          'id/class/attribute equals s (that is C01); the empty string (no CSS identifier is empty).')
    report.trusted_base = ['re._parser.parse', 'the E3 automata model', 'str.format hex conversion']
    mod, fn = src.func('css_parser.escape')
    tx = TableExtractor(ctx, mod, fn)

    # ---- R1: locate the structure -------------------------------------------------------------------------
    r1 = report.rule('C10-R1', 'escape() decision table extracted symbolically', floor=4)
    def symbolic():
        loop = None
        for n in walk_no_nested(fn):
            if isinstance(n, ast.For) and isinstance(n.iter, ast.Call) and call_name(n.iter) == 'enumerate' \
                    and isinstance(n.target, ast.Tuple) and len(n.target.elts) == 2:
                loop = n
        if loop is None:
            raise AnalysisError('escape(): per-character loop `for index, c in enumerate(ident)` not found')
        tx.idx_var, tx.ch_var = (e.id for e in loop.target.elts)
        for st in loop.body:
            if isinstance(st, ast.Assign) and isinstance(st.value, ast.Call) and call_name(st.value) == 'ord' \
                    and isinstance(st.targets[0], ast.Name):
                tx.cp_var = st.targets[0].id
        chain = [st for st in loop.body if isinstance(st, ast.If)]
        others = []
        for st in loop.body:
            if isinstance(st, ast.If) or (isinstance(st, ast.Assign) and isinstance(st.value, ast.Call) and call_name(st.value) == 'ord'):
                continue
            if isinstance(st, ast.Assign) and len(st.targets) == 1 and isinstance(st.targets[0], ast.Name) and chain \
                    and st.lineno < chain[0].lineno and st.targets[0].id not in tx.locals \
                    and isinstance(st.value, (ast.Compare, ast.BoolOp, ast.UnaryOp)):
                tx.locals[st.targets[0].id] = st.value          # a named condition, evaluated where it is used
                continue
            others.append(st)
        if tx.cp_var is None or len(chain) != 1 or others:
            raise AnalysisError('escape(): loop body is not `codepoint = ord(c)`, named conditions and one if/elif chain')
        chain = chain[0]
        # start_dash = <...> ident[0] == '-'
        for st in fn.body:
            if isinstance(st, ast.Assign) and isinstance(st.targets[0], ast.Name):
                for c in ast.walk(st.value):
                    if isinstance(c, ast.Compare) and isinstance(c.left, ast.Subscript) and unparse(c.left) == f'{tx.param}[0]' \
                            and isinstance(c.ops[0], ast.Eq) and isinstance(c.comparators[0], ast.Constant):
                        tx.sd_var = st.targets[0].id
                        tx.dash = c.comparators[0].value
                if isinstance(st.value, ast.Call) and call_name(st.value) == 'len':
                    tx.len_var = st.targets[0].id
        # verbatim fast paths: `if REGEX.match(ident): return ident` before the table
        fast = []
        body_ifs = []
        for st in fn.body:
            if isinstance(st, ast.If) and not st.orelse and len(st.body) == 1 and isinstance(st.body[0], ast.Return) \
                    and isinstance(st.body[0].value, ast.Name) and st.body[0].value.id == tx.param \
                    and isinstance(st.test, ast.Call) and isinstance(st.test.func, ast.Attribute) \
                    and st.test.func.attr in ('match', 'fullmatch') and isinstance(st.test.func.value, ast.Name) \
                    and len(st.test.args) == 1 and unparse(st.test.args[0]) == tx.param \
                    and inv.find(f'css_parser.{st.test.func.value.id}') is not None:
                fast.append((st, inv.find(f'css_parser.{st.test.func.value.id}'), st.test.func.attr))
            elif isinstance(st, ast.If):
                body_ifs.append(st)
        top_if = body_ifs
        early = len(top_if) == 1 and not top_if[0].orelse and loop in fn.body and len(top_if[0].body) == 1 \
            and isinstance(top_if[0].body[0], ast.Return) and fn.body.index(top_if[0]) < fn.body.index(loop)
        if tx.sd_var is None or len(top_if) != 1 or not (early or loop in top_if[0].orelse):
            raise AnalysisError('escape(): single-dash special case / start_dash definition not found')
        top_if = top_if[0]
        if unparse(top_if.test) not in (f'{tx.len_var} == 1 and {tx.sd_var}', f'{tx.sd_var} and {tx.len_var} == 1'):
            raise AnalysisError(f'escape(): special case `{unparse(top_if.test)}` outside the model')
        if early:
            # `return f'\\{ident}'` - the same output vocabulary as an append
            special_call = ast.Call(func=ast.Attribute(value=ast.Name(id='_', ctx=ast.Load()), attr='append', ctx=ast.Load()),
                                    args=[top_if.body[0].value], keywords=[])
        else:
            if len(top_if.body) != 1 or not isinstance(top_if.body[0], ast.Expr):
                raise AnalysisError('escape(): special-case body outside the model')
            special_call = top_if.body[0].value
        special_tpl = tx.template(special_call)
        dash = ord(tx.dash)
        # any other statement in the function must be initialisation or the final join
        table = {}
        for sd in (False, True):
            for index in (0, 1, 2):
                dom = ALL
                if index == 0:
                    dom = CS.of(dash) if sd else ALL - CS.of(dash)
                rest = dom
                rows = []
                for test, body in branches(chain):
                    s = rest if test is None else tx.ev(test, index, sd, rest)
                    rest = rest - s
                    if len(body) != 1 or not isinstance(body[0], ast.Expr) or not isinstance(body[0].value, ast.Call):
                        raise AnalysisError('escape(): branch body is not a single output append')
                    if s:
                        tpl = tx.template(body[0].value)
                        rows.append((s, tpl))
                        r1.instance({'start_dash': sd, 'index': '>=2' if index == 2 else index, 'class': repr(s),
                                     'size': s.size(), 'template': tpl},
                                    key=f'{sd}|{index}|{s!r}|{tpl}')
                if rest:
                    raise AnalysisError('escape(): if/elif chain without a final else leaves characters unmapped')
                table[(sd, index)] = rows
        return table, special_tpl, tx.dash, fast, chain

    def merged(tab):
        out = {}
        for key, rows in tab.items():
            m = {}
            for cs, tpl in rows:
                k_ = tuple(tuple(t) for t in tpl)
                m[k_] = (m[k_] | cs) if k_ in m else cs
            out[key] = m
        return out
    sym, sym_err = None, None
    try:
        sym = symbolic()
    except AnalysisError as e:
        sym_err = str(e)
    itab, itab_err = None, None
    try:
        itab = table_by_interpretation(ctx)
    except AnalysisError as e:
        itab_err = str(e)
    if sym is None and itab is None:
        raise AnalysisError(f'escape(): neither extraction applies - symbolic: {sym_err}; interpreted: {itab_err}')
    if sym is not None and itab is None:
        table, special_tpl, dash_char, fast, chain = sym
        r1.note(f'interpreted cross-check not applicable ({itab_err})')
    elif sym is not None:
        itable, ispecial, idash = itab
        table, special_tpl, dash_char, fast, chain = sym
        ma, mb = merged(table), merged(itable)
        if ma != mb or [tuple(t) for t in special_tpl] != [tuple(t) for t in ispecial]:
            diff = [k for k in ma if ma[k] != mb.get(k)]
            raise AnalysisError(f'escape(): the symbolically extracted table and the interpreted table disagree (contexts {diff[:2]})')
        r1.instance({'cross_check': 'symbolic extraction and interpretation over code-point intervals give the same table'},
                    key='cross-check')
    else:
        # the shape is not one the symbolic extractor knows: the interpreted table alone carries the argument
        itable, ispecial, idash = itab
        table, special_tpl, dash_char, fast, chain = itable, ispecial, idash, [], fn
        r1.note(f'symbolic extraction not applicable ({sym_err}); table obtained by interpretation over code-point intervals')
        for (sd, index), rows in table.items():
            for cs, tpl in rows:
                r1.instance({'start_dash': sd, 'index': '>=2' if index == 2 else index, 'class': repr(cs), 'size': cs.size(),
                             'template': tpl}, key=f'{sd}|{index}|{cs!r}|{tpl}')
    tx.dash = dash_char
    report.extra['escape_table'] = {f'start_dash={k[0]},index={k[1]}': [(repr(s), t) for s, t in v]
                                    for k, v in table.items()}

    # ---- R2: image language inside IDENTIFIER -----------------------------------------------------------------
    r2 = report.rule('C10-R2', 'image of escape() is included in IDENTIFIER', floor=1)

    def row_rx(cs, tpl):
        out = ''
        for t in tpl:
            if t[0] == 'lit':
                out += re.escape(t[1])
            elif t[0] == 'chr':
                out += cls_rx(cs)
            elif t[0] == 'hex':
                # hex spelling of every member: over-approximated by digit strings of the right lengths
                lo, hi = len('%x' % cs.min()), len('%x' % cs.max())
                out += '[0-9a-f]{%d,%d}' % (lo, hi)
        return out

    def ctx_rx(sd, index):
        return '(?:' + '|'.join(row_rx(cs, tpl) for cs, tpl in table[(sd, index)]) + ')'
    special = ''.join(re.escape(t[1]) if t[0] == 'lit' else re.escape(tx.dash) for t in special_tpl)
    image = (f'(?:{special}|{ctx_rx(False, 0)}(?:{ctx_rx(False, 1)}{ctx_rx(False, 2)}*)?'
             f'|{ctx_rx(True, 0)}{ctx_rx(True, 1)}{ctx_rx(True, 2)}*)')
    ident = inv.const('css_parser', 'IDENTIFIER')
    tok_flags = inv.by_name('token:id').flags
    s = rx.System()
    try:
        A = s.add('image', image, 0)
        B = s.add('IDENTIFIER', ident, tok_flags)
        s.freeze()
        w = rx.included(A, B)
    except rx.Unsupported as e:
        raise AnalysisError(f'C10: {e}')
    r2.instance({'image_regex_length': len(image), 'counterexample': w}, key='image')
    r2.obligation(w is None)
    if w is not None:
        r2.violation(f'escape image not in IDENTIFIER {w!r}', mod.where(fn),
                     f'escape() can produce {w!r}, which the identifier grammar does not accept as one identifier: '
                     f"'#' + escape(s) is a syntax error or parses as something else")

    for st, rgx, how in fast:
        s = rx.System()
        A = s.add('fast', rgx.pattern, rgx.flags)
        A.prefix_lang = how == 'match'
        B = s.add('IDENTIFIER', ident, tok_flags)
        C = s.add('nobackslash', r'(?s)[^\\]*', 0)
        s.freeze()
        w = rx.included(A, B)
        w2 = rx.included(A, C)
        r2.instance({'verbatim_fast_path': unparse(st.test), 'not_identifier': w, 'contains_backslash': w2},
                    key=unparse(st.test))
        r2.obligation(w is None and w2 is None)
        if w is not None:
            r2.violation(f'escape fast path {unparse(st.test)} {w!r}', mod.where(st),
                         f'escape() returns {w!r} unchanged (it satisfies `{unparse(st.test)}`), but that text is not '
                         f'one identifier for the parser')
        elif w2 is not None:
            r2.violation(f'escape fast path {unparse(st.test)} backslash {w2!r}', mod.where(st),
                         f'escape() returns {w2!r} unchanged although it contains a backslash, which decodes differently')

    # ---- R3: decode(encode(c)) == c ----------------------------------------------------------------------------
    r3 = report.rule('C10-R3', 'decoding inverts encoding, class by class', floor=4)
    # decoder tables
    esc = inv.by_name('css_parser.RE_CSS_ESC')
    s = rx.System()
    enc_hex = s.add('enc_hex', r'\\[0-9a-f]{1,6}[ ]', re.I)          # what the hex template emits
    g1 = s.add('g1', esc.pattern, esc.flags, group=1)
    g1_shape = s.add('g1shape', r'(?s)\\[0-9a-f].*', re.I)           # group 1 always starts backslash + hex digit
    g2 = s.add('g2', esc.pattern, esc.flags, group=2)
    enc_chr = s.add('enc_chr', r'\\[^\r\n\f]', re.I)
    s.freeze()
    checks = [('hex template is matched whole by decoder group 1', rx.included(enc_hex, g1)),
              ('decoder group 1 needs a hex digit after the backslash', rx.included(g1, g1_shape)),
              ('backslash + character is matched by decoder group 2', rx.included(enc_chr, g2))]
    for what, w in checks:
        r3.instance({'decoder_fact': what, 'counterexample': w}, key=what)
        r3.obligation(w is None)
        if w is not None:
            r3.violation(f'RE_CSS_ESC {what}', esc.where,
                         f'the escape decoder RE_CSS_ESC no longer inverts escape(): {what} fails on {w!r}')
    # code points the decoder replaces by U+FFFD: css_unescape is interpreted (its regex applied by the analyser's own matcher
    # over the pattern's parse tree) on the hex escape of a representative of every code-point interval that a constant of
    # the module can separate
    repl = decoder_replaces(ctx)
    report.extra['decoder_replaces'] = repr(repl)
    for (sd, index), rows in sorted(table.items()):
        for cs, tpl in rows:
            kinds = [t[0] for t in tpl]
            where = f'start_dash={sd}, index={">=2" if index == 2 else index}, class {cs!r}'
            ok, why = True, ''
            if kinds == ['chr']:
                bad = cs & BACKSLASH
                if bad:
                    ok, why = False, 'a literal backslash starts an escape when decoded'
            elif kinds == ['lit', 'chr'] and tpl[0][1] == '\\':
                bad = cs & (HEXDIGITS | NEWLINES)
                if bad:
                    ok, why = False, (f'backslash + {bad!r} is read by the decoder as a hex escape / line '
                                      'continuation, not as the character itself')
            elif kinds == ['lit', 'hex', 'lit'] and tpl[0][1] == '\\' and tpl[2][1] == ' ':
                if cs.max() > 0xFFFFFF:
                    ok, why = False, 'more than six hex digits'
                bad = cs & repl
                if ok and bad:
                    ok, why = False, f'the decoder maps {bad!r} to U+FFFD, not back to the character'
            elif kinds == ['lit'] and cs == CS.of(0) and tpl[0][1] == '\ufffd':
                pass
            else:
                ok, why = False, f'template {tpl} has no decoding rule in this argument'
            r3.instance({'context': where, 'template': tpl, 'inverts': ok}, key=where + str(tpl))
            r3.obligation(ok)
            if not ok:
                r3.violation(f'escape row {sd}/{index} {cs!r} {tpl}', mod.where(chain),
                             f'escape(): for {where} the output {tpl} does not decode back to the character: {why}')

    # ---- R4: no partial operation ------------------------------------------------------------------------------
    r4 = report.rule('C10-R4', 'escape() contains no partial operation', floor=12)
    # (a) exception-flow analysis from escape(): every partial operation of the catalogue (int / chr / format / dict keys / next /
    #     possibly-unbound locals / standard-library functions that raise on part of their domain) in the code reachable from it is
    #     discharged where it stands
    from ..callgraph import CallGraph
    from ..excflow import ExcFlow
    cg_ = ctx.get('callgraph', lambda: CallGraph(ctx.types, src))
    ef_ = ExcFlow(ctx, cg_)
    reach_ = cg_.reachable(['css_parser.escape'])
    for q_ in sorted(reach_):
        for e_ in ef_.events(q_):
            if e_.kind == 'raise':
                continue
            r4.instance({'function': e_.func, 'operation': e_.text[:80], 'may_raise': e_.exc, 'discharged_by': e_.discharged}, key=f'{e_.func}|{e_.kind}|{e_.text[:60]}')
    for key_, e_ in sorted(ef_.escapes('css_parser.escape').items()):
        if e_.kind == 'raise':
            r4.violation(f'css_parser.escape raises {e_.exc}', e_.where, f'escape() can raise {e_.exc} ({e_.text[:60]}, path {" -> ".join(e_.path)}): escaping never raises')
        elif not (e_.discharged or '').startswith('UNDECIDED'):
            r4.violation(f'{e_.func} {e_.kind} {e_.text[:50]}', e_.where,
                         f'{e_.func}: `{e_.text}` can raise {e_.exc} and nothing between it and escape() handles that (path {" -> ".join(e_.path)})')
    # (b) escape() by interpretation on the empty string and on hostile identifiers: no call raises (subscripts such as ident[0]
    #     are outside the catalogue of (a); the empty identifier and one- and two-character identifiers are where they fail)
    from ..interp import Raised, call_function
    from ..miniev import Unsupported
    from .e2ematch import HOSTILE
    probes = ['', '-', '--', '-0', '0', '00', '-a', 'a', '\x00', '\x00\x00', '-\x00', '\x7f', '\x1f0', '9-', '_', '\U0010ffff', '\ud800'] + list(HOSTILE)
    raised = None
    for text_ in dict.fromkeys(probes):
        try:
            out_ = call_function(ctx, 'css_parser.escape', [text_], {}, {}, None, options={'regex_engine': True})
            res_ = out_ if isinstance(out_, str) else f'returns {type(out_).__name__}'
        except Raised as e:
            res_ = f'raises {e.exc_name}'
        except Unsupported as e:
            raise AnalysisError(f'escape({text_!r}): outside the evaluable fragment: {e}')
        r4.instance({'escape_of': text_, 'result': res_[:40]}, key=f'escape|{text_!r}', sample_cap=4)
        if (res_.startswith('raises') or res_.startswith('returns ')) and raised is None:
            raised = (text_, res_)
    r4.obligation(raised is None)
    if raised is not None:
        r4.violation(f'css_parser.escape({raised[0]!r})', mod.where(fn), f'escape({raised[0]!r}) {raised[1]}: escaping never raises and returns text')
    empty = None
    try:
        empty = call_function(ctx, 'css_parser.escape', [''], {}, {}, None, options={'regex_engine': True})
    except (Raised, Unsupported):
        pass
    if empty not in ('', None):
        r4.violation('css_parser.escape empty string', mod.where(fn), f'escape("") gives {empty!r} instead of ""')

    # ---- R5: pattern text reaches the tokenizer unmodified -----------------------------------------------------
    r5 = report.rule('C10-R5', 'pattern text travels from compile() to the tokenizer unmodified', floor=1)
    from .sem import pattern_handover_table
    pattern_handover_table(ctx, r5)

    # ---- R6 ----------------------------------------------------------------------------------------------------
    r6 = report.rule('C10-R6', 'an escaped identifier reaches the IR through one decode and position-based unquoting only', floor=19)
    from .c09 import decode_pipeline_rule
    decode_pipeline_rule(ctx, r6, r6)
    # only the decode / unquoting findings belong to this property (the case-folding findings are C09/C11 material)
    r6.findings[:] = [f for f in r6.findings if 'decodes=' in f.key or ' step ' in f.key or 'slice after decode' in f.key]

    # ---- R7 (texts compiled by interpretation, bounded) -----------------------------------------------------------------
    r7 = report.rule('C10-R7', 'escape(s) read back by the parser is the identifier s (hostile characters in every position; bounded)', floor=1)
    from .e2etab import escape_roundtrip_table
    escape_roundtrip_table(ctx, r7)

    # ---- R8 (the whole pipeline by interpretation, bounded) --------------------------------------------------------------
    r8 = report.rule('C10-R8', 'selectors built with escape() select exactly the carriers of the string (whole pipeline; bounded)', floor=1)
    from .e2ematch import escape_selects_table
    escape_selects_table(ctx, r8)



